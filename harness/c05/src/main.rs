//! C05 — the state of a collaborative object is a function of its change set.
//!
//! Case: `<changes> <tipsets> ord=<ranks>` (syntax in `cobworld.rs` / `Driver/C05.lean`). The changes are
//! stored as real change commits of a real issue; every tip set (an ordered list of tip references,
//! possibly with duplicates, interior commits or a commit that is not a change) is loaded and evaluated
//! by the real `ChangeGraph::load` + `evaluate`, once as `Issue` and once as the raw entry list (which
//! shows the traversal order). The first tip set is also installed as namespace refs and read through
//! the real `radicle_cob::get`. `ord` is the order of the change oids, computed here and appended to the
//! case text (an opaque function of the model).
//!
//! Oracle: tip sets with the same reachable loadable changes must give identical results (object JSON,
//! history, traversal order); `get` through namespace refs must agree with the explicit tip list.

mod cobworld;

use cobworld::*;
use verif_common::*;

fn run_case(w: &mut World, input: &str) -> (String, Outcome) {
    let toks: Vec<&str> = input.split(' ').collect();
    let bad = |i: &str| (i.to_string(), Outcome::new("bad-case").trivial().tag("bad-case"));
    if toks.len() < 2 || toks.len() > 4 {
        return bad(input);
    }
    let Some(chs) = parse_changes(toks[0]) else { return bad(input) };
    let Some(tipsets) = toks[1].split('/').map(|t| parse_refs(t, ',')).collect::<Option<Vec<_>>>() else { return bad(input) };
    if tipsets.iter().flatten().any(|t| matches!(t, Some(i) if *i >= chs.len())) {
        return bad(input);
    }
    w.used += 1;
    let b = match build(w, &chs) {
        Ok(b) => b,
        Err(e) => return (input.to_string(), Outcome::new(format!("store-failed:{e}")).trivial()),
    };
    let canon = format!("{} {} {}", toks[0], toks[1], facts(&b));
    let mut o = Outcome::new("");
    if toks.len() == 4 && format!("{} {}", toks[2], toks[3]) != facts(&b) {
        o.tags.push("facts-differ-from-recorded".into());
    }
    for (i, c) in chs.iter().enumerate() {
        if c.forged == b.sig[i] {
            o.violations.push(("harness-forgery-mismatch".into(), format!("change {i}: forged={} but valid_signatures()={}", c.forged, b.sig[i])));
        }
    }
    let mut outs = vec![];
    // (closure, exact result) per tip set
    let mut exact: Vec<(std::collections::BTreeSet<usize>, String)> = vec![];
    for (k, tips) in tipsets.iter().enumerate() {
        let raw = eval_raw(w, &b, tips);
        let (txt, json) = match eval_issue(w, &b, tips) {
            Ok(None) => ("none".to_string(), String::new()),
            Ok(Some(v)) => (v.text, v.json),
            Err(e) => (e, String::new()),
        };
        if k == 0 && tips.len() <= N_ACTORS && tips.iter().all(|t| t.is_some()) && !tips.is_empty() {
            let plain: Vec<usize> = tips.iter().flatten().copied().collect();
            let via = match eval_issue_via_refs(w, &b, &plain) {
                Ok(None) => "none".to_string(),
                Ok(Some(v)) => format!("{}#{}", v.text, v.json),
                Err(e) => e,
            };
            let direct = if json.is_empty() { txt.clone() } else { format!("{txt}#{json}") };
            o.tags.push("via-namespace-refs".into());
            if via != direct {
                o.violations.push(("get-differs-from-explicit-tips".into(), format!("get: {via} explicit: {direct}")));
            }
        }
        o.tags.push(match txt.as_str() {
            "none" => "res-none",
            "missing-root" => "res-missing-root",
            "init-err" => "res-init-err",
            _ if txt.starts_with('T') => "res-object",
            _ => "res-other-error",
        }
        .into());
        exact.push((closure(&chs, tips), format!("{raw}|{txt}#{json}")));
        outs.push(format!("{raw}|{txt}"));
    }
    // the property: same change set => same result
    let mut groups = 0;
    for i in 0..exact.len() {
        if exact[..i].iter().all(|e| e.0 != exact[i].0) {
            groups += 1;
        }
        for j in 0..i {
            if exact[i].0 == exact[j].0 && exact[i].1 != exact[j].1 {
                o.violations.push((
                    "state-depends-on-tip-enumeration".into(),
                    format!("tip sets {j} and {i} reach the same changes but give {} vs {}", exact[j].1, exact[i].1),
                ));
                break;
            }
        }
    }
    // distribution: ties, merges, rejected changes, dangling parents
    let ties = (0..chs.len()).any(|i| (0..i).any(|j| chs[i].ts == chs[j].ts && chs[i].parents.iter().any(|p| chs[j].parents.contains(p))));
    if ties {
        o.tags.push("sibling-timestamp-tie".into());
    }
    if chs.iter().any(|c| c.parents.len() > 1) {
        o.tags.push("merge".into());
    }
    if chs.iter().any(|c| c.parents.contains(&None)) {
        o.tags.push("unloadable-parent".into());
    }
    if chs.iter().any(|c| c.parents.iter().flatten().any(|p| c.parents.iter().flatten().any(|q| q != p && closure(&chs, &[Some(*q)]).contains(p)))) {
        o.tags.push("redundant-parent".into());
    }
    if (1..chs.len()).any(|i| !accepted(&chs, i)) {
        o.tags.push("has-rejected-change".into());
    }
    for (i, c) in chs.iter().enumerate() {
        if c.forged {
            o.tags.push("bad-signature".into());
            let has_child = chs.iter().any(|d| d.parents.contains(&Some(i)));
            o.tags.push(if i == 0 { "bad-signature-root" } else if has_child { "bad-signature-interior" } else { "bad-signature-tip" }.into());
            // a tip set in which some valid ancestor is reachable only through the badly signed change
            let through = tipsets.iter().any(|t| {
                let full = closure(&chs, t);
                let mut st: Vec<usize> = t.iter().flatten().copied().filter(|x| *x != i).collect();
                let mut seen = std::collections::BTreeSet::new();
                while let Some(x) = st.pop() {
                    if x != i && seen.insert(x) {
                        st.extend(chs[x].parents.iter().flatten().copied());
                    }
                }
                full.contains(&i) && full.iter().any(|x| *x != i && !seen.contains(x))
            });
            if through {
                o.tags.push("ancestors-only-through-bad-signature".into());
            }
        }
    }
    o.tags.push(format!("tipsets-{}", match tipsets.len() { 0..=2 => "1-2", 3..=8 => "3-8", _ => "9+" }));
    o.tags.push(format!("closure-groups-{}", groups.min(4)));
    o.nontrivial = tipsets.len() >= 2 && chs.len() >= 3;
    o.output = outs.join("/");
    (canon, o)
}

fn permutations(xs: &[usize]) -> Vec<Vec<usize>> {
    if xs.len() <= 1 {
        return vec![xs.to_vec()];
    }
    let mut out = vec![];
    for i in 0..xs.len() {
        let mut rest = xs.to_vec();
        let x = rest.remove(i);
        for mut p in permutations(&rest) {
            p.insert(0, x);
            out.push(p);
        }
    }
    out
}

fn show_tips(t: &[Option<usize>]) -> String {
    if t.is_empty() {
        return "-".into();
    }
    t.iter().map(|x| x.map(|i| i.to_string()).unwrap_or("x".into())).collect::<Vec<_>>().join(",")
}

fn gen_case(rng: &mut Rng, max_n: u64) -> String {
    let n = rng.range(2, max_n) as usize;
    let chs = gen_changes(rng, n, 12, true);
    let hs = heads(&chs);
    let mut sets: Vec<Vec<Option<usize>>> = vec![];
    // every permutation of the heads (the namespaces' tips) when there are few, else some
    let perms = if hs.len() <= 4 { permutations(&hs) } else { (0..8).map(|_| { let mut p = hs.clone(); for i in (1..p.len()).rev() { p.swap(i, rng.below(i as u64 + 1) as usize); } p }).collect() };
    for p in perms {
        sets.push(p.into_iter().map(Some).collect());
    }
    // same closure through more references: interior commits, duplicates, a non-change commit
    for _ in 0..3 {
        let mut s: Vec<Option<usize>> = hs.iter().map(|h| Some(*h)).collect();
        for _ in 0..rng.range(1, 3) {
            s.insert(rng.below(s.len() as u64 + 1) as usize, Some(rng.below(chs.len() as u64) as usize));
        }
        if rng.chance(1, 3) {
            s.insert(rng.below(s.len() as u64 + 1) as usize, None);
        }
        sets.push(s);
    }
    // namespace subsets: some with the same closure, some with a smaller one
    for _ in 0..3 {
        let s: Vec<Option<usize>> = (0..chs.len()).filter(|_| rng.chance(1, 3)).map(Some).collect();
        if !s.is_empty() {
            let mut s = s;
            if rng.bool() {
                s.reverse();
            }
            sets.push(s);
        }
    }
    // lagging namespaces around a badly signed change: the heads plus one (transitive) ancestor of it, and the
    // heads above it alone — all with the same closure
    for (i, c) in chs.iter().enumerate() {
        if !c.forged {
            continue;
        }
        let anc: Vec<usize> = closure(&chs, &[Some(i)]).into_iter().filter(|a| *a != i).collect();
        for a in anc.iter().rev().take(3) {
            let mut s: Vec<Option<usize>> = hs.iter().map(|h| Some(*h)).collect();
            if rng.bool() { s.push(Some(*a)) } else { s.insert(0, Some(*a)) }
            sets.push(s);
        }
        let above: Vec<Option<usize>> = hs.iter().filter(|h| closure(&chs, &[Some(**h)]).contains(&i)).map(|h| Some(*h)).collect();
        if !above.is_empty() {
            for a in anc.iter().take(2) {
                let mut s = above.clone();
                s.push(Some(*a));
                sets.push(s);
            }
            sets.push(above);
        }
    }
    if rng.chance(1, 10) {
        sets.push(vec![None]);
    }
    format!("{} {}", show_changes(&chs), sets.iter().map(|s| show_tips(s)).collect::<Vec<_>>().join("/"))
}

fn main() {
    let mut ctx = Ctx::from_args("C05");
    let mut w = World::new();
    // corpus / replay lines may lack (or carry an outdated) `ord=` token: it is recomputed and recorded
    let (inputs, is_replay) = ctx.fixed_inputs();
    for i in inputs {
        let (canon, o) = run_case(&mut w, &i);
        ctx.count("corpus-or-replay");
        ctx.record(&canon, o);
    }
    if !is_replay {
        let mut rng = ctx.rng();
        for _ in 0..ctx.size(90, 900) {
            if w.used % 40 == 39 {
                w = World::new();
            }
            let input = gen_case(&mut rng, ctx.size(8, 12));
            let (canon, o) = run_case(&mut w, &input);
            ctx.record(&canon, o);
        }
    }
    ctx.finish(
        "random issue histories (2-8, thorough 2-12 changes; concurrent branches, merges, timestamps from a 4-value domain so that \
         sibling ties are frequent, changes the issue type rejects, parents that are not changes) stored as real change commits; \
         loaded through every permutation of the DAG heads (<=4 heads, else 8 random ones), through supersets with interior \
         commits / duplicates / a non-change commit, and through random subsets; first tip set also through real namespace refs \
         and radicle_cob::get; non-trivial = >=3 changes and >=2 tip sets; distinct by input text",
        false,
    );
}
