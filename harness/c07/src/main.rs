//! C07 harness (stub: not implemented yet).
fn main() {
    eprintln!("C07: harness not implemented");
    std::process::exit(3);
}
