//! C30 harness (stub: not implemented yet).
fn main() {
    eprintln!("C30: harness not implemented");
    std::process::exit(3);
}
