/-! Driver entry for property C22 (stub: not implemented yet). -/
namespace HeartwoodModel.Driver.C22

def run (_args : List String) : String := "unimplemented"

end HeartwoodModel.Driver.C22
