import HeartwoodModel.Driver.Loop
import HeartwoodModel.Driver.C24
def main : IO Unit := HeartwoodModel.Driver.driverMain "C24" HeartwoodModel.Driver.C24.run
