//! probe
use radicle::identity::doc::{Doc, RawDoc, Visibility};
fn main() {
    let did = "did:key:z6MksFqXN3Yhqk8pTJdUGLwATkRfQvwZXPqR2qMEhbS9wzpT";
    let did2 = "did:key:z6MktaNvN1KVFMkSRAiN4qK5yvX1zuEEaseeX5sffhzPZRZW";
    let p = r#"{"xyz.radicle.project":{"name":"a","description":"","defaultBranch":"m"}}"#;
    let tests: Vec<String> = vec![
        format!(r#"{{"payload":{p},"delegates":["{did}"],"threshold":1}}"#),
        format!(r#"[1,{p},["{did}"],1]"#),
        format!(r#"[1,{p},["{did}"],1,{{"type":"public"}}]"#),
        format!(r#"[1,{p},["{did}"]]"#),
        format!(r#"[{p},["{did}"],1]"#),
        format!(r#"{{"payload":{p},"delegates":["{did}"],"threshold":1,"threshold":1}}"#),
        format!(r#"{{"payload":{p},"delegates":["{did}"],"threshold":1,"foo":1,"foo":2}}"#),
        format!(r#"{{"payload":{p},"delegates":["{did}"],"threshold":1.0}}"#),
        format!(r#"{{"payload":{p},"delegates":["{did}"],"threshold":1,"version":0}}"#),
        format!(r#"{{"payload":{p},"delegates":["{did}"],"threshold":1,"version":2}}"#),
        format!(r#"{{"payload":{p},"delegates":["{did}"],"threshold":1,"version":1}}"#),
        format!(r#"{{"payload":{p},"delegates":["{did}"],"threshold":1,"version":null}}"#),
        format!(r#"{{"payload":{p},"delegates":["{did}"],"threshold":1,"visibility":null}}"#),
        format!(r#"{{"payload":{p},"delegates":["{did}"],"threshold":1,"visibility":"public"}}"#),
        format!(r#"{{"payload":{p},"delegates":["{did}"],"threshold":1,"visibility":{{"type":"public","allow":["{did}"]}}}}"#),
        format!(r#"{{"payload":{p},"delegates":["{did}"],"threshold":1,"visibility":{{"type":"public","x":1}}}}"#),
        format!(r#"{{"payload":{p},"delegates":["{did}"],"threshold":1,"visibility":{{"type":"private","x":1}}}}"#),
        format!(r#"{{"payload":{p},"delegates":["{did}"],"threshold":1,"visibility":{{"type":"private","allow":["{did}","{did}","{did2}"]}}}}"#),
        format!(r#"{{"payload":{p},"delegates":["{did}"],"threshold":1,"visibility":{{"type":"private","allow":[],"allow":[]}}}}"#),
        format!(r#"{{"payload":{p},"delegates":["{did}"],"threshold":1,"visibility":{{"type":"private","type":"public"}}}}"#),
        format!(r#"{{"payload":{p},"delegates":["{did}"],"threshold":1,"visibility":{{"allow":[]}}}}"#),
        format!(r#"{{"payload":{p},"delegates":["{did}"],"threshold":1,"visibility":{{"allow":[],"type":"private"}}}}"#),
        format!(r#"{{"payload":{p},"delegates":["{did}"],"threshold":1,"visibility":["private"]}}"#),
        format!(r#"{{"payload":{p},"delegates":["{did}"],"threshold":1,"visibility":["private",["{did}"]]}}"#),
        format!(r#"{{"payload":{p},"delegates":["{did}"],"threshold":1,"visibility":["public"]}}"#),
        format!(r#"{{"payload":{p},"delegates":["{did}"],"threshold":1,"visibility":{{"type":"Private"}}}}"#),
        format!(r#"{{"payload":{{}},"delegates":["{did}"],"threshold":1}}"#),
        format!(r#"{{"payload":[],"delegates":["{did}"],"threshold":1}}"#),
        format!(r#"{{"payload":{{"a":1,"a":2}},"delegates":["{did}"],"threshold":1}}"#),
        format!(r#"{{"payload":{{"a.b":1,"a.b":2.5}},"delegates":["{did}"],"threshold":1}}"#),
        format!(r#"{{"payload":{{"A.b-c.d":1}},"delegates":["{did}"],"threshold":1}}"#),
        format!(r#"{{"payload":{{"a.b":{{"name":"é"}}}},"delegates":["{did}"],"threshold":1}}"#),
        format!(r#"{{"payload":{{"a.b":{{"é":1,"é":2}}}},"delegates":["{did}"],"threshold":1}}"#),
        format!(r#"{{"payload":{p},"delegates":"{did}","threshold":1}}"#),
        format!(r#"{{"payload":{p},"delegates":[],"threshold":0}}"#),
        format!(r#"{{"payload":{p},"delegates":["{did}"],"threshold":18446744073709551615}}"#),
        format!(r#"{{"payload":{p},"delegates":["{did}"],"threshold":18446744073709551616}}"#),
        format!(r#"{{"payload":{p},"delegates":["{did}"],"threshold":-1}}"#),
        format!(r#"{{"payload":{p},"delegates":["{did}"],"threshold":1,"version":4294967296}}"#),
        format!(r#" {{"payload":{p},"delegates":["{did}"],"threshold":1}} x"#),
    ];
    for t in tests {
        let a = serde_json::from_str::<Doc>(&t);
        let b = RawDoc::from_json(t.as_bytes()).and_then(|r| r.verified());
        println!("{t}\n   Doc: {:?}\n   Raw: {:?}", a.as_ref().map(|_| "ok").map_err(|e| e.to_string()), b.as_ref().map(|_| "ok").map_err(|e| e.to_string()));
        if let Ok(d) = b {
            match d.encode() {
                Ok((oid, bytes)) => {
                    println!("   enc: {oid} {}", String::from_utf8_lossy(&bytes));
                    let d2 = RawDoc::from_json(&bytes).and_then(|r| r.verified());
                    println!("   rt-equal: {:?}", d2.map(|d2| d2 == d).map_err(|e| e.to_string()));
                }
                Err(e) => println!("   enc-err: {e}"),
            }
        }
    }
    let _ = Visibility::Public;
}
