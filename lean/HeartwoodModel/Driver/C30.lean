import HeartwoodModel.Model.Diff
import HeartwoodModel.Driver.Util
/-! Driver entry for C30. Cases (bytes in hex, `-` = empty):

* `hdr <text>`  — `HunkHeader::decode` → `ok:<oldNo>,<oldSize>,<newNo>,<newSize>,<text>,<re-encoded>` | `err`
* `mod <text>`  — `Modification::decode` → `ok:<a|d|c><line>,<re-encoded>` | `err`
* `hunk <text>` — `Hunk::decode` → `ok:<hunk>,<re-encoded>` | `err` | `panic`
* `rt <header> <o1>-<o2> <n1>-<n2> <lines>` — a hunk value, `Hunk::encode`, then `Hunk::decode` of that
  text → `<encoded> ok:<hunk>` | `<encoded> err` | `<encoded> panic`
  (`<lines>` = `-` or `a<no>:<hex>` | `d<no>:<hex>` | `c<old>.<new>:<hex>` joined by `,`)
* `diff <tree> <tree>` — whole-diff round trip through libgit2: not modelled: `checked`
  (the verdict on these cases is the oracle's).

`<hunk>` = `<header>|<lines>|<o1>-<o2>|<n1>-<n2>`.
-/
namespace HeartwoodModel.Driver.C30
open HeartwoodModel.Diff HeartwoodModel.Driver.Util

def toBytes (l : List Nat) : ByteArray := ⟨(l.map UInt8.ofNat).toArray⟩

/-- Valid UTF-8 → text. -/
def text? (l : List Nat) : Option Text := (String.fromUTF8? (toBytes l)).map String.toList

def hexText (t : Text) : String := toHex ((String.ofList t).toUTF8.toList.map UInt8.toNat)

/-- The byte lines `read_line` sees (each including its `\n`, except possibly the last). -/
def byteLines : List Nat → List Nat → List (List Nat)
  | [], [] => []
  | [], acc => [acc.reverse]
  | b :: bs, acc => if b = 10 then (b :: acc).reverse :: byteLines bs [] else byteLines bs (b :: acc)

/-- A reader over bytes: a line that is not UTF-8 makes `read_line` fail. -/
def readerOfBytes (l : List Nat) : Reader := (byteLines l []).map text?

def showMod : Mod → String
  | .addition l n => s!"a{n}:{hexText l}"
  | .deletion l n => s!"d{n}:{hexText l}"
  | .context l o n => s!"c{o}.{n}:{hexText l}"

def showLines (ms : List Mod) : String :=
  if ms.isEmpty then "-" else joinWith "," (ms.map showMod)

def showHunk (h : Hunk) : String :=
  s!"{hexText h.header}|{showLines h.lines}|{h.old.1}-{h.old.2}|{h.new.1}-{h.new.2}"

def mod? (t : String) : Option Mod :=
  match splitOn t ':' with
  | [head, body] =>
    match head.toList with
    | 'a' :: n => do
      let n ← nat? (String.ofList n); let l ← (hexBytes? body).bind text?; some (.addition l n)
    | 'd' :: n => do
      let n ← nat? (String.ofList n); let l ← (hexBytes? body).bind text?; some (.deletion l n)
    | 'c' :: ns =>
      match splitOn (String.ofList ns) '.' with
      | [o, n] => do
        let o ← nat? o; let n ← nat? n; let l ← (hexBytes? body).bind text?; some (.context l o n)
      | _ => none
    | _ => none
  | _ => none

def lines? (t : String) : Option (List Mod) :=
  if t == "-" then some [] else (splitOn t ',').mapM mod?

def range? (t : String) : Option (Nat × Nat) :=
  match splitOn t '-' with
  | [a, b] => do let a ← nat? a; let b ← nat? b; some (a, b)
  | _ => none

def u32? (n : Nat) : Bool := n < 4294967296

def modU32 : Mod → Bool
  | .addition _ n => u32? n
  | .deletion _ n => u32? n
  | .context _ o n => u32? o && u32? n

/-- Superficial syntax check of a tree token (`-` or `<path>:<f|x>:<hex>` joined by `,`). -/
def tree? (t : String) : Bool :=
  t == "-" || (splitOn t ',').all fun e =>
    match splitOn e ':' with
    | [name, mode, content] => !name.isEmpty && (mode == "f" || mode == "x") && (hexBytes? content).isSome
    | _ => false

def showDecoded : Res (Hunk × Reader) → String
  | .ok (h, _) => "ok:" ++ showHunk h
  | .err _ => "err"
  | .panic _ => "panic"

def run (args : List String) : String :=
  match args with
  | ["hdr", t] =>
    match hexBytes? t with
    | none => "bad-op"
    | some b =>
      match decodeHeader (readerOfBytes b) with
      | .ok (h, _) =>
        s!"ok:{h.oldNo},{h.oldSize},{h.newNo},{h.newSize},{hexText h.text},{hexText h.encode}"
      | .err _ => "err"
      | .panic _ => "panic"
  | ["mod", t] =>
    match hexBytes? t with
    | none => "bad-op"
    | some b =>
      match decodeMod (readerOfBytes b) with
      | .ok (m, _) =>
        let k := match m with
          | .addition _ _ => "a"
          | .deletion _ _ => "d"
          | .context _ _ _ => "c"
        s!"ok:{k}{hexText m.line},{hexText m.encode}"
      | .err _ => "err"
      | .panic _ => "panic"
  | ["hunk", t] =>
    match hexBytes? t with
    | none => "bad-op"
    | some b =>
      match decodeHunk (readerOfBytes b) with
      | .ok (h, _) => s!"ok:{showHunk h},{hexText h.encode}"
      | .err _ => "err"
      | .panic _ => "panic"
  | ["rt", header, old, new, lines] =>
    match (hexBytes? header).bind text?, range? old, range? new, lines? lines with
    | some header, some old, some new, some lines =>
      if u32? old.1 && u32? old.2 && u32? new.1 && u32? new.2 && lines.all modU32 then
        let text := Hunk.encode ⟨header, lines, old, new⟩
        s!"{hexText text} {showDecoded (decodeHunk (Reader.ofText text))}"
      else "bad-op"
    | _, _, _, _ => "bad-op"
  | ["diff", old, new] => if tree? old && tree? new then "checked" else "bad-op"
  | _ => "bad-op"

end HeartwoodModel.Driver.C30
