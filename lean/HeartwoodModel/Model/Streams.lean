/-!
# Model of the stream bookkeeping of the wire protocol (`radicle-node/src/wire/protocol.rs`) — C13d

One connected peer: `Peer::Connected { link, streams: Streams { streams, link, seq }, .. }`.
Stream ids (`wire/frame.rs`): bit 0 = initiator (`0` = the side for which the connection is outbound),
bits 1–2 = kind (`0` control, `1` gossip, `2` git), the rest a sequence number;
`StreamId::git(link).nth(n) = 4 + bit(link) + 8·n`.

Events that touch the table:
* control frames received from the peer: `Open { stream }` → `Streams::register` (+ a responder task for a
  worker), `Close { stream }` → `unregister`, `Eof { stream }` and git data frames → lookup only;
* `Io::Fetch` from our own service → `Streams::open`: `seq += 1`, `id = git(link).nth(seq)`
  (`.expect("too many streams")`), `register(id)` (`.expect("stream was already open")`);
* a worker result for a stream → `unregister` (+ a `Close` frame if it was still registered).

`Code.openChecksInitiator`: commit 614904d: an `Open` whose id carries OUR initiator bit, or is not a git
stream, is ignored.

Import-free.
-/
namespace HeartwoodModel.Streams

inductive Link where
  | outbound
  | inbound
  deriving Repr, DecidableEq

def Link.bit : Link → Nat
  | .outbound => 0
  | .inbound => 1

/-- `StreamId::git(link).nth(n)` -/
def gitId (l : Link) (n : Nat) : Nat := 4 + l.bit + 8 * n

/-- `(id >> 1) & 0b11` -/
def idKind (id : Nat) : Nat := id / 2 % 4

/-- `VarInt::new`: ids are below `2^62`. -/
def ID_BOUND : Nat := 2 ^ 62

structure Code where
  openChecksInitiator : Bool
  deriving Repr, DecidableEq

/-- `/repo` main (incl. 614904d) -/
def Code.current : Code := { openChecksInitiator := true }
/-- The tree before commit 614904d: any peer-chosen stream id was registered. -/
def Code.before614904d : Code := { openChecksInitiator := false }

inductive Site where
  /-- `Streams::open`: `.expect("Streams::open: stream was already open")` -/
  | streamAlreadyOpen
  /-- `Streams::open`: `.expect("Streams::open: too many streams")` -/
  | tooManyStreams
  deriving Repr, DecidableEq

structure State where
  link : Link
  /-- `Streams::seq` -/
  seq : Nat
  /-- keys of `Streams::streams` -/
  streams : List Nat
  deriving Repr, DecidableEq

def init (l : Link) : State := { link := l, seq := 0, streams := [] }

inductive Op where
  | recvOpen (id : Nat)
  | recvClose (id : Nat)
  | recvEof (id : Nat)
  | recvGit (id : Nat)
  /-- `Io::Fetch` for this peer -/
  | fetch
  | workerResult (id : Nat)
  deriving Repr, DecidableEq

/-- What the wire does that the harness can see. -/
inductive Ev where
  /-- a task was sent to the worker pool for this stream -/
  | task (responder : Bool) (id : Nat)
  | sendOpen (id : Nat)
  | sendClose (id : Nat)
  deriving Repr, DecidableEq

def step (c : Code) (σ : State) : Op → Except Site (State × List Ev)
  | .recvOpen id =>
    if c.openChecksInitiator && (decide (id % 2 = σ.link.bit) || decide (idKind id ≠ 2)) then .ok (σ, [])
    else if id ∈ σ.streams then .ok (σ, [])          -- "already-open stream"
    else .ok ({ σ with streams := id :: σ.streams }, [.task true id])
  | .recvClose id => .ok ({ σ with streams := σ.streams.filter (· ≠ id) }, [])
  | .recvEof _ => .ok (σ, [])
  | .recvGit _ => .ok (σ, [])
  | .fetch =>
    let seq := σ.seq + 1
    let id := gitId σ.link seq
    if ID_BOUND ≤ id then .error .tooManyStreams
    else if id ∈ σ.streams then .error .streamAlreadyOpen
    else .ok ({ σ with seq := seq, streams := id :: σ.streams }, [.task false id, .sendOpen id])
  | .workerResult id =>
    if id ∈ σ.streams then .ok ({ σ with streams := σ.streams.filter (· ≠ id) }, [.sendClose id])
    else .ok (σ, [])

/-- A history; stops at the first panic. -/
def run (c : Code) (σ : State) : List Op → List (Except Site (List Ev))
  | [] => []
  | op :: ops =>
    match step c σ op with
    | .error s => [.error s]
    | .ok (σ', evs) => .ok evs :: run c σ' ops

end HeartwoodModel.Streams
