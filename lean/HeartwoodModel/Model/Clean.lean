/-!
# Model of storage cleanup (C28)

`Storage::clean` and `Repository::clean` in `crates/radicle/src/storage/git.rs`.

A repository is the list of its namespaces `refs/namespaces/<name>/…` (pairwise distinct names). Of a
namespace we keep: a number naming it, whether the name parses as a node id (`valid`; a stray directory
such as `<id>junk` does not), and the state of its `refs/rad/sigrefs` reference. Every namespace has at
least one other reference. Peers are naturals.
-/
namespace HeartwoodModel.Clean

/-- State of `refs/namespaces/<name>/refs/rad/sigrefs`. `corrupt`: the reference exists but
`SignedRefsAt::load` fails on it (only matters for the local node, the only one that is loaded). -/
inductive Sig where
  | missing
  | valid
  | corrupt
  deriving Repr, DecidableEq

structure Ns where
  id : Nat
  valid : Bool
  sig : Sig
  deriving Repr, DecidableEq

inductive Out where
  /-- an `Err` is returned; nothing was removed -/
  | err
  /-- `Repository::remove`: the whole repository directory is deleted; the listed remotes are returned -/
  | removedRepo (remotes : List Nat)
  /-- `Repository::clean`: the listed remotes' namespaces were deleted -/
  | cleaned (deleted : List Nat)
  deriving Repr, DecidableEq

/-- What loading a `rad/sigrefs` in the given state answers: `none` = error, `some b` = `Ok(b.is_some())`. -/
def Sig.load : Sig → Option Bool
  | .missing => some false
  | .valid => some true
  | .corrupt => none

/-- `SignedRefsAt::load(local, repo)`: `none` = error, `some b` = `Ok(b.is_some())`. -/
def localSigrefs (me : Nat) : List Ns → Option Bool
  | [] => some false
  | ns :: rest =>
    if ns.valid && ns.id == me then ns.sig.load
    else localSigrefs me rest

/-- The loop of `Repository::clean` over `remote_ids()` (namespaces that have a `rad/sigrefs`
reference): unparsable names are skipped, the local node and delegates are skipped, everything else is
deleted. Returns the deleted ids. -/
def toDelete (me : Nat) (delegates : List Nat) : List Ns → List Nat
  | [] => []
  | ns :: rest =>
    if ns.sig == .missing then toDelete me delegates rest
    else if !ns.valid then toDelete me delegates rest
    else if ns.id == me || delegates.contains ns.id then toDelete me delegates rest
    else ns.id :: toDelete me delegates rest

/-- `remote_ids().collect::<Result<_, _>>()`: fails on an unparsable name. -/
def remoteIds : List Ns → Option (List Nat)
  | [] => some []
  | ns :: rest =>
    if ns.sig == .missing then remoteIds rest
    else if !ns.valid then none
    else (remoteIds rest).map (ns.id :: ·)

/-- `Storage::clean`. `delegates = none`: the identity document cannot be loaded (`delegates()?`).
Returns the outcome and the namespaces that remain (`[]` after the repository is removed). -/
def clean (me : Nat) (delegates : Option (List Nat)) (nss : List Ns) : Out × List Ns :=
  match localSigrefs me nss with
  | none => (.err, nss)
  | some true =>
    match delegates with
    | none => (.err, nss)
    | some ds =>
      let del := toDelete me ds nss
      (.cleaned del, nss.filter (fun ns => !(ns.valid && del.contains ns.id)))
  | some false =>
    match remoteIds nss with
    | none => (.err, nss)
    | some ids => (.removedRepo ids, [])

end HeartwoodModel.Clean
