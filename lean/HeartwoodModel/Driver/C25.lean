/-! Driver entry for property C25 (stub: not implemented yet). -/
namespace HeartwoodModel.Driver.C25

def run (_args : List String) : String := "unimplemented"

end HeartwoodModel.Driver.C25
