//! C20 harness (stub: not implemented yet).
fn main() {
    eprintln!("C20: harness not implemented");
    std::process::exit(3);
}
