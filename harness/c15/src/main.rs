//! C15 — wire messages round-trip and have a unique encoding.
//!
//! Runs the REAL `wire::deserialize::<Message>` / `wire::serialize` (`radicle-node/src/wire.rs`,
//! `wire/message.rs`, `service/message.rs`) on byte strings.
//!
//! Case input (the same tokens the Lean driver reads): `<bytes hex> <onion set> <flag>`
//!   * `onion set` — raw Tor addresses of the input accepted by the real `OnionAddrV3::from_raw_bytes`
//!     (graph of the opaque function; recomputed and checked here);
//!   * `flag` — `g`: the bytes were produced by `wire::serialize` from a message built with the repo's types
//!     (oracle: must decode, and re-encode to the same bytes); `-` otherwise.
//! A second case form, `F <stream hex> <cuts> <onion set>`, runs the production path (see `run_stream_case`).
//! Output: `ok <re-encoding> lossy=<-|p|a>` / `incomplete` (EOF error) / `invalid` / `panic:<msg>`.
//!   `p`: decoded a ping/pong whose padding has a non-zero byte; `a`: decoded a node announcement whose
//!   re-encoding differs from the input (user agent absent, defaulted); re-encoding `!` when
//!   `wire::serialize` panics on the decoded message.

mod wiregen;

use radicle_node::deserializer::Deserializer;
use radicle_node::service::message::{Announcement, AnnouncementMessage, Message};
use radicle_node::wire;
use radicle_node::wire::verif::{Control, Frame, FrameData};
use radicle_node::Link;
use verif_common::*;

// ---------------------------------------------------------------------------------------------------
// the production path: gossip frames through the stream deserializer

fn show_frame(f: &Frame<Message>) -> String {
    let sid = u64::from(f.stream);
    match &f.data {
        FrameData::Control(Control::Open { stream }) => format!("c{sid}:o{}", u64::from(*stream)),
        FrameData::Control(Control::Close { stream }) => format!("c{sid}:x{}", u64::from(*stream)),
        FrameData::Control(Control::Eof { stream }) => format!("c{sid}:e{}", u64::from(*stream)),
        FrameData::Git(data) => format!("t{sid}:{}", wiregen::short(data)),
        FrameData::Gossip(msg) => match catch(|| wire::serialize(msg)) {
            Ok(b) => format!("g{sid}:{}", wiregen::short(&b)),
            Err(_) => format!("g{sid}:!"),
        },
    }
}

/// `F <stream hex> <cuts> <onion set>`: a stream of gossip frames produced by the real encoder from messages
/// built with the repo's types, delivered to the real `Deserializer<MAX_INBOX_SIZE, Frame<Message>>` in the
/// chunks given by `cuts`, draining after each chunk (as `wire/protocol.rs` does on every transport read).
/// Output: `<groups> end=<more|err|full|panic:..> left=<n>` (as the C14 harness prints it).
fn run_stream_case(input: &str) -> Option<Outcome> {
    let t: Vec<&str> = input.split(' ').collect();
    if t.len() != 4 || t[0] != "F" {
        return None;
    }
    let bad = || Some(Outcome::new("bad-case").trivial());
    let Some(stream) = unhex(t[1]) else { return bad() };
    let cuts: Vec<usize> = if t[2] == "-" {
        vec![]
    } else {
        match t[2].split(',').map(|x| x.parse().ok()).collect::<Option<Vec<usize>>>() {
            Some(c) => c,
            None => return bad(),
        }
    };
    let mut pos = 0;
    for c in &cuts {
        if *c < pos || *c > stream.len() {
            return bad();
        }
        pos = *c;
    }
    if wiregen::onion_token(&stream) != t[3] {
        return bad();
    }
    let mut chunks: Vec<&[u8]> = vec![];
    let mut pos = 0;
    for c in &cuts {
        chunks.push(&stream[pos..*c]);
        pos = *c;
    }
    chunks.push(&stream[pos..]);

    let mut de = Deserializer::<2097152, Frame<Message>>::new(1024);
    let mut groups: Vec<Vec<Frame<Message>>> = vec![];
    let mut end = "more".to_string();
    'outer: for c in &chunks {
        if de.input(c).is_err() {
            end = "full".into();
            break;
        }
        let mut group = vec![];
        loop {
            match catch(|| de.deserialize_next()) {
                Ok(Ok(Some(f))) => group.push(f),
                Ok(Ok(None)) => break,
                Ok(Err(_)) => {
                    end = "err".into();
                    groups.push(group);
                    break 'outer;
                }
                Err(msg) => {
                    end = format!("panic:{}", msg.replace(' ', "_"));
                    groups.push(group);
                    break 'outer;
                }
            }
        }
        groups.push(group);
    }
    let left = de.len();
    let gs: Vec<String> = groups
        .iter()
        .map(|g| if g.is_empty() { "-".to_string() } else { g.iter().map(show_frame).collect::<Vec<_>>().join(";") })
        .collect();
    let mut o = Outcome::new(format!("{} end={end} left={left}", if gs.is_empty() { "-".to_string() } else { gs.join("|") }));
    // oracle: every message arrives as sent — the frames decoded re-encode to exactly the stream
    let mut re = vec![];
    for f in groups.iter().flatten() {
        match catch(|| f.to_bytes()) {
            Ok(b) => re.extend_from_slice(&b),
            Err(_) => re.push(0xff),
        }
    }
    let n: usize = groups.iter().map(|g| g.len()).sum();
    if end != "more" || left != 0 || re != stream {
        let first_diff = re.iter().zip(stream.iter()).position(|(a, b)| a != b).unwrap_or(re.len().min(stream.len()));
        o = o.violation(
            "stream-roundtrip-differs",
            format!(
                "gossip frames fed in {} chunk(s) (cuts {}): {n} frame(s) end={end} left={left}; re-encoding of what was \
                 delivered differs from what was sent from byte {first_diff}",
                chunks.len(), t[2]
            ),
        );
    }
    for f in groups.iter().flatten() {
        if let FrameData::Gossip(m) = &f.data {
            o = o.tag(format!("stream-{}", wiregen::kind_name(m)));
        }
    }
    o = o.tag(match chunks.len() { 1 => "stream-chunks-1", 2 => "stream-chunks-2", _ => "stream-chunks-3+" });
    o.tags.sort();
    o.tags.dedup();
    o.nontrivial = n > 0;
    Some(o)
}

fn parse(input: &str) -> Option<(Vec<u8>, String, bool)> {
    let t: Vec<&str> = input.split(' ').collect();
    if t.len() != 3 {
        return None;
    }
    let bytes = unhex(t[0])?;
    let flag = match t[2] {
        "g" => true,
        "-" => false,
        _ => return None,
    };
    Some((bytes, t[1].to_string(), flag))
}

fn is_node_ann(m: &Message) -> bool {
    matches!(m, Message::Announcement(Announcement { message: AnnouncementMessage::Node(_), .. }))
}

/// `S <kind> <seed> <big>`: a message rebuilt from the PRNG seed on which `wire::serialize` panicked when the
/// case was generated (only emitted in that situation; the encode half of the property failed).
fn run_encode_case(input: &str) -> Option<Outcome> {
    let t: Vec<&str> = input.split(' ').collect();
    if t.len() != 4 || t[0] != "S" {
        return None;
    }
    let (kind, seed, big): (u64, u64, u64) = (t[1].parse().ok()?, t[2].parse().ok()?, t[3].parse().ok()?);
    let m = wiregen::message_of_kind(&mut Rng::new(seed), kind, big == 1);
    Some(match catch(|| wire::serialize(&m)) {
        Ok(b) => Outcome::new(format!("encodes {}", b.len())).trivial(),
        Err(msg) => Outcome::new("encode-panic").tag("encode-panic").violation(
            "encode-panic",
            format!("wire::serialize panics on a {} built with the repo's types within its limits: {msg}", wiregen::kind_name(&m)),
        ),
    })
}

/// Build a message from the repo's types and serialize it; if that panics, the case is the `S` form.
fn valid_case(rng: &mut Rng, kind: u64, big: bool) -> String {
    let seed = rng.next();
    let m = wiregen::message_of_kind(&mut Rng::new(seed), kind, big);
    match catch(|| wire::serialize(&m)) {
        Ok(b) => case_text(&b, true),
        Err(_) => format!("S {kind} {seed} {}", big as u8),
    }
}

fn run_case(input: &str) -> Outcome {
    if let Some(o) = run_encode_case(input) {
        return o;
    }
    if let Some(o) = run_stream_case(input) {
        return o;
    }
    let Some((bytes, onions, generated)) = parse(input) else { return Outcome::new("bad-case").trivial() };
    if wiregen::onion_token(&bytes) != onions {
        return Outcome::new("bad-case").trivial();
    }
    let res = catch(|| wire::deserialize::<Message>(&bytes));
    let mut o;
    match res {
        Err(msg) => {
            o = Outcome::new(format!("panic:{}", msg.replace(' ', "_"))).tag("decode-panic");
            o = o.violation("decode-panic", format!("wire::deserialize panicked: {msg}"));
        }
        Ok(Err(e)) => {
            let eof = e.is_eof();
            o = Outcome::new(if eof { "incomplete" } else { "invalid" });
            o = o.tag(if eof { "err-incomplete" } else { "err-invalid" });
            if !eof {
                // error kind, for the distribution only
                let kind = format!("{e:?}");
                let kind = kind.split(|c: char| !c.is_alphanumeric()).next().unwrap_or("").to_string();
                o = o.tag(format!("err-{kind}"));
            }
            if generated {
                o = o.violation("roundtrip-failed", format!("bytes produced by wire::serialize do not decode: {e}"));
            }
            o.nontrivial = false;
        }
        Ok(Ok(m)) => {
            let kind = wiregen::kind_name(&m);
            let re = catch(|| wire::serialize(&m));
            // padding bytes of a ping/pong, read off the input
            let pad_nonzero = match &m {
                Message::Ping(_) => bytes[6..].iter().any(|b| *b != 0),
                Message::Pong { .. } => bytes[4..].iter().any(|b| *b != 0),
                _ => false,
            };
            let differs = re.as_ref().map(|r| r != &bytes).unwrap_or(false);
            let lossy = if pad_nonzero { "p" } else if is_node_ann(&m) && differs { "a" } else { "-" };
            let re_s = match &re {
                Ok(r) => wiregen::short(r),
                Err(_) => "!".to_string(),
            };
            o = Outcome::new(format!("ok {re_s} lossy={lossy}")).tag(format!("ok-{kind}"));

            // ---- oracle: the property statement on what the real code did ----
            match &re {
                Err(msg) => {
                    o = o.tag("reencode-panics");
                    o = o.violation(
                        "decoded-message-not-encodable",
                        format!("{} bytes decode to a {kind} on which wire::serialize panics: {msg}", bytes.len()),
                    );
                }
                Ok(r) => {
                    if r.len() > u16::MAX as usize {
                        o = o.violation("encode-size", format!("re-encoding has {} bytes", r.len()));
                    }
                    // decode_encode on the constructed value
                    match catch(|| wire::deserialize::<Message>(r)) {
                        Ok(Ok(m2)) if m2 == m => {}
                        other => {
                            o = o.violation(
                                "roundtrip-failed",
                                format!("deserialize(serialize(m)) != m for a decoded {kind}: {:?}", other.map(|x| x.is_ok())),
                            );
                        }
                    }
                    if r != &bytes {
                        if generated {
                            o = o.violation("roundtrip-failed", "serialize(deserialize(serialize(m))) differs".to_string());
                        }
                        if pad_nonzero {
                            o = o.tag("noncanonical-padding");
                            o = o.violation(
                                "pingpong-nonzero-padding",
                                format!("{kind} with a non-zero padding byte decodes and re-encodes with zeroes"),
                            );
                        } else if is_node_ann(&m) && r.len() >= 10 && bytes.len() == r.len() - 10 && r[..bytes.len()] == bytes[..] {
                            // the documented exception: no user agent at all, `/radicle/` is appended
                            o = o.tag("node-ann-without-agent");
                        } else if is_node_ann(&m) && r.len() >= 10 && bytes.len() > r.len() - 10
                            && r[..r.len() - 10] == bytes[..r.len() - 10]
                        {
                            o = o.tag("noncanonical-truncated-agent");
                            o = o.violation(
                                "node-ann-truncated-agent",
                                format!(
                                    "node announcement followed by {} stray byte(s) (a user agent cut short) decodes; re-encoding replaces them by the default agent",
                                    bytes.len() - (r.len() - 10)
                                ),
                            );
                        } else {
                            o = o.violation(
                                "noncanonical-other",
                                format!("{kind}: decodes but re-encodes differently ({} vs {} bytes)", bytes.len(), r.len()),
                            );
                        }
                    }
                }
            }
        }
    }
    if generated {
        o = o.tag("flag-generated");
    }
    o
}

// ---------------------------------------------------------------------------------------------------
// generation

fn case_text(bytes: &[u8], generated: bool) -> String {
    format!("{} {} {}", hex(bytes), wiregen::onion_token(bytes), if generated { "g" } else { "-" })
}

/// Offset of the alias length byte in a node announcement.
const ALIAS_OFF: usize = 2 + 32 + 64 + 1 + 8 + 8;

/// UTF-8 / alias / user-agent boundary strings (as bytes; some are not UTF-8).
fn tricky_strings(rng: &mut Rng) -> Vec<u8> {
    let fixed: &[&[u8]] = &[
        b"", b"a", b" ", b"a b", b"a\tb", b"a\nb", b"\x7f", b"\x1f", b"\x00", b"~", b"!",
        "\u{80}".as_bytes(), "\u{85}".as_bytes(), "\u{9f}".as_bytes(), "\u{a0}".as_bytes(), "\u{a1}".as_bytes(),
        "\u{1680}".as_bytes(), "\u{1681}".as_bytes(), "\u{1fff}".as_bytes(), "\u{2000}".as_bytes(),
        "\u{200a}".as_bytes(), "\u{200b}".as_bytes(), "\u{2028}".as_bytes(), "\u{2029}".as_bytes(),
        "\u{202a}".as_bytes(), "\u{202f}".as_bytes(), "\u{205f}".as_bytes(), "\u{2060}".as_bytes(),
        "\u{3000}".as_bytes(), "\u{3001}".as_bytes(), "\u{feff}".as_bytes(), "\u{7ff}".as_bytes(),
        "\u{800}".as_bytes(), "\u{d7ff}".as_bytes(), "\u{e000}".as_bytes(), "\u{ffff}".as_bytes(),
        "\u{10000}".as_bytes(), "\u{10ffff}".as_bytes(),
        b"\xc0\x80", b"\xc1\xbf", b"\xc2", b"\xc2\x7f", b"\xc2\xc0", b"\xe0\x80\x80", b"\xe0\x9f\xbf",
        b"\xe0\xa0\x80", b"\xed\x9f\xbf", b"\xed\xa0\x80", b"\xed\xbf\xbf", b"\xee\x80\x80", b"\xef\xbf",
        b"\xf0\x8f\xbf\xbf", b"\xf0\x90\x80\x80", b"\xf4\x8f\xbf\xbf", b"\xf4\x90\x80\x80", b"\xf5\x80\x80\x80",
        b"\xf8\x88\x80\x80\x80", b"\x80", b"\xbf", b"\xff", b"a\xe2\x82", b"\xe2\x82\xac",
        // user agents
        b"/radicle/", b"/", b"//", b"///", b"/:/", b"/a", b"a/", b"/a:/", b"/:b/", b"/a:b/", b"/a b:c/",
        b"/a:b c/", b"/a:b:c/", b"/a//b/", b"/a/b:/", "/é:1/".as_bytes(), "/a:é/".as_bytes(), "/é/".as_bytes(),
        b"/a\x7f:1/", b"/a~:1/", b"/a!:1/", b"/a :1/", b"/radicle:1.0.0/heartwood:0.9/rust:1.77/",
    ];
    match rng.below(10) {
        0 => vec![b'@'; 32],
        1 => vec![b'@'; 33],
        2 => format!("/{}/", "a".repeat(62)).into_bytes(),
        3 => format!("/{}/", "a".repeat(63)).into_bytes(),
        4 => {
            // 32 / 33 bytes made of 2-byte chars
            let n = rng.range(15, 17) as usize;
            "é".repeat(n).into_bytes()
        }
        5 => {
            // random scalar value near a boundary
            let c = *rng.pick(&[0x1fu32, 0x20, 0x21, 0x7e, 0x7f, 0x80, 0x84, 0x85, 0x86, 0x9f, 0xa0, 0xa1, 0x167f, 0x1680,
                0x1681, 0x1fff, 0x2000, 0x200a, 0x200b, 0x2027, 0x2028, 0x2029, 0x202a, 0x202e, 0x202f, 0x2030, 0x205e,
                0x205f, 0x2060, 0x2fff, 0x3000, 0x3001]);
            let mut s = String::from("x");
            s.push(char::from_u32(c).unwrap());
            s.push('y');
            s.into_bytes()
        }
        6 => {
            let n = rng.below(8) as usize;
            rng.bytes(n)
        }
        _ => rng.pick(fixed).to_vec(),
    }
}

/// A node announcement (as bytes) whose alias and user agent fields are replaced by arbitrary byte strings.
fn node_ann_with_strings(rng: &mut Rng, alias: Option<&[u8]>, agent: Option<&[u8]>) -> Vec<u8> {
    let m = wiregen::message_of_kind(rng, 1, false);
    let enc = wire::serialize(&m);
    let alen = enc[ALIAS_OFF] as usize;
    let mut out = enc[..ALIAS_OFF].to_vec();
    match alias {
        Some(a) => {
            out.push(a.len() as u8);
            out.extend_from_slice(a);
        }
        None => out.extend_from_slice(&enc[ALIAS_OFF..ALIAS_OFF + 1 + alen]),
    }
    let rest = &enc[ALIAS_OFF + 1 + alen..];
    // the user agent is the last string of the encoding: find it by decoding the real message again
    let Message::Announcement(Announcement { message: AnnouncementMessage::Node(n), .. }) = &m else { unreachable!() };
    let ua_len = n.agent.as_str().len();
    let rest_wo_agent = &rest[..rest.len() - 1 - ua_len];
    out.extend_from_slice(rest_wo_agent);
    match agent {
        Some(a) => {
            out.push(a.len() as u8);
            out.extend_from_slice(a);
        }
        None => out.extend_from_slice(&rest[rest.len() - 1 - ua_len..]),
    }
    out
}

fn gen_case(rng: &mut Rng) -> (String, &'static str) {
    let big = rng.chance(1, 60);
    match rng.below(200) / 5 {
        // messages built with the repo's types
        0..=11 => {
            let kind = rng.below(7);
            (valid_case(rng, kind, big), "gen-valid")
        }
        // alias / user agent / utf-8 boundaries inside a node announcement
        12..=16 => {
            let a = tricky_strings(rng);
            (case_text(&node_ann_with_strings(rng, Some(&a), None), false), "gen-alias")
        }
        17..=20 => {
            let a = tricky_strings(rng);
            (case_text(&node_ann_with_strings(rng, None, Some(&a)), false), "gen-agent")
        }
        // node announcement: user agent dropped / cut short / garbage after it
        21..=23 => {
            let m = wiregen::message_of_kind(rng, 1, false);
            let enc = wire::serialize(&m);
            let Message::Announcement(Announcement { message: AnnouncementMessage::Node(n), .. }) = &m else { unreachable!() };
            let ua = 1 + n.agent.as_str().len();
            let keep = match rng.below(4) {
                0 => 0,
                1 => 1,
                _ => rng.below(ua as u64 + 1) as usize,
            };
            let mut b = enc[..enc.len() - ua + keep].to_vec();
            if rng.chance(1, 6) {
                b.push(rng.next() as u8);
            }
            (case_text(&b, false), "gen-agent-cut")
        }
        // ping / pong with arbitrary padding
        24..=26 => {
            let kind = 5 + rng.below(2);
            let m = wiregen::message_of_kind(rng, kind, false);
            let mut b = wire::serialize(&m);
            let start = if kind == 5 { 6 } else { 4 };
            if b.len() > start {
                for _ in 0..rng.range(1, 3) {
                    let i = start + rng.below((b.len() - start) as u64) as usize;
                    b[i] = if rng.chance(1, 4) { 0 } else { rng.range(1, 255) as u8 };
                }
            }
            (case_text(&b, false), "gen-padding")
        }
        // field-level mutations of a valid encoding
        27..=34 => {
            let m = wiregen::message(rng, false);
            let mut b = wire::serialize(&m);
            let n = b.len();
            match rng.below(8) {
                0 => { let i = rng.below(n as u64) as usize; b[i] ^= 1 << rng.below(8); }
                1 => { let i = rng.below(n as u64) as usize; b[i] = rng.next() as u8; }
                2 => { let i = rng.below(n as u64 + 1) as usize; b.insert(i, rng.next() as u8); }
                3 => { let i = rng.below(n as u64) as usize; b.remove(i); }
                4 => { b.truncate(rng.below(n as u64) as usize); }
                5 => { b.push(rng.next() as u8); }
                6 => { b[0] = 0; b[1] = *rng.pick(&[0u8, 1, 2, 3, 4, 6, 8, 10, 12, 14, 16]); }
                _ => {
                    // a byte in the first 130 bytes (headers, counts, lengths) set to a boundary value
                    let i = rng.below(n.min(130) as u64) as usize;
                    b[i] = *rng.pick(&[0u8, 1, 2, 3, 4, 5, 16, 17, 20, 21, 0x7f, 0x80, 0xff]);
                }
            }
            (case_text(&b, false), "gen-mutated")
        }
        // vector counts beyond the limits (cannot be built with BoundedVec): patch the count, append items
        35..=36 => {
            let (kind, limit, off, item): (u64, usize, usize, usize) = match rng.below(16) {
                0 => (2, 2973, 2 + 32 + 64, 22),
                1 => (3, 1024, 2 + 32 + 64 + 22, 54),
                _ => (1, 16, 0, 0),
            };
            if kind == 1 {
                // 17 IPv4 addresses
                let m = wiregen::message_of_kind(rng, 1, false);
                let enc = wire::serialize(&m);
                let alen = enc[ALIAS_OFF] as usize;
                let cnt = ALIAS_OFF + 1 + alen;
                let n = *rng.pick(&[16u16, 17]);
                let mut b = enc[..cnt].to_vec();
                b.extend_from_slice(&n.to_be_bytes());
                for _ in 0..n {
                    b.push(1);
                    b.extend_from_slice(&wiregen::arr::<4>(rng));
                    b.extend_from_slice(&[0x22, 0x48]);
                }
                b.extend_from_slice(&rng.next().to_be_bytes());
                b.extend_from_slice(&[9]);
                b.extend_from_slice(b"/radicle/");
                return (case_text(&b, false), "gen-over-limit");
            }
            let n = *rng.pick(&[limit, limit + 1]);
            let m = wiregen::message_of_kind(rng, kind, false);
            let enc = wire::serialize(&m);
            let mut b = enc[..off].to_vec();
            b.extend_from_slice(&(n as u16).to_be_bytes());
            for _ in 0..n {
                if item == 54 {
                    b.extend_from_slice(&wiregen::arr::<32>(rng));
                }
                b.extend_from_slice(&[0, 20]);
                b.extend_from_slice(&wiregen::arr::<20>(rng));
            }
            b.extend_from_slice(&(rng.next() >> 1).to_be_bytes());
            (case_text(&b, false), "gen-over-limit")
        }
        // ping/pong counts around the encodable maximum (64 KiB inputs: rare)
        37 if rng.chance(1, 5) => {
            let pong = rng.bool();
            let n = *rng.pick(&[65529u16, 65530, 65531, 65532, 65535]);
            let mut b = if pong { vec![0, 12] } else { vec![0, 10, 0, 0] };
            b.extend_from_slice(&n.to_be_bytes());
            b.extend(std::iter::repeat(0u8).take(n as usize));
            (case_text(&b, false), "gen-pingpong-max")
        }
        // timestamps around i64::MAX (beyond it cannot be built with `Timestamp`): patch the 8 bytes
        38 => {
            let kind = *rng.pick(&[0u64, 1, 2, 3]);
            let m = wiregen::message_of_kind(rng, kind, false);
            let mut b = wire::serialize(&m);
            let n = b.len();
            let off = match kind {
                0 => if rng.bool() { n - 16 } else { n - 8 },
                1 => 2 + 32 + 64 + 1 + 8,
                _ => n - 8,
            };
            let v: u64 = *rng.pick(&[i64::MAX as u64 - 1, i64::MAX as u64, i64::MAX as u64 + 1, u64::MAX, 0]);
            b[off..off + 8].copy_from_slice(&v.to_be_bytes());
            (case_text(&b, false), "gen-timestamp")
        }
        // random bytes behind a valid type id
        _ => {
            let mut b = vec![0, *rng.pick(&[2u8, 4, 6, 8, 10, 12, 14])];
            let n = rng.below(200) as usize;
            b.extend(rng.bytes(n));
            (case_text(&b, false), "gen-random")
        }
    }
}

fn main() {
    let mut ctx = Ctx::from_args("C15");
    if !ctx.run_fixed(run_case) {
        // every message type at every boundary size, built with the repo's types
        let mut rng = Rng::new(0xC15);
        for kind in 0..7 {
            for _ in 0..6 {
                let input = valid_case(&mut rng, kind, true);
                let o = run_case(&input);
                ctx.count("gen-valid-big");
                ctx.record(&input, o);
            }
        }
        // the stream path: gossip frames cut at EVERY byte position, plus random multi-cut chunkings
        let mut rng = Rng::new(0xC15F);
        let reps = ctx.size(1, 6);
        for _ in 0..reps {
            // node announcements (several), then one message of every other kind that is small enough
            for kind in [1u64, 1, 1, 1, 2, 3, 4, 5, 6] {
                let n_frames = rng.range(1, 2);
                let mut stream = vec![];
                for k in 0..n_frames {
                    let kd = if k == 0 { kind } else { rng.below(7) };
                    let m = wiregen::message_of_kind(&mut rng, kd, false);
                    let link = if rng.bool() { Link::Inbound } else { Link::Outbound };
                    stream.extend(Frame::gossip(link, m).to_bytes());
                }
                let onions = wiregen::onion_token(&stream);
                if stream.len() <= 700 {
                    for c in 0..=stream.len() {
                        let input = format!("F {} {c} {onions}", hex(&stream));
                        let o = run_case(&input);
                        ctx.count("gen-stream-every-cut");
                        ctx.record(&input, o);
                    }
                }
                for _ in 0..8 {
                    let mut cuts: Vec<usize> = (0..rng.range(2, 6)).map(|_| rng.below(stream.len() as u64 + 1) as usize).collect();
                    cuts.sort();
                    let input = format!(
                        "F {} {} {onions}",
                        hex(&stream),
                        cuts.iter().map(|c| c.to_string()).collect::<Vec<_>>().join(",")
                    );
                    let o = run_case(&input);
                    ctx.count("gen-stream-random-cuts");
                    ctx.record(&input, o);
                }
            }
        }
        let mut rng = ctx.rng();
        for _ in 0..ctx.size(8_000, 200_000) {
            let (input, tag) = gen_case(&mut rng);
            let o = run_case(&input);
            ctx.count(tag);
            ctx.record(&input, o);
        }
    }
    ctx.finish(
        "byte strings given to the real wire::deserialize::<Message>: encodings of messages of every type built from \
         the repo's types (vector sizes 0/1/limit-1/limit, ping/pong sizes up to MAX_*_ZEROES, timestamps 0 and i64::MAX, \
         all address types: IPv4 special ranges, structured IPv6 (IPv4-mapped/-compatible, ::, ::1, NAT64, 6to4, link-local, unique-local, multicast, documentation), DNS names (255 bytes, trailing dot, upper case, punycode, IDN, IP/onion look-alikes), valid onion addresses, ports 0/65535; multi-byte, upper-case, non-NFC aliases; agents with spaces and upper case); timestamps patched to i64::MAX-1/MAX/MAX+1/u64::MAX; node announcements with alias / \
         user-agent fields replaced by UTF-8, White_Space/Cc and user-agent-grammar boundary strings; user agent dropped \
         or cut short; ping/pong padding overwritten; bit/byte/insert/delete/truncate/append mutations; counts beyond the \
         vector limits; ping/pong counts around the encodable maximum; random bytes behind a valid type id. Stream path (`F` cases): the same messages framed as gossip frames and fed to the real \
         Deserializer<_, Frame<Message>> cut at EVERY byte position and in random multi-cut chunkings. \
         non-trivial = the bytes decoded (the property speaks about bytes that decode); distinct by input text",
        false,
    );
}
