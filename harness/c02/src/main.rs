//! C02 — fetches respect the delegate threshold and never rewind delegate sigrefs.
//! Runs the real `radicle_fetch::{pull, clone}` on real repositories (see `fetchlab`, harness/c01/src/lib.rs).
mod worker;

use fetchlab::{gen, Lab, Prop};
use verif_common::*;

fn main() {
    let mut ctx = Ctx::from_args("C02");
    let mut lab = Lab::new();
    lab.worker = Some(Box::new(worker::run));
    let threads = std::env::var("FETCHLAB_THREADS").ok().and_then(|t| t.parse().ok()).unwrap_or(8);
    let (fixed, is_replay) = ctx.fixed_inputs();
    let mut inconclusive = 0u64;
    for e in lab.run_many(&fixed, Prop::C02, threads) {
        inconclusive += e.outcome.tags.iter().filter(|t| *t == "worker-inconclusive-skipped").count() as u64;
        ctx.count("corpus-or-replay");
        ctx.record(&e.line, e.outcome);
    }
    if !is_replay {
        let mut rng = ctx.rng();
        let cases = gen::c02_cases(&mut rng, ctx.quick());
        for chunk in cases.chunks(64) {
            for e in lab.run_many(chunk, Prop::C02, threads) {
                if e.setup_error.is_some() {
                    // the generator composed ops that refer to something an earlier op removed: not a case
                    ctx.count("generator-discarded");
                    continue;
                }
                inconclusive += e.outcome.tags.iter().filter(|t| *t == "worker-inconclusive-skipped").count() as u64;
                ctx.record(&e.line, e.outcome);
            }
        }
    }
    if inconclusive > 0 {
        ctx.note(
            "worker-inconclusive-skipped",
            format!("{inconclusive} node-level run(s) got no verdict after 3 attempts (timeouts / connection problems under load); those cases were recorded without the node-level observation"),
        );
    }
    ctx.finish(gen::C02_RULE, false);
}
