import HeartwoodModel.Model.Ids
import HeartwoodModel.Lemmas.Base58
/-!
# C21 — Textual identifiers round-trip

Property theorems about `Model/Base58.lean` and `Model/Ids.lean`.

Direction of the round trips (stated exactly):

* **parse ∘ print = id for every valid value**: `pk_parse_print`, `did_parse_print`, `rid_parse_print`
  (any 32 / 20 bytes, *including leading zero bytes*), `alias_parse_print`, `useragent_parse_print`.
  They rest on `b58_decode_encode`.
* **print ∘ parse = the canonical form**: whatever text is accepted — in any multibase base (opaque
  parameter `other`), with or without the `rad:` prefix — re-prints as the base-58-btc `z…` text, which
  parses back to the same value (`pk/did/rid_print_canonical`); and for a text that is already in the
  `z…` form, printing returns *that very text* (`pk/did/rid_print_unique`, on `b58_encode_decode`): the
  canonical text of a value is unique.
* **totality**: the parsers are total functions; the fuel of the digit conversions never runs out
  (`b58encode_total`, `b58decode_total`, `parsers_never_out_of_fuel`). "Never panics" for the Rust is
  established by the correspondence run under `catch_unwind`, not by these theorems.
-/
set_option linter.unusedSimpArgs false
set_option linter.unusedVariables false
namespace HeartwoodModel.Ids
open HeartwoodModel.Base58

deriving instance DecidableEq for Except

/-- Every element is a byte. -/
def IsBytes (bs : Bytes) : Prop := ∀ b ∈ bs, b < 256

/-! ### base 58 -/

theorem b58encode_total (bs : Bytes) (h : IsBytes bs) : ∃ s, b58encode bs = some s := by
  unfold b58encode
  have hlt : ∀ d ∈ (dropZeros bs).reverse, d < 256 :=
    fun d hd => h d (mem_dropZeros (List.mem_reverse.mp hd))
  have h1 := ofDigitsLE_lt (b := 256) (by omega) hlt
  rw [List.length_reverse] at h1
  have h2 : 256 ^ (dropZeros bs).length ≤ 58 ^ (2 * (dropZeros bs).length) := by
    rw [Nat.pow_mul]
    exact Nat.pow_le_pow_left (by decide) _
  obtain ⟨ds, hds⟩ := toDigitsLE_total (b := 58) (by omega) (2 * (dropZeros bs).length) _
    (Nat.lt_of_lt_of_le h1 h2)
  simp only [hds]
  exact ⟨_, rfl⟩

theorem b58decode_total (s : Bytes) : b58decode s ≠ .fuel := by
  unfold b58decode
  cases hd : digits? s with
  | none => simp
  | some ds =>
    obtain ⟨_, hlt⟩ := digits_spec hd
    have hlt' : ∀ d ∈ (dropZeros ds).reverse, d < 58 :=
      fun d hd => hlt d (mem_dropZeros (List.mem_reverse.mp hd))
    have h1 := ofDigitsLE_lt (b := 58) (by omega) hlt'
    rw [List.length_reverse] at h1
    have h2 : 58 ^ (dropZeros ds).length ≤ 256 ^ (dropZeros ds).length :=
      Nat.pow_le_pow_left (by decide) _
    obtain ⟨bs, hbs⟩ := toDigitsLE_total (b := 256) (by omega) (dropZeros ds).length _
      (Nat.lt_of_lt_of_le h1 h2)
    simp [hbs]

/-- **Base-58 round trip**: decoding the encoding of any byte string returns it (leading zero bytes ↔
leading `'1'`s included). -/
theorem b58_decode_encode (bs : Bytes) (h : IsBytes bs) :
    ∃ s, b58encode bs = some s ∧ b58decode s = .ok bs := by
  obtain ⟨s, hs⟩ := b58encode_total bs h
  refine ⟨s, hs, ?_⟩
  unfold b58encode at hs
  dsimp only at hs
  split at hs
  · cases hs
  · rename_i ds hds
    simp only [Option.some.injEq] at hs
    -- the minimal base-256 list we started from
    have hR : Minimal 256 (dropZeros bs).reverse :=
      minimal_reverse (fun d hd => h d (mem_dropZeros hd)) (dropZeros_head bs)
    obtain ⟨_, hm58, hl58⟩ := toDigitsLE_spec (b := 58) (by omega) hds
    -- the text is the image of a digit list
    have hs' : s = (List.replicate (leadingZeros bs) 0 ++ ds.reverse).map b58Char := by
      rw [← hs]; simp [b58Char]
    have hdig : digits? s = some (List.replicate (leadingZeros bs) 0 ++ ds.reverse) := by
      rw [hs']
      apply digits_map
      intro d hd
      rcases List.mem_append.mp hd with m | m
      · rw [(List.mem_replicate.mp m).2]; omega
      · exact hm58 d (List.mem_reverse.mp m)
    have hhead : ds.reverse.head? ≠ some 0 := by rw [List.head?_reverse]; exact hl58
    obtain ⟨hz, hdz⟩ := zeros_replicate_append hhead (leadingZeros bs)
    unfold b58decode
    simp only [hdig, hz, hdz, List.reverse_reverse, List.length_reverse]
    cases hE : toDigitsLE 256 ds.length (ofDigitsLE 58 ds) with
    | none =>
      exfalso
      have := b58decode_total s
      unfold b58decode at this
      simp only [hdig, hz, hdz, List.reverse_reverse, List.length_reverse, hE] at this
      exact this rfl
    | some E =>
      have := toDigits_roundtrip (b1 := 256) (b2 := 58) (by omega) (by omega) hR hds hE
      simp only [this, List.reverse_reverse]
      rw [← zeros_split bs]

/-- **Uniqueness of the text**: a string that decodes re-encodes to itself. -/
theorem b58_encode_decode {s bs : Bytes} (h : b58decode s = .ok bs) :
    b58encode bs = some s ∧ IsBytes bs := by
  unfold b58decode at h
  split at h
  · cases h
  · rename_i ds0 hdig
    obtain ⟨hs, hlt⟩ := digits_spec hdig
    dsimp only at h
    split at h
    · cases h
    · rename_i E hE
      simp only [DecodeResult.ok.injEq] at h
      have hR : Minimal 58 (dropZeros ds0).reverse :=
        minimal_reverse (fun d hd => hlt d (mem_dropZeros hd)) (dropZeros_head ds0)
      obtain ⟨_, hm256, hl256⟩ := toDigitsLE_spec (b := 256) (by omega) hE
      have hbytes : IsBytes bs := by
        intro b hb
        rw [← h] at hb
        rcases List.mem_append.mp hb with m | m
        · rw [(List.mem_replicate.mp m).2]; omega
        · exact hm256 b (List.mem_reverse.mp m)
      refine ⟨?_, hbytes⟩
      have hhead : E.reverse.head? ≠ some 0 := by rw [List.head?_reverse]; exact hl256
      obtain ⟨hz, hdz⟩ := zeros_replicate_append hhead (leadingZeros ds0)
      obtain ⟨t, ht⟩ := b58encode_total bs hbytes
      rw [ht]
      unfold b58encode at ht
      dsimp only at ht
      rw [← h] at ht
      simp only [hz, hdz, List.reverse_reverse, List.length_reverse] at ht
      split at ht
      · cases ht
      · rename_i D hD
        have := toDigits_roundtrip (b1 := 58) (b2 := 256) (by omega) (by omega) hR hE hD
        simp only [Option.some.injEq, this, List.reverse_reverse] at ht
        rw [← ht, hs]
        conv => rhs; rw [zeros_split ds0]
        simp [b58Char]

/-! ### prefixes -/

theorem stripPrefix_append (p l : Bytes) : stripPrefix p (p ++ l) = some l := by
  induction p with
  | nil => cases l <;> rfl
  | cons a p ih => simp [stripPrefix, ih]

theorem stripPrefix_spec {p l r : Bytes} (h : stripPrefix p l = some r) : l = p ++ r := by
  induction p generalizing l with
  | nil => cases l <;> (simp only [stripPrefix, Option.some.injEq] at h; subst h; rfl)
  | cons a p ih =>
    cases l with
    | nil => simp [stripPrefix] at h
    | cons b l =>
      simp only [stripPrefix] at h
      split at h
      · rename_i e; rw [e, ih h]; rfl
      · cases h

theorem multibase_roundtrip (other : Bytes → Option Bytes) (bs : Bytes) (h : IsBytes bs) :
    ∃ t, multibaseEncode bs = some t ∧ t.head? = some 0x7a ∧ multibaseDecode other t = .ok bs := by
  obtain ⟨s, hs, hd⟩ := b58_decode_encode bs h
  refine ⟨0x7a :: s, by simp [multibaseEncode, hs], rfl, ?_⟩
  simp [multibaseDecode, hd]

theorem multibase_unique {other : Bytes → Option Bytes} {r bs : Bytes}
    (h : multibaseDecode other (0x7a :: r) = .ok bs) : multibaseEncode bs = some (0x7a :: r) ∧ IsBytes bs := by
  simp only [multibaseDecode] at h
  split at h
  · rename_i bs' hd
    simp only [Except.ok.injEq] at h; subst h
    obtain ⟨he, hb⟩ := b58_encode_decode hd
    exact ⟨by simp [multibaseEncode, he], hb⟩
  · cases h
  · cases h

/-- The opaque decoder of the other multibase bases returns bytes (`Vec<u8>`). -/
def OtherBytes (other : Bytes → Option Bytes) : Prop := ∀ s bs, other s = some bs → IsBytes bs

theorem multibaseDecode_bytes {other : Bytes → Option Bytes} (ho : OtherBytes other) {s bs : Bytes}
    (h : multibaseDecode other s = .ok bs) : IsBytes bs := by
  unfold multibaseDecode at h
  split at h
  · cases h
  · split at h
    · rename_i bs' hd
      simp only [Except.ok.injEq] at h; subst h
      exact (b58_encode_decode hd).2
    · cases h
    · cases h
  · split at h
    · rename_i bs' ho'
      simp only [Except.ok.injEq] at h; subst h
      exact ho _ _ ho'
    · cases h

/-! ### PublicKey -/

/-- **parse ∘ print = id** for public keys: any 32 bytes. -/
theorem pk_parse_print (other : Bytes → Option Bytes) (k : Bytes) (hl : k.length = 32) (hb : IsBytes k) :
    ∃ t, pkPrint k = some t ∧ t.head? = some 0x7a ∧ pkParse other t = .ok k := by
  have hbs : IsBytes (multicodecEd25519 ++ k) := by
    intro b hb'
    rcases List.mem_append.mp hb' with m | m
    · simp [multicodecEd25519] at m; omega
    · exact hb b m
  obtain ⟨t, ht, hz, hd⟩ := multibase_roundtrip other _ hbs
  refine ⟨t, ht, hz, ?_⟩
  simp [pkParse, hd, stripPrefix_append, hl]

theorem pkParse_ok {other : Bytes → Option Bytes} {s k : Bytes} (h : pkParse other s = .ok k) :
    multibaseDecode other s = .ok (multicodecEd25519 ++ k) ∧ k.length = 32 := by
  unfold pkParse at h
  split at h
  · cases h
  · rename_i bs hd
    split at h
    · cases h
    · rename_i key hk
      split at h
      · rename_i hl
        simp only [Except.ok.injEq] at h; subst h
        rw [stripPrefix_spec hk] at hd
        exact ⟨hd, hl⟩
      · cases h

/-- **print ∘ parse is the canonical form**: any accepted text (any multibase base) re-prints as a
`z…` text that parses to the same key. -/
theorem pk_print_canonical {other : Bytes → Option Bytes} (ho : OtherBytes other) {s k : Bytes}
    (h : pkParse other s = .ok k) :
    ∃ t, pkPrint k = some t ∧ t.head? = some 0x7a ∧ pkParse other t = .ok k := by
  obtain ⟨hd, hl⟩ := pkParse_ok h
  have hb := multibaseDecode_bytes ho hd
  exact pk_parse_print other k hl (fun b hb' => hb b (List.mem_append_right _ hb'))

/-- A text already in the `z…` form is *the* printed form of the key it denotes. -/
theorem pk_print_unique {other : Bytes → Option Bytes} {r k : Bytes}
    (h : pkParse other (0x7a :: r) = .ok k) : pkPrint k = some (0x7a :: r) := by
  obtain ⟨hd, _⟩ := pkParse_ok h
  exact (multibase_unique hd).1

/-! ### Did -/

theorem did_parse_print (other : Bytes → Option Bytes) (k : Bytes) (hl : k.length = 32) (hb : IsBytes k) :
    ∃ t, didPrint k = some t ∧ didParse other t = .ok k := by
  obtain ⟨t, ht, _, hp⟩ := pk_parse_print other k hl hb
  exact ⟨didPrefix ++ t, by simp [didPrint, ht], by simp [didParse, stripPrefix_append, hp]⟩

theorem didParse_ok {other : Bytes → Option Bytes} {s k : Bytes} (h : didParse other s = .ok k) :
    ∃ r, s = didPrefix ++ r ∧ pkParse other r = .ok k := by
  unfold didParse at h
  split at h
  · cases h
  · rename_i r hr; exact ⟨r, stripPrefix_spec hr, h⟩

theorem did_print_canonical {other : Bytes → Option Bytes} (ho : OtherBytes other) {s k : Bytes}
    (h : didParse other s = .ok k) : ∃ t, didPrint k = some t ∧ didParse other t = .ok k := by
  obtain ⟨r, _, hp⟩ := didParse_ok h
  obtain ⟨hd, hl⟩ := pkParse_ok hp
  have hb := multibaseDecode_bytes ho hd
  exact did_parse_print other k hl (fun b hb' => hb b (List.mem_append_right _ hb'))

theorem did_print_unique {other : Bytes → Option Bytes} {r k : Bytes}
    (h : didParse other (didPrefix ++ 0x7a :: r) = .ok k) : didPrint k = some (didPrefix ++ 0x7a :: r) := by
  simp only [didParse, stripPrefix_append] at h
  simp [didPrint, pk_print_unique h]

/-! ### RepoId -/

theorem rid_parse_print (other : Bytes → Option Bytes) (o : Bytes) (hl : o.length = 20) (hb : IsBytes o) :
    ∃ t, ridPrint o = some t ∧ stripPrefix radPrefix t ≠ none ∧ ridParse other t = .ok o := by
  obtain ⟨t, ht, _, hd⟩ := multibase_roundtrip other o hb
  refine ⟨radPrefix ++ t, by simp [ridPrint, ht], by simp [stripPrefix_append], ?_⟩
  simp [ridParse, stripPrefix_append, hd, hl]

theorem ridParse_ok {other : Bytes → Option Bytes} {s o : Bytes} (h : ridParse other s = .ok o) :
    o.length = 20 ∧
    multibaseDecode other (match stripPrefix radPrefix s with | some r => r | none => s) = .ok o := by
  unfold ridParse at h
  simp only at h
  split at h
  · cases h
  · rename_i bs hd
    split at h
    · rename_i hl
      simp only [Except.ok.injEq] at h; subst h
      exact ⟨hl, hd⟩
    · cases h

/-- Accepted with or without `rad:`, in any base: re-prints as `rad:z…`, which parses to the same id. -/
theorem rid_print_canonical {other : Bytes → Option Bytes} (ho : OtherBytes other) {s o : Bytes}
    (h : ridParse other s = .ok o) :
    ∃ t, ridPrint o = some t ∧ stripPrefix radPrefix t ≠ none ∧ ridParse other t = .ok o := by
  obtain ⟨hl, hd⟩ := ridParse_ok h
  exact rid_parse_print other o hl (multibaseDecode_bytes ho hd)

theorem rid_print_unique {other : Bytes → Option Bytes} {r o : Bytes}
    (h : ridParse other (radPrefix ++ 0x7a :: r) = .ok o) : ridPrint o = some (radPrefix ++ 0x7a :: r) := by
  obtain ⟨_, hd⟩ := ridParse_ok h
  simp only [stripPrefix_append] at hd
  simp [ridPrint, (multibase_unique hd).1]

/-! ### Alias, UserAgent -/

/-- `Alias::from_str` accepts exactly: non-empty, no control / whitespace character, at most 32 UTF-8
bytes — and stores the text verbatim. -/
theorem aliasParse_ok_iff (s a : List Nat) :
    aliasParse s = .ok a ↔
      a = s ∧ s ≠ [] ∧ (∀ c ∈ s, isControl c = false ∧ isWhitespace c = false) ∧ strLen s ≤ 32 := by
  unfold aliasParse
  by_cases h1 : s.isEmpty
  · simp only [h1, if_true, reduceCtorEq, false_iff]
    rintro ⟨_, hne, _⟩; exact hne (List.isEmpty_iff.mp h1)
  · have hne : s ≠ [] := fun e => h1 (List.isEmpty_iff.mpr e)
    simp only [h1, Bool.false_eq_true, if_false]
    by_cases h2 : s.any (fun c => isControl c || isWhitespace c)
    · simp only [h2, if_true, reduceCtorEq, false_iff]
      rintro ⟨_, _, hall, _⟩
      obtain ⟨c, hc, hcc⟩ := List.any_eq_true.mp h2
      have := hall c hc
      simp [this.1, this.2] at hcc
    · simp only [h2, Bool.false_eq_true, if_false]
      have hall : ∀ c ∈ s, isControl c = false ∧ isWhitespace c = false := by
        intro c hc
        have : ¬ (isControl c || isWhitespace c) = true := fun e => h2 (List.any_eq_true.mpr ⟨c, hc, e⟩)
        simpa using this
      by_cases h3 : strLen s > maxAliasLength
      · simp only [h3, if_true, reduceCtorEq, false_iff]
        rintro ⟨_, _, _, hle⟩; simp only [maxAliasLength] at h3; omega
      · simp only [h3, if_false, Except.ok.injEq]
        simp only [maxAliasLength] at h3
        exact ⟨fun e => ⟨e.symm, hne, hall, by omega⟩, fun e => e.1.symm⟩

/-- **Alias round trip**, both directions: the printed text of an accepted alias is the input text, and
it parses back to the same alias. -/
theorem alias_parse_print {s a : List Nat} (h : aliasParse s = .ok a) :
    aliasPrint a = s ∧ aliasParse (aliasPrint a) = .ok a := by
  have := ((aliasParse_ok_iff s a).mp h).1
  subst this
  exact ⟨rfl, h⟩

theorem uaParse_some {s u : List Nat} (h : uaParse s = some u) : u = s := by
  unfold uaParse at h
  dsimp only at h
  repeat' split at h
  all_goals (cases h <;> rfl)

/-- **UserAgent round trip**, both directions. -/
theorem useragent_parse_print {s u : List Nat} (h : uaParse s = some u) :
    uaPrint u = s ∧ uaParse (uaPrint u) = some u := by
  have := uaParse_some h
  subst this
  exact ⟨rfl, h⟩

/-- What `UserAgent::from_str` requires at least (length limit in bytes, slash delimiters). -/
theorem uaParse_shape {s u : List Nat} (h : uaParse s = some u) :
    strLen s ≤ 64 ∧ s.head? = some 0x2f ∧ s.getLast? = some 0x2f ∧ 3 ≤ s.length := by
  unfold uaParse at h
  split at h
  · cases h
  · rename_i hlen
    split at h
    · rename_i s1
      split at h
      · rename_i hl
        dsimp only at h
        split at h
        · cases h
        · rename_i hne
          refine ⟨by omega, rfl, ?_, ?_⟩
          · cases s1 with
            | nil => simp at hl
            | cons x xs => rw [List.getLast?_cons_cons]; exact hl
          · cases s1 with
            | nil => simp at hl
            | cons x xs =>
              cases xs with
              | nil => simp at hne
              | cons y ys => simp
      · cases h
    · cases h

/-! ### totality -/

/-- The fuel outcome is unreachable in every parser. -/
theorem parsers_never_out_of_fuel (other : Bytes → Option Bytes) (s : Bytes) :
    multibaseDecode other s ≠ .error .fuel ∧ pkParse other s ≠ .error .fuel ∧
    didParse other s ≠ .error .fuel ∧ ridParse other s ≠ .error .fuel := by
  have hm : ∀ s, multibaseDecode other s ≠ .error .fuel := by
    intro s
    unfold multibaseDecode
    split
    · simp
    · rename_i rest
      have := b58decode_total rest
      split <;> simp_all
    · split <;> simp
  have hp : ∀ s, pkParse other s ≠ .error .fuel := by
    intro s
    unfold pkParse
    split
    · rename_i e he; intro h; simp only [Except.error.injEq] at h; subst h; exact hm s he
    · split
      · simp
      · split <;> simp
  refine ⟨hm s, hp s, ?_, ?_⟩
  · unfold didParse
    split
    · simp
    · exact hp _
  · unfold ridParse
    simp only
    split
    · rename_i e he; intro h; simp only [Except.error.injEq] at h; subst h; exact hm _ he
    · split <;> simp

/-! ### non-vacuity -/

/-- `z6MknSLrJoTcukLrE435hVNQT4JUhbvWLX4kUzqkEStBU8Vi` (the key of `radicle::test::fixtures::user`) -/
def exKeyText : Bytes := [122, 54, 77, 107, 110, 83, 76, 114, 74, 111, 84, 99, 117, 107, 76, 114, 69, 52, 51, 53, 104, 86,
  78, 81, 84, 52, 74, 85, 104, 98, 118, 87, 76, 88, 52, 107, 85, 122, 113, 107, 69, 83, 116, 66, 85, 56, 86, 105]
def exKey : Bytes := [118, 161, 89, 32, 68, 166, 228, 245, 17, 38, 91, 202, 115, 166, 4, 217, 11, 5, 41, 209, 223, 96,
  43, 227, 10, 25, 169, 37, 118, 96, 209, 245]
/-- `rad:z3gqcJUoA1n9HaHKufZs5FCSGazv5` (the example in `id.rs`) -/
def exRidText : Bytes := [114, 97, 100, 58, 122, 51, 103, 113, 99, 74, 85, 111, 65, 49, 110, 57, 72, 97, 72, 75, 117, 102,
  90, 115, 53, 70, 67, 83, 71, 97, 122, 118, 53]
def exRid : Bytes := [192, 220, 38, 149, 94, 27, 109, 184, 31, 18, 82, 32, 91, 221, 125, 65, 51, 54, 88, 130]
/-- an object id with two leading zero bytes: `rad:z11HqhermS7nJmZL4z5d2ZG6Soa` -/
def exRidZ : Bytes := [0, 0, 7] ++ List.replicate 16 0 ++ [9]
def exRidZText : Bytes := [114, 97, 100, 58, 122, 49, 49, 72, 113, 104, 101, 114, 109, 83, 55, 110, 74, 109, 90, 76, 52,
  122, 53, 100, 50, 90, 71, 54, 83, 111, 97]

def noOther : Bytes → Option Bytes := fun _ => none

example : OtherBytes noOther := by intro s bs h; cases h
example : exKey.length = 32 ∧ IsBytes exKey := ⟨by decide, by unfold IsBytes; decide⟩
example : pkPrint exKey = some exKeyText := by decide
example : pkParse noOther exKeyText = .ok exKey := by decide
example : ridPrint exRid = some exRidText ∧ ridParse noOther exRidText = .ok exRid := by decide
example : ridPrint exRidZ = some exRidZText ∧ ridParse noOther exRidZText = .ok exRidZ := by decide
/-- without the `rad:` prefix the id is accepted too; the canonical print adds it -/
example : ridParse noOther (exRidText.drop 4) = .ok exRid := by decide
example : didParse noOther (didPrefix ++ exKeyText) = .ok exKey ∧ didParse noOther exKeyText = .error .prefix := by decide
/-- wrong multicodec prefix / wrong length -/
example : pkParse noOther exRidZText.tail.tail.tail.tail = .error .multicodec := by decide
/-- `©loudhèâd` is an alias; 33 ASCII bytes, or 16 two-byte characters + 1, are too long; a no-break space is not allowed -/
example : aliasParse [0xa9, 0x6c, 0x6f, 0x75, 0x64, 0x68, 0xe8, 0xe2, 0x64] = .ok [0xa9, 0x6c, 0x6f, 0x75, 0x64, 0x68, 0xe8, 0xe2, 0x64] := by decide
example : aliasParse (List.replicate 32 0x61) = .ok (List.replicate 32 0x61) ∧
    aliasParse (List.replicate 33 0x61) = .error .maxBytesExceeded ∧
    aliasParse (List.replicate 16 0xe9) = .ok (List.replicate 16 0xe9) ∧
    aliasParse (0x61 :: List.replicate 16 0xe9) = .error .maxBytesExceeded ∧
    aliasParse [0x61, 0xa0] = .error .invalidCharacter := by decide
/-- `/radicle:1.0/` and `/radicle/` are user agents; `/radicle:/` is not; a space in the version is (the `||`) -/
example : uaParse [0x2f, 0x72, 0x3a, 0x31, 0x2e, 0x30, 0x2f] = some [0x2f, 0x72, 0x3a, 0x31, 0x2e, 0x30, 0x2f] ∧
    uaParse [0x2f, 0x72, 0x2f] = some [0x2f, 0x72, 0x2f] ∧ uaParse [0x2f, 0x72, 0x3a, 0x2f] = none ∧
    uaParse [0x2f, 0x72, 0x3a, 0x20, 0x2f] = some [0x2f, 0x72, 0x3a, 0x20, 0x2f] ∧ uaParse [0x2f, 0x2f] = none ∧
    uaParse [0x2f] = none := by decide

end HeartwoodModel.Ids
