//! C13 harness (stub: not implemented yet).
fn main() {
    eprintln!("C13: harness not implemented");
    std::process::exit(3);
}
