import HeartwoodModel.Model.Wire
import HeartwoodModel.Lemmas.Codec
/-!
# Lemmas about the gossip message codec (C14, C15, C13a)

Component codecs are `Exact` (round-trip + canonical); the message decoder is then analysed per message
type. Well-formedness `Wf` describes the messages the node can construct.
-/
set_option linter.unusedSimpArgs false
set_option linter.unusedVariables false
namespace HeartwoodModel.Wire
open HeartwoodModel.Codec

/-! ## Well-formed values -/

def Host.Wf (env : Env) : Host → Prop
  | .ipv4 o => o.length = 4
  | .ipv6 o => o.length = 16
  | .dns n => n.length ≤ 255 ∧ utf8Ok n = true
  | .onion raw => raw.length = 35 ∧ env.onionOk raw = true

def Addr.Wf (env : Env) (a : Addr) : Prop := a.host.Wf env ∧ a.port < 65536

def RefsAt.Wf (r : RefsAt) : Prop := r.remote.length = 32 ∧ r.at.length = 20

/-- `Ping::MAX_PING_ZEROES`, `Ping::MAX_PONG_ZEROES` -/
def MAX_PING_ZEROES : Nat := 65529
def MAX_PONG_ZEROES : Nat := 65531

/-- The messages the node can construct: field widths of the Rust types, validated strings, vector
limits of the `BoundedVec`s, timestamps at most `i64::MAX`, ping/pong sizes as produced by `Ping::new`. -/
def Wf (env : Env) : Msg → Prop
  | .subscribe f s u => f.length ∈ filterSizes ∧ s ≤ tsMax ∧ u ≤ tsMax
  | .nodeAnn node sig v feat ts al addrs nonce ua =>
    node.length = 32 ∧ sig.length = 64 ∧ v < 256 ∧ feat < 2 ^ 64 ∧ ts ≤ tsMax ∧ aliasOk al = true ∧
      addrs.length ≤ ADDRESS_LIMIT ∧ (∀ a ∈ addrs, a.Wf env) ∧ nonce < 2 ^ 64 ∧ agentOk ua = true
  | .invAnn node sig inv ts =>
    node.length = 32 ∧ sig.length = 64 ∧ inv.length ≤ INVENTORY_LIMIT ∧ (∀ o ∈ inv, o.length = 20) ∧
      ts ≤ tsMax
  | .refsAnn node sig rid refs ts =>
    node.length = 32 ∧ sig.length = 64 ∧ rid.length = 20 ∧ refs.length ≤ REF_REMOTE_LIMIT ∧
      (∀ x ∈ refs, x.Wf) ∧ ts ≤ tsMax
  | .info rid a => rid.length = 20 ∧ a.length = 20
  | .ping p z => p < 65536 ∧ z ≤ MAX_PING_ZEROES
  | .pong z => z ≤ MAX_PONG_ZEROES

/-! ## Component codecs -/

theorem u16_exact : Exact (fun n => n < 65536) encU16 u16 := by
  intro b a r
  have := beNat_exact 2 b a r
  simpa [u16, encU16] using this

theorem u64_exact : Exact (fun n => n < 2 ^ 64) encU64 u64 := by
  intro b a r
  have := beNat_exact 8 b a r
  simpa [u64, encU64] using this

theorem u8_exact : Exact (fun n => n < 256) (beEnc 1) (beNat 1) := by
  intro b a r
  have := beNat_exact 1 b a r
  simpa using this

theorem pubkey_exact : Exact (fun p : Bytes => p.length = 32) id pubkey := take_exact 32
theorem signature_exact : Exact (fun p : Bytes => p.length = 64) id signature := take_exact 64

theorem tsMax_lt : tsMax < 2 ^ 64 := by decide

theorem timestamp_exact : Exact (fun n => n ≤ tsMax) encU64 timestamp := by
  intro b a r
  unfold timestamp
  rw [filterMap_ok_iff]
  constructor
  · rintro ⟨n, hn, hf⟩
    split at hf
    · cases hf
      exact ⟨‹_›, (u64_exact.can hn).2⟩
    · cases hf
  · rintro ⟨ha, rfl⟩
    refine ⟨a, u64_exact.rt (by have := tsMax_lt; omega) r, by simp [ha]⟩

theorem oid_exact : Exact (fun o : Bytes => o.length = 20) encOid oid := by
  intro b a r
  unfold oid
  rw [bind_ok_iff]
  constructor
  · rintro ⟨len, r1, hl, h⟩
    obtain ⟨_, rfl⟩ := u16_exact.can hl
    split at h
    · rename_i h20
      obtain ⟨ha, rfl⟩ := take_ok_iff.mp h
      exact ⟨ha, by simp [encOid, ha, h20]⟩
    · cases h
  · rintro ⟨ha, rfl⟩
    refine ⟨20, a ++ r, ?_, ?_⟩
    · have := u16_exact.rt (a := 20) (by decide) (a ++ r)
      simpa [encOid, ha] using this
    · simp [take_append ha]

theorem str_exact : Exact (fun s : Bytes => s.length ≤ 255 ∧ utf8Ok s = true) encStr str := by
  intro b a r
  unfold str
  rw [filterMap_ok_iff]
  constructor
  · rintro ⟨s, hs, hf⟩
    rw [bind_ok_iff] at hs
    obtain ⟨len, r1, hl, ht⟩ := hs
    obtain ⟨hlen, rfl⟩ := u8_exact.can hl
    obtain ⟨hsl, rfl⟩ := take_ok_iff.mp ht
    split at hf
    · cases hf
      subst hsl
      exact ⟨⟨by omega, ‹_›⟩, by simp [encStr]⟩
    · cases hf
  · rintro ⟨⟨hl, hu⟩, rfl⟩
    refine ⟨a, ?_, by simp [hu]⟩
    rw [bind_ok_iff]
    refine ⟨a.length, a ++ r, ?_, take_append rfl⟩
    have := u8_exact.rt (a := a.length) (by omega) (a ++ r)
    simpa [encStr] using this

theorem aliasOk_imp {s : Bytes} (h : aliasOk s = true) : s.length ≤ 255 ∧ utf8Ok s = true := by
  unfold aliasOk at h
  cases hd : utf8Decode s with
  | none => simp [hd] at h
  | some cps =>
    simp [hd] at h
    exact ⟨by omega, by simp [utf8Ok, hd]⟩

theorem aliasOk_length {s : Bytes} (h : aliasOk s = true) : s.length ≤ 32 := by
  unfold aliasOk at h
  cases hd : utf8Decode s with
  | none => simp [hd] at h
  | some cps => simp [hd] at h; omega

theorem agentOk_imp {s : Bytes} (h : agentOk s = true) : s.length ≤ 255 ∧ utf8Ok s = true := by
  unfold agentOk at h
  simp only [Bool.and_eq_true, decide_eq_true_eq] at h
  exact ⟨by omega, h.1.1⟩

theorem agentOk_length {s : Bytes} (h : agentOk s = true) : s.length ≤ 64 := by
  unfold agentOk at h
  simp only [Bool.and_eq_true, decide_eq_true_eq] at h
  exact h.1.2

theorem alias_exact : Exact (fun s : Bytes => aliasOk s = true) encStr alias := by
  intro b a r
  unfold alias
  rw [filterMap_ok_iff]
  constructor
  · rintro ⟨s, hs, hf⟩
    split at hf
    · cases hf; exact ⟨‹_›, (str_exact.can hs).2⟩
    · cases hf
  · rintro ⟨ha, rfl⟩
    exact ⟨a, str_exact.rt (aliasOk_imp ha) r, by simp [ha]⟩

theorem agent_exact : Exact (fun s : Bytes => agentOk s = true) encStr agent := by
  intro b a r
  unfold agent
  rw [filterMap_ok_iff]
  constructor
  · rintro ⟨s, hs, hf⟩
    split at hf
    · cases hf; exact ⟨‹_›, (str_exact.can hs).2⟩
    · cases hf
  · rintro ⟨ha, rfl⟩
    exact ⟨a, str_exact.rt (agentOk_imp ha) r, by simp [ha]⟩

theorem filterSizes_lt {n : Nat} (h : n ∈ filterSizes) : n < 65536 := by
  simp [filterSizes] at h
  omega

theorem filter_exact :
    Exact (fun f : Bytes => f.length ∈ filterSizes) (fun f => encU16 f.length ++ f) filter := by
  intro b a r
  unfold filter
  rw [bind_ok_iff]
  constructor
  · rintro ⟨size, r1, hl, h⟩
    obtain ⟨_, rfl⟩ := u16_exact.can hl
    split at h
    · rename_i hs
      obtain ⟨ha, rfl⟩ := take_ok_iff.mp h
      exact ⟨by show a.length ∈ filterSizes; rw [ha]; exact hs, by simp [ha]⟩
    · cases h
  · rintro ⟨ha, rfl⟩
    refine ⟨a.length, a ++ r, ?_, ?_⟩
    · have := u16_exact.rt (a := a.length) (filterSizes_lt ha) (a ++ r)
      simpa using this
    · simp [ha, take_append]

theorem boundedVec_exact {α : Type} {wf : α → Prop} {e : α → Bytes} {d : Dec α} (h : Exact wf e d)
    {N : Nat} (hN : N < 65536) :
    Exact (fun l : List α => l.length ≤ N ∧ ∀ a ∈ l, wf a) (encVec e) (boundedVec N d) := by
  intro b l r
  unfold boundedVec
  rw [bind_ok_iff]
  constructor
  · rintro ⟨len, r1, hl, hc⟩
    obtain ⟨_, rfl⟩ := u16_exact.can hl
    split at hc
    · rename_i hle
      obtain ⟨hlen, hw, rfl⟩ := (count_ok_iff h).mp hc
      exact ⟨⟨by omega, hw⟩, by simp [encVec, hlen]⟩
    · cases hc
  · rintro ⟨⟨hl, hw⟩, rfl⟩
    refine ⟨l.length, (l.map e).flatten ++ r, ?_, ?_⟩
    · have := u16_exact.rt (a := l.length) (by omega) ((l.map e).flatten ++ r)
      simpa [encVec] using this
    · simp only [hl, if_true]
      exact (count_ok_iff h).mpr ⟨rfl, hw, rfl⟩

theorem refsAt_exact : Exact RefsAt.Wf RefsAt.encode refsAt := by
  intro b x r
  unfold refsAt
  rw [bind_ok_iff]
  constructor
  · rintro ⟨rem, r1, hr, ha⟩
    obtain ⟨hw1, rfl⟩ := pubkey_exact.can hr
    rw [map_ok_iff] at ha
    obtain ⟨a, ha, rfl⟩ := ha
    obtain ⟨hw2, rfl⟩ := oid_exact.can ha
    exact ⟨⟨hw1, hw2⟩, by simp [RefsAt.encode]⟩
  · rintro ⟨⟨hw1, hw2⟩, rfl⟩
    refine ⟨x.remote, encOid x.at ++ r, ?_, ?_⟩
    · have := pubkey_exact.rt (a := x.remote) hw1 (encOid x.at ++ r)
      simpa [RefsAt.encode] using this
    · rw [map_ok_iff]
      exact ⟨x.at, oid_exact.rt hw2 r, rfl⟩

theorem host_exact (env : Env) : Exact (Host.Wf env) Host.encode (host env) := by
  intro b x r
  unfold host
  rw [bind_ok_iff]
  constructor
  · rintro ⟨ty, r1, hty, h⟩
    obtain ⟨_, rfl⟩ := u8_exact.can hty
    split at h
    · rename_i h1; subst h1
      rw [map_ok_iff] at h
      obtain ⟨o, ho, rfl⟩ := h
      obtain ⟨hl, rfl⟩ := take_ok_iff.mp ho
      exact ⟨hl, by simp [Host.encode, beEnc]⟩
    · split at h
      · rename_i _ h2; subst h2
        rw [map_ok_iff] at h
        obtain ⟨o, ho, rfl⟩ := h
        obtain ⟨hl, rfl⟩ := take_ok_iff.mp ho
        exact ⟨hl, by simp [Host.encode, beEnc]⟩
      · split at h
        · rename_i _ _ h3; subst h3
          rw [map_ok_iff] at h
          obtain ⟨n, hn, rfl⟩ := h
          obtain ⟨hw, rfl⟩ := str_exact.can hn
          exact ⟨hw, by simp [Host.encode, beEnc]⟩
        · split at h
          · rename_i _ _ _ h4; subst h4
            rw [filterMap_ok_iff] at h
            obtain ⟨raw, hraw, hf⟩ := h
            obtain ⟨hl, rfl⟩ := take_ok_iff.mp hraw
            split at hf
            · cases hf
              exact ⟨⟨hl, ‹_›⟩, by simp [Host.encode, beEnc]⟩
            · cases hf
          · cases h
  · rintro ⟨hw, rfl⟩
    cases x with
    | ipv4 o =>
      refine ⟨1, o ++ r, by simpa [Host.encode, beEnc] using u8_exact.rt (a := 1) (by decide) (o ++ r), ?_⟩
      simp only [if_true]
      rw [map_ok_iff]; exact ⟨o, take_append hw, rfl⟩
    | ipv6 o =>
      refine ⟨2, o ++ r, by simpa [Host.encode, beEnc] using u8_exact.rt (a := 2) (by decide) (o ++ r), ?_⟩
      simp only [show (2 : Nat) ≠ 1 by decide, if_false, if_true]
      rw [map_ok_iff]; exact ⟨o, take_append hw, rfl⟩
    | dns n =>
      refine ⟨3, encStr n ++ r,
        by simpa [Host.encode, beEnc] using u8_exact.rt (a := 3) (by decide) (encStr n ++ r), ?_⟩
      simp only [show (3 : Nat) ≠ 1 by decide, show (3 : Nat) ≠ 2 by decide, if_false, if_true]
      rw [map_ok_iff]; exact ⟨n, str_exact.rt hw r, rfl⟩
    | onion raw =>
      refine ⟨4, raw ++ r,
        by simpa [Host.encode, beEnc] using u8_exact.rt (a := 4) (by decide) (raw ++ r), ?_⟩
      simp only [show (4 : Nat) ≠ 1 by decide, show (4 : Nat) ≠ 2 by decide, show (4 : Nat) ≠ 3 by decide,
        if_false, if_true]
      rw [filterMap_ok_iff]; exact ⟨raw, take_append hw.1, by simp [hw.2]⟩

theorem address_exact (env : Env) : Exact (Addr.Wf env) Addr.encode (address env) := by
  intro b x r
  unfold address
  rw [bind_ok_iff]
  constructor
  · rintro ⟨h, r1, hh, hp⟩
    obtain ⟨hw1, rfl⟩ := (host_exact env).can hh
    rw [map_ok_iff] at hp
    obtain ⟨p, hp, rfl⟩ := hp
    obtain ⟨hw2, rfl⟩ := u16_exact.can hp
    exact ⟨⟨hw1, hw2⟩, by simp [Addr.encode]⟩
  · rintro ⟨⟨hw1, hw2⟩, rfl⟩
    refine ⟨x.host, encU16 x.port ++ r, ?_, ?_⟩
    · have := (host_exact env).rt hw1 (encU16 x.port ++ r)
      simpa [Addr.encode] using this
    · rw [map_ok_iff]
      exact ⟨x.port, u16_exact.rt hw2 r, rfl⟩

/-! ## Peeling one field off a decoder chain -/

theorem _root_.HeartwoodModel.Codec.Exact.bind_iff {α β : Type} {w : α → Prop} {e : α → Bytes} {d : Dec α}
    (h : Exact w e d) {f : α → Dec β} {b r : Bytes} {x : β} :
    d.bind f b = .ok x r ↔ ∃ a, w a ∧ ∃ b', b = e a ++ b' ∧ f a b' = .ok x r := by
  rw [bind_ok_iff]
  constructor
  · rintro ⟨a, r1, h1, h2⟩
    obtain ⟨hw, rfl⟩ := h.can h1
    exact ⟨a, hw, r1, rfl, h2⟩
  · rintro ⟨a, hw, b', rfl, h2⟩
    exact ⟨a, b', h.rt hw b', h2⟩

theorem _root_.HeartwoodModel.Codec.Exact.map_iff {α β : Type} {w : α → Prop} {e : α → Bytes} {d : Dec α}
    (h : Exact w e d) {g : α → β} {b r : Bytes} {x : β} :
    d.map g b = .ok x r ↔ ∃ a, w a ∧ b = e a ++ r ∧ g a = x := by
  rw [map_ok_iff]
  constructor
  · rintro ⟨a, h1, h2⟩
    obtain ⟨hw, rfl⟩ := h.can h1
    exact ⟨a, hw, rfl, h2⟩
  · rintro ⟨a, hw, rfl, h2⟩
    exact ⟨a, h.rt hw r, h2⟩

/-! ## The two lossy steps -/

theorem any_ne_zero_false {pad : Bytes} (h : pad.any (· ≠ 0) = false) :
    pad = List.replicate pad.length 0 := by
  induction pad with
  | nil => rfl
  | cons x xs ih =>
    simp only [List.any_cons, Bool.or_eq_false_iff, decide_eq_false_iff_not, ne_eq, Decidable.not_not] at h
    simp only [List.length_cons, List.replicate_succ]
    rw [← ih h.2, h.1]

theorem any_ne_zero_replicate (n : Nat) : (List.replicate n (0 : UInt8)).any (· ≠ 0) = false := by
  induction n with
  | zero => rfl
  | succ n ih => simp [List.replicate_succ, ih]

/-- `ZeroBytes::decode` accepts ANY `n` bytes after the count. -/
theorem zeroBytesG_iff {b r : Bytes} {n : Nat} {nz : Bool} :
    zeroBytesG b = .ok (n, nz) r ↔
      n < 65536 ∧ ∃ pad : Bytes, pad.length = n ∧ b = encU16 n ++ (pad ++ r) ∧ nz = pad.any (· ≠ 0) := by
  unfold zeroBytesG
  rw [u16_exact.bind_iff]
  constructor
  · rintro ⟨k, hk, b', rfl, h⟩
    rw [map_ok_iff] at h
    obtain ⟨pad, hp, hx⟩ := h
    obtain ⟨hl, rfl⟩ := take_ok_iff.mp hp
    simp only [Prod.mk.injEq] at hx
    obtain ⟨rfl, rfl⟩ := hx
    exact ⟨hk, pad, hl, rfl, rfl⟩
  · rintro ⟨hn, pad, hl, rfl, rfl⟩
    refine ⟨n, hn, pad ++ r, rfl, ?_⟩
    rw [map_ok_iff]
    exact ⟨pad, take_append hl, rfl⟩

/-- The trailing user agent: present and valid, or nothing at all follows the nonce. -/
theorem agentOrDefault_iff {b r : Bytes} {ua : Bytes} {dflt : Bool} :
    agentOrDefault b = .ok (ua, dflt) r ↔
      (dflt = false ∧ agentOk ua = true ∧ b = encStr ua ++ r) ∨
      (dflt = true ∧ ua = defaultAgent ∧ r = [] ∧ b = []) := by
  unfold agentOrDefault
  cases b with
  | nil =>
    simp only [Res.ok.injEq, Prod.mk.injEq, and_true]
    constructor
    · rintro ⟨⟨rfl, rfl⟩, rfl⟩
      exact Or.inr ⟨rfl, rfl, rfl⟩
    · rintro (⟨_, _, h⟩ | ⟨rfl, rfl, rfl⟩)
      · simp [encStr, beEnc] at h
      · exact ⟨⟨rfl, rfl⟩, rfl⟩
  | cons x xs =>
    simp only [reduceCtorEq, and_false, or_false]
    rw [agent_exact.map_iff]
    constructor
    · rintro ⟨a, ha, hb, hx⟩
      simp only [Prod.mk.injEq] at hx
      obtain ⟨rfl, rfl⟩ := hx
      exact ⟨rfl, ha, hb⟩
    · rintro ⟨rfl, ha, hb⟩
      exact ⟨ua, ha, hb, rfl⟩

/-! ## Message bodies -/

theorem addrVec_exact (env : Env) :
    Exact (fun l : List Addr => l.length ≤ ADDRESS_LIMIT ∧ ∀ a ∈ l, a.Wf env) (encVec Addr.encode)
      (boundedVec ADDRESS_LIMIT (address env)) :=
  boundedVec_exact (address_exact env) (by decide)

theorem invVec_exact :
    Exact (fun l : List Bytes => l.length ≤ INVENTORY_LIMIT ∧ ∀ o ∈ l, o.length = 20) (encVec encOid)
      (boundedVec INVENTORY_LIMIT oid) :=
  boundedVec_exact oid_exact (by decide)

theorem refsVec_exact :
    Exact (fun l : List RefsAt => l.length ≤ REF_REMOTE_LIMIT ∧ ∀ x ∈ l, x.Wf) (encVec RefsAt.encode)
      (boundedVec REF_REMOTE_LIMIT refsAt) :=
  boundedVec_exact refsAt_exact (by decide)

theorem subscribeBody_iff {b r : Bytes} {x : Msg × Ghost} :
    subscribeBody b = .ok x r ↔
      ∃ f s u, Wf ⟨fun _ => false⟩ (.subscribe f s u) ∧ x = (.subscribe f s u, {}) ∧
        b = (Msg.subscribe f s u).encodeBody ++ r := by
  simp only [subscribeBody, filter_exact.bind_iff, timestamp_exact.bind_iff, timestamp_exact.map_iff]
  constructor
  · rintro ⟨f, hf, _, rfl, s, hs, _, rfl, u, hu, rfl, rfl⟩
    exact ⟨f, s, u, ⟨hf, hs, hu⟩, rfl, by simp [Msg.encodeBody]⟩
  · rintro ⟨f, s, u, ⟨hf, hs, hu⟩, rfl, rfl⟩
    exact ⟨f, hf, _, by simp [Msg.encodeBody], s, hs, _, rfl, u, hu, rfl, rfl⟩

theorem invAnnBody_iff {b r : Bytes} {x : Msg × Ghost} :
    invAnnBody b = .ok x r ↔
      ∃ node sig inv ts, Wf ⟨fun _ => false⟩ (.invAnn node sig inv ts) ∧ x = (.invAnn node sig inv ts, {}) ∧
        b = (Msg.invAnn node sig inv ts).encodeBody ++ r := by
  simp only [invAnnBody, pubkey_exact.bind_iff, signature_exact.bind_iff, invVec_exact.bind_iff,
    timestamp_exact.map_iff]
  constructor
  · rintro ⟨node, hn, _, rfl, sig, hs, _, rfl, inv, hi, _, rfl, ts, ht, rfl, rfl⟩
    exact ⟨node, sig, inv, ts, ⟨hn, hs, hi.1, hi.2, ht⟩, rfl, by simp [Msg.encodeBody]⟩
  · rintro ⟨node, sig, inv, ts, ⟨hn, hs, hi1, hi2, ht⟩, rfl, rfl⟩
    exact ⟨node, hn, _, by simp [Msg.encodeBody], sig, hs, _, rfl, inv, ⟨hi1, hi2⟩, _, rfl, ts, ht, rfl, rfl⟩

theorem refsAnnBody_iff {b r : Bytes} {x : Msg × Ghost} :
    refsAnnBody b = .ok x r ↔
      ∃ node sig rid refs ts, Wf ⟨fun _ => false⟩ (.refsAnn node sig rid refs ts) ∧
        x = (.refsAnn node sig rid refs ts, {}) ∧
        b = (Msg.refsAnn node sig rid refs ts).encodeBody ++ r := by
  simp only [refsAnnBody, pubkey_exact.bind_iff, signature_exact.bind_iff, oid_exact.bind_iff,
    refsVec_exact.bind_iff, timestamp_exact.map_iff]
  constructor
  · rintro ⟨node, hn, _, rfl, sig, hs, _, rfl, rid, hr, _, rfl, refs, hi, _, rfl, ts, ht, rfl, rfl⟩
    exact ⟨node, sig, rid, refs, ts, ⟨hn, hs, hr, hi.1, hi.2, ht⟩, rfl, by simp [Msg.encodeBody]⟩
  · rintro ⟨node, sig, rid, refs, ts, ⟨hn, hs, hr, hi1, hi2, ht⟩, rfl, rfl⟩
    exact ⟨node, hn, _, by simp [Msg.encodeBody], sig, hs, _, rfl, rid, hr, _, rfl, refs, ⟨hi1, hi2⟩, _, rfl,
      ts, ht, rfl, rfl⟩

theorem infoBody_iff {b r : Bytes} {x : Msg × Ghost} :
    infoBody b = .ok x r ↔
      ∃ rid a, Wf ⟨fun _ => false⟩ (.info rid a) ∧ x = (.info rid a, {}) ∧
        b = (Msg.info rid a).encodeBody ++ r := by
  simp only [infoBody, u16_exact.bind_iff]
  constructor
  · rintro ⟨ty, hty, b', rfl, h⟩
    split at h
    · rename_i h1; subst h1
      simp only [oid_exact.bind_iff, oid_exact.map_iff] at h
      obtain ⟨rid, hr, _, rfl, a, ha, rfl, rfl⟩ := h
      exact ⟨rid, a, ⟨hr, ha⟩, rfl, by simp [Msg.encodeBody]⟩
    · cases h
  · rintro ⟨rid, a, ⟨hr, ha⟩, rfl, rfl⟩
    refine ⟨1, by decide, encOid rid ++ (encOid a ++ r), by simp [Msg.encodeBody], ?_⟩
    simp only [if_true, oid_exact.bind_iff, oid_exact.map_iff]
    exact ⟨rid, hr, _, rfl, a, ha, rfl, rfl⟩

/-- Ping: any padding is accepted; the ghost flag says whether it was all zero. -/
theorem pingBody_iff {b r : Bytes} {x : Msg × Ghost} :
    pingBody b = .ok x r ↔
      ∃ p, p < 65536 ∧ ∃ pad : Bytes, pad.length < 65536 ∧
        x = (.ping p pad.length, { padNonZero := pad.any (· ≠ 0) }) ∧
        b = encU16 p ++ (encU16 pad.length ++ (pad ++ r)) := by
  simp only [pingBody, u16_exact.bind_iff]
  constructor
  · rintro ⟨p, hp, b', rfl, h⟩
    rw [map_ok_iff] at h
    obtain ⟨⟨n, nz⟩, hz, rfl⟩ := h
    obtain ⟨hn, pad, hl, rfl, rfl⟩ := zeroBytesG_iff.mp hz
    subst hl
    exact ⟨p, hp, pad, hn, rfl, rfl⟩
  · rintro ⟨p, hp, pad, hl, rfl, rfl⟩
    refine ⟨p, hp, _, rfl, ?_⟩
    rw [map_ok_iff]
    exact ⟨(pad.length, pad.any (· ≠ 0)), zeroBytesG_iff.mpr ⟨hl, pad, rfl, rfl, rfl⟩, rfl⟩

theorem pongBody_iff {b r : Bytes} {x : Msg × Ghost} :
    pongBody b = .ok x r ↔
      ∃ pad : Bytes, pad.length < 65536 ∧
        x = (.pong pad.length, { padNonZero := pad.any (· ≠ 0) }) ∧
        b = encU16 pad.length ++ (pad ++ r) := by
  unfold pongBody
  rw [map_ok_iff]
  constructor
  · rintro ⟨⟨n, nz⟩, hz, rfl⟩
    obtain ⟨hn, pad, hl, rfl, rfl⟩ := zeroBytesG_iff.mp hz
    subst hl
    exact ⟨pad, hn, rfl, rfl⟩
  · rintro ⟨pad, hl, rfl, rfl⟩
    exact ⟨(pad.length, pad.any (· ≠ 0)), zeroBytesG_iff.mpr ⟨hl, pad, rfl, rfl, rfl⟩, rfl⟩

/-- Everything of a node announcement before the user agent. -/
def nodeAnnHead (node sig : Bytes) (v feat ts : Nat) (al : Bytes) (addrs : List Addr) (nonce : Nat) : Bytes :=
  node ++ (sig ++ (beEnc 1 v ++ (encU64 feat ++ (encU64 ts ++ (encStr al ++
    (encVec Addr.encode addrs ++ encU64 nonce))))))

theorem nodeAnnBody_iff (env : Env) {b r : Bytes} {x : Msg × Ghost} :
    nodeAnnBody env b = .ok x r ↔
      ∃ node sig v feat ts al addrs nonce ua dflt tail,
        Wf env (.nodeAnn node sig v feat ts al addrs nonce defaultAgent) ∧
        x = (.nodeAnn node sig v feat ts al addrs nonce ua, { agentDefaulted := dflt }) ∧
        b = nodeAnnHead node sig v feat ts al addrs nonce ++ tail ∧
        ((dflt = false ∧ agentOk ua = true ∧ tail = encStr ua ++ r) ∨
         (dflt = true ∧ ua = defaultAgent ∧ r = [] ∧ tail = [])) := by
  simp only [nodeAnnBody, pubkey_exact.bind_iff, signature_exact.bind_iff, u8_exact.bind_iff,
    u64_exact.bind_iff, timestamp_exact.bind_iff, alias_exact.bind_iff, (addrVec_exact env).bind_iff]
  constructor
  · rintro ⟨node, hn, _, rfl, sig, hs, _, rfl, v, hv, _, rfl, feat, hf, _, rfl, ts, ht, _, rfl, al, hal, _, rfl,
      addrs, had, _, rfl, nonce, hno, tail, rfl, h⟩
    rw [map_ok_iff] at h
    obtain ⟨⟨ua, dflt⟩, hag, rfl⟩ := h
    refine ⟨node, sig, v, feat, ts, al, addrs, nonce, ua, dflt, tail,
      ⟨hn, hs, hv, hf, ht, hal, had.1, had.2, hno, by decide⟩, rfl, ?_, agentOrDefault_iff.mp hag⟩
    simp [nodeAnnHead]
  · rintro ⟨node, sig, v, feat, ts, al, addrs, nonce, ua, dflt, tail,
      ⟨hn, hs, hv, hf, ht, hal, had1, had2, hno, _⟩, rfl, rfl, hag⟩
    refine ⟨node, hn, _, by simp [nodeAnnHead], sig, hs, _, rfl, v, hv, _, rfl, feat, hf, _, rfl, ts, ht, _, rfl,
      al, hal, _, rfl, addrs, ⟨had1, had2⟩, _, rfl, nonce, hno, tail, rfl, ?_⟩
    rw [map_ok_iff]
    exact ⟨(ua, dflt), agentOrDefault_iff.mpr hag, rfl⟩

/-! ## Whole messages -/

theorem typeId_lt (m : Msg) : m.typeId < 65536 := by cases m <;> simp [Msg.typeId]

theorem agentOk_default : agentOk defaultAgent = true := by decide

/-- **Round trip** (with the ghost record): a well-formed message followed by anything decodes to itself,
cleanly, leaving the rest. -/
theorem decodeMsgG_encode (env : Env) (m : Msg) (hm : Wf env m) (r : Bytes) :
    decodeMsgG env (m.encode ++ r) = .ok (m, {}) r := by
  unfold decodeMsgG
  rw [u16_exact.bind_iff]
  refine ⟨m.typeId, typeId_lt m, m.encodeBody ++ r, by simp [Msg.encode], ?_⟩
  cases m with
  | subscribe f s u =>
    have : bodyOf env (Msg.subscribe f s u).typeId = subscribeBody := rfl
    rw [this, subscribeBody_iff]
    exact ⟨f, s, u, hm, rfl, rfl⟩
  | nodeAnn node sig v feat ts al addrs nonce ua =>
    have : bodyOf env (Msg.nodeAnn node sig v feat ts al addrs nonce ua).typeId = nodeAnnBody env := rfl
    rw [this, nodeAnnBody_iff]
    obtain ⟨h1, h2, h3, h4, h5, h6, h7, h8, h9, h10⟩ := hm
    refine ⟨node, sig, v, feat, ts, al, addrs, nonce, ua, false, encStr ua ++ r,
      ⟨h1, h2, h3, h4, h5, h6, h7, h8, h9, agentOk_default⟩, rfl, ?_, Or.inl ⟨rfl, h10, rfl⟩⟩
    simp [Msg.encodeBody, nodeAnnHead]
  | invAnn node sig inv ts =>
    have : bodyOf env (Msg.invAnn node sig inv ts).typeId = invAnnBody := rfl
    rw [this, invAnnBody_iff]
    exact ⟨node, sig, inv, ts, hm, rfl, rfl⟩
  | refsAnn node sig rid refs ts =>
    have : bodyOf env (Msg.refsAnn node sig rid refs ts).typeId = refsAnnBody := rfl
    rw [this, refsAnnBody_iff]
    exact ⟨node, sig, rid, refs, ts, hm, rfl, rfl⟩
  | info rid a =>
    have : bodyOf env (Msg.info rid a).typeId = infoBody := rfl
    rw [this, infoBody_iff]
    exact ⟨rid, a, hm, rfl, rfl⟩
  | ping p z =>
    have : bodyOf env (Msg.ping p z).typeId = pingBody := rfl
    rw [this, pingBody_iff]
    obtain ⟨hp, hz⟩ := hm
    refine ⟨p, hp, List.replicate z 0, by simp [MAX_PING_ZEROES] at hz ⊢; omega, ?_, ?_⟩
    · simp [any_ne_zero_replicate]
    · simp [Msg.encodeBody, encZeroes]
  | pong z =>
    have : bodyOf env (Msg.pong z).typeId = pongBody := rfl
    rw [this, pongBody_iff]
    refine ⟨List.replicate z 0, by simp [Wf, MAX_PONG_ZEROES] at hm ⊢; omega, ?_, ?_⟩
    · simp [any_ne_zero_replicate]
    · simp [Msg.encodeBody, encZeroes]

theorem decodeMsg_encode (env : Env) (m : Msg) (hm : Wf env m) (r : Bytes) :
    decodeMsg env (m.encode ++ r) = .ok m r := by
  simp [decodeMsg, Dec.map, decodeMsgG_encode env m hm r]

/-- What a successful decode says about the input, per message type. -/
theorem decodeMsgG_cases (env : Env) {b r : Bytes} {m : Msg} {g : Ghost}
    (h : decodeMsgG env b = .ok (m, g) r) :
    (g = {} ∧ b = m.encode ++ r) ∨
    (∃ p, ∃ pad : Bytes, pad.length < 65536 ∧ m = .ping p pad.length ∧
      g = { padNonZero := pad.any (· ≠ 0) } ∧ b = encU16 10 ++ (encU16 p ++ (encU16 pad.length ++ (pad ++ r)))) ∨
    (∃ pad : Bytes, pad.length < 65536 ∧ m = .pong pad.length ∧
      g = { padNonZero := pad.any (· ≠ 0) } ∧ b = encU16 12 ++ (encU16 pad.length ++ (pad ++ r))) ∨
    (∃ node sig v feat ts al addrs nonce,
      m = .nodeAnn node sig v feat ts al addrs nonce defaultAgent ∧ g = { agentDefaulted := true } ∧
      r = [] ∧ b = encU16 2 ++ nodeAnnHead node sig v feat ts al addrs nonce) := by
  unfold decodeMsgG at h
  rw [u16_exact.bind_iff] at h
  obtain ⟨ty, hty, b', rfl, h⟩ := h
  unfold bodyOf at h
  split at h
  · rename_i h1; subst h1
    obtain ⟨f, s, u, _, hx, rfl⟩ := subscribeBody_iff.mp h
    cases hx
    exact Or.inl ⟨rfl, by simp [Msg.encode, Msg.typeId]⟩
  split at h
  · rename_i _ h1; subst h1
    obtain ⟨node, sig, v, feat, ts, al, addrs, nonce, ua, dflt, tail, _, hx, rfl, hag⟩ :=
      (nodeAnnBody_iff env).mp h
    cases hx
    rcases hag with ⟨rfl, _, rfl⟩ | ⟨rfl, rfl, rfl, rfl⟩
    · exact Or.inl ⟨rfl, by simp [Msg.encode, Msg.typeId, Msg.encodeBody, nodeAnnHead]⟩
    · exact Or.inr (Or.inr (Or.inr ⟨node, sig, v, feat, ts, al, addrs, nonce, rfl, rfl, rfl, by simp⟩))
  split at h
  · rename_i _ _ h1; subst h1
    obtain ⟨node, sig, inv, ts, _, hx, rfl⟩ := invAnnBody_iff.mp h
    cases hx
    exact Or.inl ⟨rfl, by simp [Msg.encode, Msg.typeId]⟩
  split at h
  · rename_i _ _ _ h1; subst h1
    obtain ⟨node, sig, rid, refs, ts, _, hx, rfl⟩ := refsAnnBody_iff.mp h
    cases hx
    exact Or.inl ⟨rfl, by simp [Msg.encode, Msg.typeId]⟩
  split at h
  · rename_i _ _ _ _ h1; subst h1
    obtain ⟨rid, a, _, hx, rfl⟩ := infoBody_iff.mp h
    cases hx
    exact Or.inl ⟨rfl, by simp [Msg.encode, Msg.typeId]⟩
  split at h
  · rename_i _ _ _ _ _ h1; subst h1
    obtain ⟨p, hp, pad, hl, hx, rfl⟩ := pingBody_iff.mp h
    cases hx
    exact Or.inr (Or.inl ⟨p, pad, hl, rfl, rfl, rfl⟩)
  split at h
  · rename_i _ _ _ _ _ _ h1; subst h1
    obtain ⟨pad, hl, hx, rfl⟩ := pongBody_iff.mp h
    cases hx
    exact Or.inr (Or.inr (Or.inl ⟨pad, hl, rfl, rfl, rfl⟩))
  · cases h

/-- **Canonicity, exactly**: a decode is clean (no padding byte was non-zero, the user agent was not
defaulted) if and only if the input is the encoding of the decoded message followed by the rest. -/
theorem decodeMsgG_canonical_iff (env : Env) {b r : Bytes} {m : Msg} {g : Ghost}
    (h : decodeMsgG env b = .ok (m, g) r) : g.clean = true ↔ b = m.encode ++ r := by
  rcases decodeMsgG_cases env h with ⟨rfl, hb⟩ | ⟨p, pad, hl, rfl, rfl, rfl⟩ | ⟨pad, hl, rfl, rfl, rfl⟩ |
    ⟨node, sig, v, feat, ts, al, addrs, nonce, rfl, rfl, rfl, rfl⟩
  · simp [Ghost.clean, hb]
  · simp only [Ghost.clean, Bool.not_false, Bool.and_true, Bool.not_eq_true']
    constructor
    · intro hz
      rw [any_ne_zero_false hz]
      simp [Msg.encode, Msg.typeId, Msg.encodeBody, encZeroes]
    · intro hb
      simp only [Msg.encode, Msg.typeId, Msg.encodeBody, encZeroes, List.append_assoc,
        List.append_cancel_left_eq] at hb
      have := List.append_inj_left hb (by simp)
      rw [this]; exact any_ne_zero_replicate _
  · simp only [Ghost.clean, Bool.not_false, Bool.and_true, Bool.not_eq_true']
    constructor
    · intro hz
      rw [any_ne_zero_false hz]
      simp [Msg.encode, Msg.typeId, Msg.encodeBody, encZeroes]
    · intro hb
      simp only [Msg.encode, Msg.typeId, Msg.encodeBody, encZeroes, List.append_assoc,
        List.append_cancel_left_eq] at hb
      have := List.append_inj_left hb (by simp)
      rw [this]; exact any_ne_zero_replicate _
  · simp only [Ghost.clean, Bool.not_true, Bool.and_false, Bool.false_eq_true, false_iff]
    intro hb
    have hl := congrArg List.length hb
    simp [Msg.encode, Msg.typeId, Msg.encodeBody, nodeAnnHead, encStr, defaultAgent, length_beEnc] at hl

/-! ## Size -/

theorem length_encU16 (n : Nat) : (encU16 n).length = 2 := length_beEnc 2 n
theorem length_encU64 (n : Nat) : (encU64 n).length = 8 := length_beEnc 8 n

theorem flatten_map_length_le {α : Type} (e : α → Bytes) (c : Nat) (l : List α)
    (h : ∀ a ∈ l, (e a).length ≤ c) : ((l.map e).flatten).length ≤ l.length * c := by
  induction l with
  | nil => simp
  | cons a l ih =>
    have h1 := h a (by simp)
    have h2 := ih (fun x hx => h x (by simp [hx]))
    simp only [List.map_cons, List.flatten_cons, List.length_append, List.length_cons]
    rw [Nat.add_mul]
    omega

theorem length_addr_le (env : Env) (a : Addr) (h : a.Wf env) : a.encode.length ≤ 260 := by
  obtain ⟨hh, _⟩ := h
  unfold Addr.encode
  rw [List.length_append, length_encU16]
  cases hhost : a.host with
  | ipv4 o => rw [hhost] at hh; simp only [Host.Wf] at hh; simp [Host.encode]; omega
  | ipv6 o => rw [hhost] at hh; simp only [Host.Wf] at hh; simp [Host.encode]; omega
  | dns n =>
    rw [hhost] at hh; simp only [Host.Wf] at hh
    simp [Host.encode, encStr, length_beEnc]; omega
  | onion raw => rw [hhost] at hh; simp only [Host.Wf] at hh; simp [Host.encode]; omega

/-- **Size**: every well-formed message encodes within `wire::Size::MAX = 65 535` bytes. -/
theorem encode_length_le (env : Env) (m : Msg) (hm : Wf env m) : m.encode.length ≤ 65535 := by
  cases m with
  | subscribe f s u =>
    obtain ⟨hf, _, _⟩ := hm
    have := filterSizes_lt hf
    simp only [filterSizes, List.mem_cons, List.mem_nil_iff, or_false] at hf
    simp [Msg.encode, Msg.encodeBody, length_encU16, length_encU64]
    omega
  | nodeAnn node sig v feat ts al addrs nonce ua =>
    obtain ⟨h1, h2, _, _, _, h6, h7, h8, _, h10⟩ := hm
    have ha := aliasOk_length h6
    have hu := agentOk_length h10
    have hv := flatten_map_length_le Addr.encode 260 addrs (fun a ha => length_addr_le env a (h8 a ha))
    simp only [ADDRESS_LIMIT] at h7
    simp only [Msg.encode, Msg.typeId, Msg.encodeBody, encStr, encVec, List.length_append, length_encU16,
      length_encU64, length_beEnc, h1, h2]
    have : addrs.length * 260 ≤ 16 * 260 := Nat.mul_le_mul_right _ h7
    omega
  | invAnn node sig inv ts =>
    obtain ⟨h1, h2, h3, h4, _⟩ := hm
    have hv := flatten_map_length_le encOid 22 inv
      (fun o ho => by simp [encOid, length_encU16, h4 o ho])
    simp only [INVENTORY_LIMIT] at h3
    simp only [Msg.encode, Msg.typeId, Msg.encodeBody, encVec, List.length_append, length_encU16,
      length_encU64, h1, h2]
    have : inv.length * 22 ≤ 2973 * 22 := Nat.mul_le_mul_right _ h3
    omega
  | refsAnn node sig rid refs ts =>
    obtain ⟨h1, h2, h3, h4, h5, _⟩ := hm
    have hv := flatten_map_length_le RefsAt.encode 54 refs
      (fun x hx => by
        obtain ⟨hx1, hx2⟩ := h5 x hx
        simp [RefsAt.encode, encOid, length_encU16, hx1, hx2])
    simp only [REF_REMOTE_LIMIT] at h4
    simp only [Msg.encode, Msg.typeId, Msg.encodeBody, encVec, encOid, List.length_append, length_encU16,
      length_encU64, h1, h2, h3]
    have : refs.length * 54 ≤ 1024 * 54 := Nat.mul_le_mul_right _ h4
    omega
  | info rid a =>
    obtain ⟨h1, h2⟩ := hm
    simp [Msg.encode, Msg.encodeBody, length_encU16, encOid, h1, h2]
  | ping p z =>
    obtain ⟨_, hz⟩ := hm
    simp only [MAX_PING_ZEROES] at hz
    simp [Msg.encode, Msg.encodeBody, length_encU16, encZeroes]
    omega
  | pong z =>
    simp only [Wf, MAX_PONG_ZEROES] at hm
    simp [Msg.encode, Msg.encodeBody, length_encU16, encZeroes]
    omega

theorem strsOk_of_wf (env : Env) (m : Msg) (hm : Wf env m) : m.strsOk = true := by
  cases m with
  | nodeAnn node sig v feat ts al addrs nonce ua =>
    obtain ⟨_, _, _, _, _, h6, _, h8, _, h10⟩ := hm
    have ha := aliasOk_length h6
    have hu := agentOk_length h10
    simp only [Msg.strsOk, Bool.and_eq_true, decide_eq_true_eq, List.all_eq_true]
    refine ⟨⟨by omega, by omega⟩, ?_⟩
    intro a hmem
    have := (h8 a hmem).1
    cases hhost : a.host with
    | dns n => rw [hhost] at this; simp only [Host.Wf] at this; simp [this.1]
    | _ => simp
  | _ => rfl

/-- `wire::serialize` does not panic on a well-formed message. -/
theorem serialize?_of_wf (env : Env) (m : Msg) (hm : Wf env m) : m.serialize? = some m.encode := by
  unfold Msg.serialize?
  rw [if_pos]
  simp [strsOk_of_wf env m hm, encode_length_le env m hm]

/-- Every string of a decoded message fits its `u8` length prefix: re-encoding it cannot hit the
`assert!(self.len() <= u8::MAX)` of `&str::encode`. -/
theorem decodeMsgG_strsOk (env : Env) {b r : Bytes} {m : Msg} {g : Ghost}
    (h : decodeMsgG env b = .ok (m, g) r) : m.strsOk = true := by
  unfold decodeMsgG at h
  rw [u16_exact.bind_iff] at h
  obtain ⟨ty, hty, b', rfl, h⟩ := h
  unfold bodyOf at h
  split at h
  · obtain ⟨f, s, u, _, hx, _⟩ := subscribeBody_iff.mp h
    cases hx; rfl
  split at h
  · obtain ⟨node, sig, v, feat, ts, al, addrs, nonce, ua, dflt, tail, hwf, hx, _, hag⟩ :=
      (nodeAnnBody_iff env).mp h
    cases hx
    have hua : agentOk ua = true := by
      rcases hag with ⟨_, hu, _⟩ | ⟨_, rfl, _, _⟩
      · exact hu
      · exact agentOk_default
    obtain ⟨h1, h2, h3, h4, h5, h6, h7, h8, h9, _⟩ := hwf
    exact strsOk_of_wf env _ ⟨h1, h2, h3, h4, h5, h6, h7, h8, h9, hua⟩
  split at h
  · obtain ⟨node, sig, inv, ts, _, hx, _⟩ := invAnnBody_iff.mp h
    cases hx; rfl
  split at h
  · obtain ⟨node, sig, rid, refs, ts, _, hx, _⟩ := refsAnnBody_iff.mp h
    cases hx; rfl
  split at h
  · obtain ⟨rid, a, _, hx, _⟩ := infoBody_iff.mp h
    cases hx; rfl
  split at h
  · obtain ⟨p, hp, pad, hl, hx, _⟩ := pingBody_iff.mp h
    cases hx; rfl
  split at h
  · obtain ⟨pad, hl, hx, _⟩ := pongBody_iff.mp h
    cases hx; rfl
  · cases h

/-- The signed part of an announcement is what follows type id, node id and signature. -/
theorem encode_signedPart {m : Msg} {s : Bytes} (h : m.signedPart = some s) :
    ∃ node sig : Bytes, m.encode = encU16 m.typeId ++ (node ++ (sig ++ s)) ∧
      (∀ env, Wf env m → node.length = 32 ∧ sig.length = 64) := by
  cases m with
  | nodeAnn node sig v feat ts al addrs nonce ua =>
    simp only [Msg.signedPart, Option.some.injEq] at h
    subst h
    exact ⟨node, sig, by simp [Msg.encode, Msg.encodeBody], fun env hw => ⟨hw.1, hw.2.1⟩⟩
  | invAnn node sig inv ts =>
    simp only [Msg.signedPart, Option.some.injEq] at h
    subst h
    exact ⟨node, sig, by simp [Msg.encode, Msg.encodeBody], fun env hw => ⟨hw.1, hw.2.1⟩⟩
  | refsAnn node sig rid refs ts =>
    simp only [Msg.signedPart, Option.some.injEq] at h
    subst h
    exact ⟨node, sig, by simp [Msg.encode, Msg.encodeBody], fun env hw => ⟨hw.1, hw.2.1⟩⟩
  | subscribe _ _ _ => simp [Msg.signedPart] at h
  | info _ _ => simp [Msg.signedPart] at h
  | ping _ _ => simp [Msg.signedPart] at h
  | pong _ => simp [Msg.signedPart] at h

/-! ## No panics (C13a) -/

theorem timestamp_no_panic : NoPanic timestamp := (NoPanic.beNat 8).filterMap _
theorem oid_no_panic : NoPanic oid := by
  apply (NoPanic.beNat 2).bind; intro len; split
  · exact NoPanic.take _
  · exact NoPanic.fail
theorem str_no_panic : NoPanic str := ((NoPanic.beNat 1).bind fun n => NoPanic.take n).filterMap _
theorem alias_no_panic : NoPanic alias := str_no_panic.filterMap _
theorem agent_no_panic : NoPanic agent := str_no_panic.filterMap _
theorem filter_no_panic : NoPanic filter := by
  apply (NoPanic.beNat 2).bind; intro len; split
  · exact NoPanic.take _
  · exact NoPanic.fail
theorem boundedVec_no_panic {α : Type} {d : Dec α} (h : NoPanic d) (N : Nat) : NoPanic (boundedVec N d) := by
  apply (NoPanic.beNat 2).bind; intro len; split
  · exact h.count _
  · exact NoPanic.fail
theorem host_no_panic (env : Env) : NoPanic (host env) := by
  apply (NoPanic.beNat 1).bind; intro ty
  split
  · exact (NoPanic.take _).map _
  split
  · exact (NoPanic.take _).map _
  split
  · exact str_no_panic.map _
  split
  · exact (NoPanic.take _).filterMap _
  · exact NoPanic.fail
theorem address_no_panic (env : Env) : NoPanic (address env) :=
  (host_no_panic env).bind fun _ => (NoPanic.beNat 2).map _
theorem refsAt_no_panic : NoPanic refsAt := (NoPanic.take 32).bind fun _ => oid_no_panic.map _
theorem zeroBytesG_no_panic : NoPanic zeroBytesG := (NoPanic.beNat 2).bind fun n => (NoPanic.take n).map _
theorem agentOrDefault_no_panic : NoPanic agentOrDefault := by
  intro b s
  unfold agentOrDefault
  cases b with
  | nil => simp
  | cons x xs => exact (agent_no_panic.map _) _ s

theorem bodyOf_no_panic (env : Env) (ty : Nat) : NoPanic (bodyOf env ty) := by
  unfold bodyOf
  split
  · exact filter_no_panic.bind fun _ => timestamp_no_panic.bind fun _ => timestamp_no_panic.map _
  split
  · exact (NoPanic.take 32).bind fun _ => (NoPanic.take 64).bind fun _ => (NoPanic.beNat 1).bind fun _ =>
      (NoPanic.beNat 8).bind fun _ => timestamp_no_panic.bind fun _ => alias_no_panic.bind fun _ =>
      (boundedVec_no_panic (address_no_panic env) _).bind fun _ => (NoPanic.beNat 8).bind fun _ =>
      agentOrDefault_no_panic.map _
  split
  · exact (NoPanic.take 32).bind fun _ => (NoPanic.take 64).bind fun _ =>
      (boundedVec_no_panic oid_no_panic _).bind fun _ => timestamp_no_panic.map _
  split
  · exact (NoPanic.take 32).bind fun _ => (NoPanic.take 64).bind fun _ => oid_no_panic.bind fun _ =>
      (boundedVec_no_panic refsAt_no_panic _).bind fun _ => timestamp_no_panic.map _
  split
  · apply (NoPanic.beNat 2).bind; intro t; split
    · exact oid_no_panic.bind fun _ => oid_no_panic.map _
    · exact NoPanic.fail
  split
  · exact (NoPanic.beNat 2).bind fun _ => zeroBytesG_no_panic.map _
  split
  · exact zeroBytesG_no_panic.map _
  · exact NoPanic.fail

/-- Message decoding never panics. -/
theorem decodeMsgG_no_panic (env : Env) : NoPanic (decodeMsgG env) :=
  (NoPanic.beNat 2).bind (bodyOf_no_panic env)

theorem decodeMsg_no_panic (env : Env) : NoPanic (decodeMsg env) := (decodeMsgG_no_panic env).map _

end HeartwoodModel.Wire
