import HeartwoodModel.Driver.Loop
import HeartwoodModel.Driver.C04
def main : IO Unit := HeartwoodModel.Driver.driverMain "C04" HeartwoodModel.Driver.C04.run
