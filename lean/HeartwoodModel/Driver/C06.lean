import HeartwoodModel.Model.ChangeGraph
import HeartwoodModel.Driver.Util
import HeartwoodModel.Driver.C05
/-! Driver entry for C06. Case: `<changes> <tips> ord=<ranks>` (syntax of `Driver/C05.lean`, one tip
set). Output: `<evaluation of the whole history>=><evaluation of the surviving history on its own>`
(the second is `-` when the first is not an object). The surviving history is loaded through the tips
of the pruned graph, as the harness does with the real code. -/
namespace HeartwoodModel.Driver.C06
open HeartwoodModel.Dag HeartwoodModel.ChangeGraph HeartwoodModel.Driver.Util HeartwoodModel.Driver.C05

def run (args : List String) : String :=
  match args with
  | [changes, tips, ord] =>
    match parseCase changes ord, parseRefs tips ',' with
    | some c, some tips =>
      let full := evalTips c (issueApply c) tips
      let first := showOut (showIssue c) full
      match full with
      | some (some (.ok _ g')) =>
        let tips' := sortNat (g'.tipsOf.filterMap c.idxOf)
        first ++ "=>" ++ showOut (showIssue c) (evalTips c (issueApply c) (tips'.map some))
      | _ => first ++ "=>-"
    | _, _ => "bad-op"
  | _ => "bad-op"

end HeartwoodModel.Driver.C06
