//! C13 — no input from a remote peer can crash the node. Three sections, one check:
//!
//! * `a <stream hex> <onion set>` — bytes → frames → messages: the byte string is put into a REAL
//!   `Deserializer<_, Frame<Message>>` and drained under `catch`.
//!   Output `n=<frames> kinds=<g|c|t…|-> end=<more|err|panic> left=<unparsed bytes>`.
//! * `b <sessions> <seeded> <op>…` — well-formed messages → service: a REAL `Service` (`test::peer::Peer`,
//!   `MockStorage`) is put into the given session states and receives the messages under `catch`
//!   (format: see `lean/HeartwoodModel/Driver/C13.lean`). Output: one char per op (`o`/`o+`/`m`/`t`/`P`/`-`).
//! * `c <stream hex> <chunk> <graph>` — git request header through the hook-exposed `git_request`
//!   (shared with C12, `../c12/src/header.rs`).
//!
//! Oracle: a panic anywhere is a violation (`frame-decode-panic`, `service-panic`, `git-request-panic`);
//! a disconnect for a reason other than misbehaviour / invalid timestamp is reported as `d` (disagreement).

#[path = "../../c12/src/header.rs"]
mod header;
#[path = "../../c15/src/wiregen.rs"]
#[allow(dead_code)]
mod wiregen;

use std::net;
use std::str::FromStr as _;

use localtime::LocalTime;
use radicle::identity::RepoId;
use radicle::node::address::Store as _;
use radicle::node::config::ConnectAddress;
use radicle::node::device::Device;
use radicle::node::policy::{Scope, SeedingPolicy};
use radicle::node::{Address, Alias, ConnectOptions, Features, NodeId, Timestamp, UserAgent};
use radicle::storage::refs::RefsAt;
use radicle::test::storage::MockStorage;
use radicle_crypto::test::signer::MockSigner;
use radicle_node::bounded::BoundedVec;
use radicle_node::deserializer::Deserializer;
use radicle_node::service::filter::Filter;
use radicle_node::service::io::Io;
use radicle_node::service::message::*;
use radicle_node::service::{self, session, Command, DisconnectReason};
use radicle_node::test::peer::{Config, Peer};
use radicle_node::wire;
use radicle_node::wire::verif::{Control, Frame, FrameData, StreamId};
use radicle_node::{Link, PROTOCOL_VERSION};
use verif_common::*;

// ---------------------------------------------------------------------------------------------------
// (a) bytes → frames → messages

const BIG_B: usize = 2097152;

fn run_a(toks: &[&str]) -> Outcome {
    let bad = || Outcome::new("bad-case").trivial();
    if toks.len() != 2 {
        return bad();
    }
    let Some(stream) = unhex(toks[0]) else { return bad() };
    if stream.len() > BIG_B {
        return bad();
    }
    // the graph of the opaque onion-address check must be the real one
    match catch(|| wiregen::onion_token(&stream)) {
        Ok(t) if t == toks[1] => {}
        Ok(_) => return bad(),
        Err(msg) => return Outcome::new("panic").violation("frame-decode-panic", format!("address decoding panicked: {msg}")),
    }
    let mut de = Deserializer::<BIG_B, Frame<Message>>::new(1024);
    if de.input(&stream).is_err() {
        return bad();
    }
    let mut kinds = String::new();
    let mut n = 0usize;
    let end;
    let mut viol = None;
    loop {
        match catch(|| de.deserialize_next()) {
            Ok(Ok(Some(frame))) => {
                n += 1;
                kinds.push(match frame.data {
                    FrameData::Control(_) => 'c',
                    FrameData::Gossip(_) => 'g',
                    FrameData::Git(_) => 't',
                });
            }
            Ok(Ok(None)) => {
                end = "more";
                break;
            }
            Ok(Err(_)) => {
                end = "err";
                break;
            }
            Err(msg) => {
                end = "panic";
                viol = Some(msg);
                break;
            }
        }
    }
    let left = if end == "panic" { 0 } else { de.len() };
    if kinds.is_empty() {
        kinds.push('-');
    }
    let out = if end == "panic" { format!("n={n} kinds={kinds} end=panic left=?") } else { format!("n={n} kinds={kinds} end={end} left={left}") };
    let mut o = Outcome::new(out).tag(format!("a:{end}"));
    if n > 0 {
        o = o.tag("a:some-frames");
    }
    if kinds.contains('g') {
        o = o.tag("a:gossip");
    }
    if let Some(msg) = viol {
        o = o.violation("frame-decode-panic", format!("decoding a {}-byte stream panicked after {n} frames: {msg}", stream.len()));
    }
    o
}

fn varint_bytes(v: u64, width: usize) -> Vec<u8> {
    let tag = match width {
        1 => 0u8,
        2 => 1,
        4 => 2,
        _ => 3,
    };
    let mut b: Vec<u8> = (0..width).rev().map(|i| (v >> (8 * i)) as u8).collect();
    b[0] = (b[0] & 0x3f) | (tag << 6);
    b
}

fn min_width(v: u64) -> usize {
    if v < 1 << 6 {
        1
    } else if v < 1 << 14 {
        2
    } else if v < 1 << 30 {
        4
    } else {
        8
    }
}

fn stream_id(rng: &mut Rng, kind: u64) -> StreamId {
    let link = if rng.bool() { Link::Inbound } else { Link::Outbound };
    let base = match kind {
        0 => StreamId::control(link),
        1 => StreamId::gossip(link),
        _ => StreamId::git(link),
    };
    let n = *rng.pick(&[0u64, 7, 8, 2047, 2048, (1 << 27) - 1, (1 << 59) - 1]);
    base.nth(n).expect("below 2^62")
}

fn gen_frame(rng: &mut Rng) -> Frame<Message> {
    let link = if rng.bool() { Link::Inbound } else { Link::Outbound };
    match rng.below(10) {
        0..=1 => {
            let s = stream_id(rng, 2);
            let ctrl = match rng.below(3) {
                0 => Control::Open { stream: s },
                1 => Control::Close { stream: s },
                _ => Control::Eof { stream: s },
            };
            Frame::control(link, ctrl)
        }
        2..=3 => {
            let n = *rng.pick(&[0usize, 1, 63, 64, 200]);
            let data = rng.bytes(n);
            Frame::git(stream_id(rng, 2), data)
        }
        _ => {
            let big = rng.chance(1, 30);
            Frame::gossip(link, wiregen::message(rng, big))
        }
    }
}

fn a_case(stream: &[u8]) -> String {
    format!("a {} {}", hex(stream), wiregen::onion_token(stream))
}

fn gen_a(rng: &mut Rng) -> String {
    let n = rng.range(1, 3);
    let frames: Vec<Frame<Message>> = (0..n).map(|_| gen_frame(rng)).collect();
    let valid: Vec<u8> = frames.iter().flat_map(|f| f.to_bytes()).collect();
    let header = |rng: &mut Rng, kind: u64| {
        let sid = u64::from(stream_id(rng, kind));
        let mut b = vec![b'r', b'a', b'd', 1];
        b.extend(varint_bytes(sid, min_width(sid)));
        b
    };
    let s: Vec<u8> = match rng.below(16) {
        0..=4 => valid,
        5..=6 => valid[..rng.below(valid.len() as u64) as usize].to_vec(),
        7..=9 => {
            let mut s = valid.clone();
            for _ in 0..rng.range(1, 3) {
                let i = rng.below(s.len() as u64) as usize;
                match rng.below(4) {
                    0 => s[i] ^= 1 << rng.below(8),
                    1 => s[i] = rng.next() as u8,
                    2 => s.insert(i, rng.next() as u8),
                    _ => {
                        s.remove(i);
                    }
                }
            }
            s
        }
        10 => {
            // declared payload lengths at every varint boundary, few bytes behind them
            let kind = rng.range(1, 2);
            let mut s = header(rng, kind);
            let declared = *rng.pick(&[0u64, 1, 63, 64, 16383, 16384, (1 << 30) - 1, 1 << 30, 1 << 40, (1 << 62) - 1]);
            let width = *rng.pick(&[min_width(declared), 8]);
            s.extend(varint_bytes(declared, width));
            let k = rng.below(40) as usize;
            s.extend(rng.bytes(k));
            s
        }
        11 => {
            // complete gossip frame, inner message truncated or over-long, then valid frames
            let m = wiregen::message(rng, false);
            let mut inner = wire::serialize(&m);
            if rng.bool() {
                inner.truncate(rng.below(inner.len() as u64) as usize);
            } else {
                inner.extend(rng.bytes(3));
            }
            let mut s = header(rng, 1);
            s.extend(varint_bytes(inner.len() as u64, min_width(inner.len() as u64)));
            s.extend(&inner);
            s.extend(&valid);
            s
        }
        12 => {
            // gossip frame whose message has an unknown type / boundary-valued fields
            let body: Vec<u8> = match rng.below(5) {
                0 => vec![0, rng.below(20) as u8],                       // message type only
                1 => vec![0, 10, 0xff, 0xff, 0xff, 0xff],                // ping, ponglen 65535, zeroes 65535 (missing)
                2 => vec![0, 12, 0xff, 0xfb],                            // pong with 65531 zeroes declared, none present
                3 => {
                    // subscribe: filter size field arbitrary
                    let mut b = vec![0, 8];
                    b.extend((*rng.pick(&[0u16, 1, 1024, 4096, 16384, 65535])).to_be_bytes());
                    b.extend(rng.bytes(20));
                    b
                }
                _ => {
                    // inventory announcement with a huge declared count
                    let mut b = vec![0, 4];
                    b.extend(rng.bytes(32 + 64));
                    b.extend((*rng.pick(&[0u16, 1, 2973, 2974, 65535])).to_be_bytes());
                    b.extend(rng.bytes(30));
                    b
                }
            };
            let mut s = header(rng, 1);
            s.extend(varint_bytes(body.len() as u64, min_width(body.len() as u64)));
            s.extend(&body);
            s
        }
        13 => {
            // malformed frame headers: version, stream kind 3, unknown control command, non-minimal varints
            let mut s = vec![];
            match rng.below(4) {
                0 => {
                    s.extend([b'r', b'a', b'd', rng.below(4) as u8]);
                    s.extend(varint_bytes(2, 1));
                    s.push(0);
                }
                1 => {
                    s.extend([b'r', b'a', b'd', 1]);
                    s.extend(varint_bytes(6 + 8 * rng.below(100), 2));
                    s.extend(rng.bytes(3));
                }
                2 => {
                    s.extend([b'r', b'a', b'd', 1]);
                    s.extend(varint_bytes(rng.below(2), 1));
                    s.push(rng.range(3, 255) as u8);
                    s.extend(rng.bytes(2));
                }
                _ => {
                    s.extend([b'r', b'a', b'd', 1]);
                    s.extend(varint_bytes(4 + rng.below(2), *rng.pick(&[2, 4, 8])));
                    let dn = rng.below(10) as usize;
                    let data = rng.bytes(dn);
                    s.extend(varint_bytes(data.len() as u64, *rng.pick(&[2, 4, 8])));
                    s.extend(&data);
                }
            }
            s.extend(&valid);
            s
        }
        14 => {
            let k = rng.below(64) as usize;
            rng.bytes(k)
        }
        _ => {
            // every first byte of a varint after a valid version
            let mut s = vec![b'r', b'a', b'd', 1];
            let k = rng.range(1, 12) as usize;
            s.extend(rng.bytes(k));
            s
        }
    };
    a_case(&s)
}

// ---------------------------------------------------------------------------------------------------
// (b) well-formed messages → service

/// The clock of the node under test, milliseconds (the same constant as in the Lean driver).
const NOW: u64 = 1_700_000_000_000;
const TS_MAX: u64 = 9223372036854775807;

fn signer(p: u64) -> Device<MockSigner> {
    let mut seed = [0x42u8; 32];
    seed[0] = p as u8;
    Device::mock_from_seed(seed)
}

fn nid(p: u64) -> NodeId {
    *signer(p).public_key()
}

fn addr(p: u64) -> Address {
    Address::from(net::SocketAddr::from(([8, 8, 8, p as u8 + 1], 8776)))
}

fn rid(n: u64) -> RepoId {
    let mut b = [0x11u8; 20];
    b[..8].copy_from_slice(&n.to_be_bytes());
    RepoId::from(radicle::git::Oid::try_from(&b[..]).expect("20 bytes"))
}

fn oid(n: u64) -> radicle::git::Oid {
    let mut b = [0x22u8; 20];
    b[..8].copy_from_slice(&n.to_be_bytes());
    radicle::git::Oid::try_from(&b[..]).expect("20 bytes")
}

#[derive(Clone, Copy, PartialEq, Debug)]
enum St {
    ConnIn,
    ConnOut,
    Initial,
    Attempted,
    Disconnected,
}

enum Op {
    Recv(u64, String),
    Drop(u64),
    ConnIn(u64),
    /// the node process is restarted: a new `Service` over the same node database
    Restart,
}

struct CaseB {
    sessions: Vec<(u64, St)>,
    seeded: Vec<u64>,
    /// peers already in the address book (as if their node announcement had been received earlier)
    known: Vec<u64>,
    ops: Vec<Op>,
}

fn parse_b(toks: &[&str]) -> Option<CaseB> {
    if toks.len() < 2 {
        return None;
    }
    let mut sessions = vec![];
    if toks[0] != "-" {
        for e in toks[0].split(',') {
            let mut cs = e.chars();
            let p = cs.next()?.to_digit(10)? as u64;
            let st = match cs.next()? {
                'c' => St::ConnIn,
                'o' => St::ConnOut,
                'i' => St::Initial,
                'a' => St::Attempted,
                'd' if p == 4 || p == 5 => St::Disconnected,
                _ => return None,
            };
            if cs.next().is_some() || p > 9 || sessions.iter().any(|(q, _)| *q == p) {
                return None;
            }
            sessions.push((p, st));
        }
    }
    let list = |t: &str| -> Option<Vec<u64>> {
        if t == "-" || t.is_empty() {
            Some(vec![])
        } else {
            t.split(',').map(|x| x.parse().ok()).collect()
        }
    };
    let (seeded, known) = match toks[1].split_once('/') {
        Some((s, k)) => (list(s)?, list(k)?),
        None => (list(toks[1])?, vec![]),
    };
    if known.iter().any(|p| *p > 8) {
        return None;
    }
    let mut ops = vec![];
    for t in &toks[2..] {
        if t.is_empty() {
            return None;
        }
        let (k, rest) = t.split_at(1);
        match k {
            "R" if rest.is_empty() => ops.push(Op::Restart),
            "x" => ops.push(Op::Drop(peer_no(rest)?)),
            "c" => ops.push(Op::ConnIn(peer_no(rest)?)),
            "r" => {
                let (p, m) = rest.split_once(':')?;
                ops.push(Op::Recv(peer_no(p)?, m.to_string()));
            }
            _ => return None,
        }
    }
    Some(CaseB { sessions, seeded, known, ops })
}

fn peer_no(s: &str) -> Option<u64> {
    let p: u64 = s.parse().ok()?;
    (p <= 9 && s.len() == 1).then_some(p)
}

fn ts(s: &str) -> Option<Timestamp> {
    let n: u64 = s.parse().ok()?;
    Timestamp::try_from(n).ok()
}

fn bool01(s: &str) -> Option<bool> {
    match s {
        "0" => Some(false),
        "1" => Some(true),
        _ => None,
    }
}

/// Sign `message` as `announcer` (`sig` = validly); announcer 9 is the node under test itself.
fn announce(message: AnnouncementMessage, announcer: u64, sig: bool, me: &Device<MockSigner>) -> Message {
    let who = if announcer == 9 { me.clone() } else { signer(announcer) };
    let mut ann = if sig { message.signed(&who) } else { message.signed(&signer(200 + announcer)) };
    ann.node = *who.public_key();
    Message::Announcement(ann)
}

fn build_msg(m: &str, me: &Device<MockSigner>) -> Option<Message> {
    let f: Vec<&str> = m.split(',').collect();
    match f.as_slice() {
        ["n", an, sig, t, seed] => {
            let an = peer_no(an)?;
            let ann = NodeAnnouncement {
                version: PROTOCOL_VERSION,
                features: if bool01(seed)? { Features::SEED } else { Features::NONE },
                timestamp: ts(t)?,
                alias: Alias::from_str(&format!("peer{an}")).ok()?,
                addresses: Some(addr(an)).into(),
                nonce: 0,
                agent: UserAgent::from_str("/radicle:test/").ok()?,
            };
            Some(announce(ann.into(), an, bool01(sig)?, me))
        }
        ["i", an, sig, t, rids] => {
            let inv: Vec<RepoId> = if *rids == "-" { vec![] } else { rids.split(';').map(|x| x.parse().ok().map(rid)).collect::<Option<_>>()? };
            let ann = InventoryAnnouncement { inventory: BoundedVec::try_from(inv).ok()?, timestamp: ts(t)? };
            Some(announce(ann.into(), peer_no(an)?, bool01(sig)?, me))
        }
        ["f", an, sig, t, r, refs] => {
            let mut v = vec![];
            if *refs != "-" {
                for e in refs.split(';') {
                    let (remote, at) = e.split_once('@')?;
                    let remote = peer_no(remote)?;
                    let remote = if remote == 9 { *me.public_key() } else { nid(remote) };
                    v.push(RefsAt { remote, at: oid(at.parse().ok()?) });
                }
            }
            let ann = RefsAnnouncement { rid: rid(r.parse().ok()?), refs: BoundedVec::try_from(v).ok()?, timestamp: ts(t)? };
            Some(announce(ann.into(), peer_no(an)?, bool01(sig)?, me))
        }
        ["s", since, until] => Some(Message::subscribe(Filter::default(), ts(since)?, ts(until)?)),
        // the subscriber chooses the size of its bloom filter (1, 4 or 16 KiB on the wire) and its contents:
        // `<fill>` is a byte value, or `r<seed>` for pseudo-random contents
        ["s", since, until, kib, fill] => {
            let size = match *kib {
                "1" => 1024usize,
                "4" => 4096,
                "16" => 16384,
                _ => return None,
            };
            let bytes: Vec<u8> = if let Some(seed) = fill.strip_prefix('r') {
                Rng::new(seed.parse().ok()?).bytes(size)
            } else {
                vec![fill.parse::<u8>().ok()?; size]
            };
            let filter = Filter::from(radicle_node::service::filter::BloomFilter::from(bytes));
            Some(Message::subscribe(filter, ts(since)?, ts(until)?))
        }
        ["p", n] => Some(Message::Ping(Ping { ponglen: n.parse().ok()?, zeroes: ZeroBytes::new(0) })),
        ["q", n] => Some(Message::Pong { zeroes: ZeroBytes::new(n.parse().ok()?) }),
        ["o"] => Some(Message::Info(Info::RefsAlreadySynced { rid: rid(1), at: oid(1) })),
        _ => None,
    }
}

/// The node database of every case is a fresh SQLite file: keep it in memory-backed storage when there is
/// one (thousands of fsyncs on a loaded disk dominate the run time otherwise).
fn scratch_dir() -> tempfile::TempDir {
    let shm = std::path::Path::new("/dev/shm");
    if shm.is_dir() {
        if let Ok(d) = tempfile::TempDir::new_in(shm) {
            return d;
        }
    }
    tempfile::TempDir::new().expect("tempdir")
}

fn run_b(toks: &[&str]) -> Outcome {
    let bad = || Outcome::new("bad-case").trivial();
    let Some(case) = parse_b(toks) else { return bad() };
    // Build every message first (a malformed case text must not look like a run).
    let me = Device::mock_from_seed([0xA1u8; 32]);
    let mut msgs = vec![];
    for op in &case.ops {
        if let Op::Recv(_, m) = op {
            match catch(|| build_msg(m, &me)) {
                Ok(Some(msg)) => msgs.push(Some(msg)),
                _ => return bad(),
            }
        } else {
            msgs.push(None);
        }
    }
    let mut config = service::Config::test(Alias::new("node"));
    // Static peer set: the node does not dial addresses from its address book on its own
    // (`maintain_connections`), so that the sessions are exactly those the case text creates.
    config.peers = radicle::node::config::PeerConfig::Static;
    for (p, _) in &case.sessions {
        if *p == 4 || *p == 5 {
            config.connect.insert(ConnectAddress::from((nid(*p), addr(*p))));
        }
    }
    let seeded = case.seeded.clone();
    let known = case.known.clone();
    // A node process: a fresh `Service` over the node database in `tmp` (policies are in memory: re-applied).
    let make_peer = move |config: service::Config, me: Device<MockSigner>, tmp: tempfile::TempDir, first: bool| {
        let mut peer = Peer::config(
            "node",
            [9, 9, 9, 9],
            MockStorage::empty(),
            Config {
                config,
                local_time: LocalTime::from_millis(NOW as u128),
                policy: SeedingPolicy::default(),
                signer: me,
                rng: fastrand::Rng::with_seed(7),
                tmp,
            },
        );
        peer.initialize();
        for r in &seeded {
            peer.seed(&rid(*r), Scope::All).expect("seed");
        }
        if first {
            for p in &known {
                peer.service
                    .database_mut()
                    .addresses_mut()
                    .insert(
                        &nid(*p),
                        PROTOCOL_VERSION,
                        Features::SEED,
                        &Alias::new(format!("peer{p}")),
                        0,
                        &UserAgent::default(),
                        Timestamp::try_from(NOW - 10).expect("timestamp"),
                        Some(radicle::node::KnownAddress::new(addr(*p), radicle::node::address::Source::Peer)),
                    )
                    .expect("address book");
            }
        }
        peer
    };
    let setup = catch(|| {
        let mut peer = make_peer(config.clone(), me.clone(), scratch_dir(), true);
        let mut links = std::collections::BTreeMap::new();
        for (p, st) in &case.sessions {
            let (n, a) = (nid(*p), addr(*p));
            let persistent = *p == 4 || *p == 5;
            if *st == St::ConnIn {
                peer.connected(n, a, Link::Inbound);
                links.insert(*p, Link::Inbound);
                continue;
            }
            if !persistent {
                peer.command(Command::Connect(n, a.clone(), ConnectOptions::default()));
            }
            links.insert(*p, Link::Outbound);
            if *st == St::Initial {
                continue;
            }
            peer.attempted(n, a.clone());
            if *st == St::Attempted {
                continue;
            }
            peer.connected(n, a.clone(), Link::Outbound);
            if *st == St::Disconnected {
                peer.disconnected(n, Link::Outbound, &DisconnectReason::Command);
            }
        }
        peer.outbox().for_each(drop);
        (peer, links)
    });
    let (mut peer, mut links) = match setup {
        Ok(x) => x,
        Err(msg) => return Outcome::new("setup-panic").violation("harness-setup", format!("setting up the session states panicked: {msg}")),
    };
    // Check that the set-up really produced the session states the case names.
    for (p, st) in &case.sessions {
        use radicle_node::service::ServiceState as _;
        let ok = match peer.service.sessions().get(&nid(*p)) {
            None => false,
            Some(s) => match st {
                St::ConnIn | St::ConnOut => s.is_connected(),
                St::Initial => s.is_initial(),
                St::Attempted => matches!(s.state, session::State::Attempted),
                St::Disconnected => s.is_disconnected(),
            },
        };
        if !ok {
            return Outcome::new("setup-mismatch").violation("harness-setup", format!("peer {p} is not in state {st:?} after set-up"));
        }
    }
    let mut out = String::new();
    let mut o = Outcome::new("");
    for (op, msg) in case.ops.iter().zip(msgs.into_iter()) {
        match op {
            Op::Drop(p) => {
                let link = links.get(p).copied().unwrap_or(Link::Inbound);
                match catch(|| peer.disconnected(nid(*p), link, &DisconnectReason::Command)) {
                    Ok(()) => out.push('-'),
                    Err(msg) => {
                        out.push('P');
                        o = o.violation("service-panic", format!("Service::disconnected panicked: {msg}"));
                        break;
                    }
                }
            }
            Op::ConnIn(p) => {
                links.insert(*p, Link::Inbound);
                match catch(|| peer.connected(nid(*p), addr(*p), Link::Inbound)) {
                    Ok(()) => {
                        out.push('-');
                        peer.outbox().for_each(drop);
                    }
                    Err(msg) => {
                        out.push('P');
                        let class = if msg.contains("subtract with overflow") || msg.contains("TryFromIntError") {
                            "subscribe-backlog-underflow"
                        } else {
                            "service-panic"
                        };
                        o = o.tag("b:connect-panic").violation(class, format!("Service::connected (building the initial Subscribe) panicked: {msg}"));
                        break;
                    }
                }
            }
            Op::Restart => {
                let res = catch(|| {
                    let Peer { service, tempdir, .. } = std::mem::replace(&mut peer, make_peer(config.clone(), me.clone(), scratch_dir(), false));
                    drop(service); // closes the database
                    let fresh = scratch_dir();
                    for suffix in ["", "-wal", "-shm"] {
                        let from = tempdir.path().join(format!("{}{suffix}", radicle::node::NODE_DB_FILE));
                        if from.exists() {
                            std::fs::copy(&from, fresh.path().join(format!("{}{suffix}", radicle::node::NODE_DB_FILE))).expect("copy db");
                        }
                    }
                    peer = make_peer(config.clone(), me.clone(), fresh, false);
                    peer.outbox().for_each(drop);
                });
                links.clear();
                for p in [4u64, 5] {
                    if case.sessions.iter().any(|(q, _)| *q == p) {
                        links.insert(p, Link::Outbound);
                    }
                }
                match res {
                    Ok(()) => {
                        out.push('-');
                        o = o.tag("b:restart");
                    }
                    Err(msg) => {
                        out.push('P');
                        o = o.violation("service-panic", format!("restarting the node panicked: {msg}"));
                        break;
                    }
                }
            }
            Op::Recv(p, text) => {
                let msg = msg.expect("built");
                let from = nid(*p);
                let kind = text.split(',').next().unwrap_or("?").to_string();
                match catch(|| {
                    peer.receive(from, msg);
                }) {
                    Err(m) => {
                        out.push('P');
                        o = o.tag("b:panic").violation("service-panic", format!("receiving `{text}` from peer {p} panicked: {m}"));
                        break;
                    }
                    Ok(()) => {
                        let mut class = 'o';
                        let mut pong = false;
                        let mut fetches = 0;
                        for io in peer.outbox() {
                            match io {
                                Io::Disconnect(n, DisconnectReason::Session(e)) if n == from => {
                                    class = match e {
                                        session::Error::Misbehavior => 'm',
                                        session::Error::InvalidTimestamp(_) => 't',
                                        _ => 'd',
                                    }
                                }
                                Io::Disconnect(..) => class = 'd',
                                Io::Write(n, ms) if n == from => {
                                    if ms.iter().any(|m| matches!(m, Message::Pong { .. })) {
                                        pong = true;
                                    }
                                }
                                Io::Fetch { .. } => fetches += 1,
                                _ => {}
                            }
                        }
                        out.push(class);
                        if pong {
                            out.push('+');
                        }
                        o = o.tag(format!("b:{kind}:{class}"));
                        if fetches > 0 {
                            o = o.tag("b:fetch-initiated");
                        }
                    }
                }
            }
        }
    }
    {
        use radicle_node::service::ServiceState as _;
        if peer.service.sessions().values().any(|s| !s.queue.is_empty()) {
            o = o.tag("b:fetch-queued");
        }
    }
    o.output = out;
    o.tags.sort();
    o.tags.dedup();
    o
}

fn gen_b(rng: &mut Rng) -> String {
    // session states
    let mut sessions: Vec<(u64, char)> = vec![];
    for p in 0..6u64 {
        if rng.chance(2, 5) {
            continue;
        }
        let st = if p >= 4 { *rng.pick(&['c', 'o', 'i', 'a', 'd', 'd']) } else { *rng.pick(&['c', 'c', 'o', 'o', 'i', 'a']) };
        sessions.push((p, st));
    }
    let seeded: Vec<u64> = (1..=3u64).filter(|_| rng.chance(2, 3)).collect();
    let with_session: Vec<u64> = sessions.iter().map(|(p, _)| *p).collect();
    let pick_peer = |rng: &mut Rng| -> u64 {
        if !with_session.is_empty() && rng.chance(5, 6) {
            *rng.pick(&with_session)
        } else {
            rng.below(8)
        }
    };
    let tsv = |rng: &mut Rng| -> u64 {
        match rng.below(12) {
            0 => 0,
            1 => 1,
            2 => NOW - 3_600_001,
            3 => NOW + 3_600_000, // exactly MAX_TIME_DELTA ahead: accepted
            4 => NOW + 3_600_001, // one millisecond too far
            5 => TS_MAX,
            6 => NOW,
            7 if rng.chance(1, 3) => *rng.pick(&[2u64, 179_999, 180_000]), // around SUBSCRIBE_BACKLOG_DELTA after the epoch
            _ => NOW + rng.below(1000),
        }
    };
    let n_ops = rng.range(1, 14);
    let mut ops: Vec<String> = vec![];
    for _ in 0..n_ops {
        let p = pick_peer(rng);
        let announcer = match rng.below(8) {
            0 => 9,
            1 => rng.below(8),
            _ => p,
        };
        let sig = if rng.chance(1, 8) { 0 } else { 1 };
        let op = match rng.below(20) {
            0 if rng.chance(1, 3) => "R".to_string(),
            0 => format!("x{p}"),
            1 => format!("c{p}"),
            // (a SEED node announcement that passes every guard costs one scrypt evaluation: keep them rare)
            2..=5 => format!("r{p}:n,{announcer},{sig},{},{}", tsv(rng), rng.chance(1, 8) as u8),
            6..=9 => {
                let rids = match rng.below(6) {
                    0 => "-".to_string(),
                    1 => "1".to_string(),
                    2 => "1;2;3".to_string(),
                    3 => "2;2;7".to_string(),
                    4 if rng.chance(1, 6) => (100..100 + 2973).map(|x| x.to_string()).collect::<Vec<_>>().join(";"),
                    _ => format!("{};{}", rng.range(1, 3), rng.range(1, 5)),
                };
                format!("r{p}:i,{announcer},{sig},{},{rids}", tsv(rng))
            }
            10..=12 => {
                let refs = match rng.below(6) {
                    0 => "-".to_string(),
                    1 => format!("{announcer}@1"),
                    2 => "9@3".to_string(),
                    3 => format!("{announcer}@1;9@2;{}@4", rng.below(8)),
                    4 if rng.chance(1, 6) => (0..1024).map(|i| format!("{}@{}", i % 8, i)).collect::<Vec<_>>().join(";"),
                    _ => format!("{}@{}", rng.below(8), rng.below(5)),
                };
                format!("r{p}:f,{announcer},{sig},{},{},{refs}", tsv(rng), rng.range(1, 4))
            }
            13..=15 => {
                let v = [0u64, 1, 3, 5, NOW, NOW + 1, TS_MAX];
                if rng.bool() {
                    let fill = match rng.below(3) {
                        0 => "0".to_string(),
                        1 => "255".to_string(),
                        _ => format!("r{}", rng.below(1000)),
                    };
                    format!("r{p}:s,{},{},{},{fill}", *rng.pick(&v), *rng.pick(&v), *rng.pick(&[1u64, 4, 16]))
                } else {
                    format!("r{p}:s,{},{}", *rng.pick(&v), *rng.pick(&v))
                }
            }
            16..=17 => format!("r{p}:p,{}", *rng.pick(&[0u64, 1, 100, 65530, 65531, 65532, 65535])),
            18 => format!("r{p}:q,{}", *rng.pick(&[0u64, 5, 65531, 65535])),
            _ => format!("r{p}:o"),
        };
        ops.push(op);
    }
    let s = if sessions.is_empty() { "-".to_string() } else { sessions.iter().map(|(p, c)| format!("{p}{c}")).collect::<Vec<_>>().join(",") };
    let known: Vec<u64> = (0..8u64).filter(|_| rng.chance(1, 2)).collect();
    format!("b {s} {}/{} {}", nats(&seeded), nats(&known), ops.join(" "))
}

/// Directed histories that reach the fetch scheduling sites (fetch, already fetching, at capacity, queue).
fn directed_b(rng: &mut Rng) -> String {
    let p = rng.below(4);
    let q = (p + 1) % 4;
    let st = *rng.pick(&["c", "o", "i", "a"]);
    let mut t = NOW;
    let mut next = || {
        t += 1;
        t
    };
    let mut ops = vec![
        format!("r{p}:i,{p},1,{},1;2;3", next()),
        format!("r{q}:i,{q},1,{},1;2", next()),
        format!("r{p}:f,{p},1,{},1,{p}@1;{q}@2", next()),
        format!("r{p}:f,{p},1,{},1,{p}@1;{q}@2", next()),
        format!("r{q}:f,{p},1,{},2,{p}@3", next()),
    ];
    match rng.below(4) {
        0 => ops.insert(3, format!("x{p}")),
        1 => ops.insert(4, format!("c{p}")),
        2 => {
            ops.push(format!("x{p}"));
            ops.push(format!("c{p}"));
            ops.push(format!("r{p}:i,{p},1,{},1;2;3", next()));
        }
        _ => {}
    }
    if rng.chance(1, 3) {
        // relay-only: `p` never speaks; its announcements reach us through `q` while `p`'s session is in any
        // state, including not connected / disconnected (persistent peers 4, 5) / absent
        let p = *rng.pick(&[0u64, 1, 4, 5]);
        let q = 2;
        let st = if p >= 4 { *rng.pick(&["c", "o", "i", "a", "d"]) } else { *rng.pick(&["c", "o", "i", "a", ""]) };
        let sess = if st.is_empty() { format!("{q}c") } else { format!("{p}{st},{q}c") };
        let ops = [
            format!("r{q}:i,{p},1,{},1;2;3", next()),
            format!("r{q}:f,{p},1,{},1,{p}@1;{q}@2", next()),
            format!("r{q}:f,{p},1,{},2,{p}@3", next()),
            format!("r{q}:i,{p},1,{},2;3", next()),
        ];
        return format!("b {sess} 1,2,3/{p},{q} {}", ops.join(" "));
    }
    format!("b {p}{st},{q}c 1,2,3/{p},{q} {}", ops.join(" "))
}

/// Restart histories: announcements with tiny / boundary timestamps are stored, the node restarts, a peer connects.
fn directed_restart(rng: &mut Rng) -> String {
    let t = *rng.pick(&[1u64, 2, 179_999, 180_000, 180_001, NOW]);
    let kind = match rng.below(3) {
        0 => format!("n,0,1,{t},{}", rng.below(2)),
        1 => format!("i,0,1,{t},1;2"),
        _ => format!("f,0,1,{t},1,0@1"),
    };
    let known = if rng.chance(3, 4) { "0" } else { "-" };
    let mut ops = vec![format!("r0:{kind}")];
    if rng.bool() {
        // a newer announcement hides the tiny one
        ops.push(format!("r0:n,1,1,{},0", *rng.pick(&[3u64, 180_000, NOW])));
    }
    ops.push("R".into());
    ops.push(format!("c{}", rng.below(3)));
    ops.push("r0:p,1".into());
    format!("b 0c 1,2/{known} {}", ops.join(" "))
}

/// A known peer in any session state subscribes with a filter of each valid size and arbitrary contents, then
/// announces inventories of 0, 1, ~100, 900, 2973 repositories that change the routing table (new repositories,
/// increasing timestamps), and refs; another peer relays some of them.
fn directed_subscribe(rng: &mut Rng) -> String {
    let p = rng.below(4);
    let q = (p + 1) % 4;
    let st = *rng.pick(&["c", "o", "i", "a"]);
    let mut t = NOW;
    let mut next = || {
        t += 1;
        t
    };
    let fill = match rng.below(3) {
        0 => "0".to_string(),
        1 => "255".to_string(),
        _ => format!("r{}", rng.below(1000)),
    };
    let mut base = 10_000 * (1 + rng.below(50));
    let mut inv = |n: u64| -> String {
        if n == 0 {
            return "-".to_string();
        }
        let s = (base..base + n).map(|x| x.to_string()).collect::<Vec<_>>().join(";");
        base += n;
        s
    };
    let mut ops = vec![];
    if rng.chance(2, 3) {
        ops.push(format!("r{p}:s,0,{TS_MAX},{},{fill}", *rng.pick(&[1u64, 4, 16])));
    } else {
        ops.push(format!("r{p}:s,0,{TS_MAX}"));
    }
    for _ in 0..rng.range(1, 3) {
        let n = *rng.pick(&[0u64, 1, 2, 100, 856, 900, 2973]);
        let relayer = if rng.chance(1, 4) { q } else { p };
        ops.push(format!("r{relayer}:i,{p},1,{},{}", next(), inv(n)));
    }
    ops.push(format!("r{p}:f,{p},1,{},1,{p}@1;{q}@2", next()));
    if rng.bool() {
        ops.push(format!("r{p}:s,5,3,{},{fill}", *rng.pick(&[1u64, 4, 16])));
        ops.push(format!("r{p}:i,{p},1,{},{}", next(), inv(*rng.pick(&[1u64, 100, 900]))));
    }
    format!("b {p}{st},{q}c 1,2,3/{p},{q} {}", ops.join(" "))
}

fn gen_d(rng: &mut Rng) -> String {
    let outbound = rng.bool();
    let ours = |n: u64| 4 + (!outbound as u64) + 8 * n;
    let theirs = |n: u64| 4 + (outbound as u64) + 8 * n;
    let mut seq = 0u64;
    let mut fetches = 0;
    let n = rng.range(1, 12);
    let mut ops = vec![];
    for _ in 0..n {
        let id = match rng.below(10) {
            0..=2 => ours(seq + rng.range(1, 3)),      // an id our side will allocate soon
            3 => ours(rng.below(seq + 1)),             // one we already allocated (or nth(0))
            4..=6 => theirs(rng.range(0, 3)),          // a legitimate id of the peer
            7 => rng.below(8),                         // control / gossip / kind-3 ids
            8 => (1u64 << 62) - 1 - rng.below(16),     // the largest ids
            _ => rng.below(64),
        };
        let op = match rng.below(12) {
            0..=3 => format!("O{id}"),
            4 => format!("C{id}"),
            5 => format!("E{id}"),
            6 if (id >> 1) & 3 == 2 => format!("G{id}"),
            6 => format!("E{id}"),
            7..=9 if fetches < 10 => {
                fetches += 1;
                seq += 1;
                "F".to_string()
            }
            _ => format!("W{id}"),
        };
        ops.push(op);
    }
    format!("d {} {}", if outbound { "o" } else { "i" }, ops.join(" "))
}

// ---------------------------------------------------------------------------------------------------
// (d) control frames → stream bookkeeping of the wire protocol

/// The REAL `Wire` state machine (`wire/protocol.rs`) driven in-process: the reactor is replaced by direct
/// calls of its `reactor::Handler` methods; the Noise handshake is skipped by handing `Wire` the
/// `SessionEvent::Established` artifact a completed handshake with the peer would produce.
///
/// Case: `d <o|i> <op>…` — our link to the peer (`o`: we dialed, `i`: the peer dialed). Ops:
/// `O<id>` / `C<id>` / `E<id>`: the peer sends control `Open` / `Close` / `Eof` for stream id `<id>` (any u62);
/// `G<id>`: a git data frame on stream `<id>`; `F`: our service starts a fetch from the peer (next repository);
/// `W<id>`: a worker reports its result for stream `<id>`.
/// Output per op: `<op>:` followed by what the wire did: `T<id>` a worker task was spawned for stream `<id>`
/// (`Tr` responder, `Ti` initiator), `S<o|c|e><id>` a control frame was sent to the peer, `P` panic.
mod wire_d {
    use super::*;
    use std::net::{TcpListener, TcpStream};
    use std::os::fd::AsRawFd as _;

    use crossbeam_channel as chan;
    use cyphernet::addr::{HostName, NetAddr};
    use netservices::resource::{ListenerEvent, SessionEvent};
    use netservices::session::ProtocolArtifact;
    use netservices::NetStateMachine;

    /// `NoiseArtifact` (not nameable directly: it lives in a private module of `netservices`).
    type NoiseArt = <cyphernet::encrypt::noise::NoiseState<MockSigner, cyphernet::Sha256> as NetStateMachine>::Artifact;
    use radicle_node::wire::{Control as WireControl, Wire};
    use radicle_node::worker::{FetchRequest, FetchResult, Task, TaskResult};
    use reactor::{Action, Handler as _, ResourceIdGenerator, ResourceType};

    type W = Wire<radicle::node::Database, MockStorage, MockSigner>;

    pub fn sid(n: u64) -> Option<StreamId> {
        if n >= 1 << 62 {
            return None;
        }
        wire::deserialize::<StreamId>(&varint_bytes(n, min_width(n))).ok()
    }

    struct Drained {
        events: Vec<String>,
        register: Option<std::os::fd::RawFd>,
    }

    /// Run the wire's action queue dry; report control frames sent; keep transports alive.
    fn drain(w: &mut W, keep: &mut Vec<Box<dyn std::any::Any>>) -> Drained {
        let mut d = Drained { events: vec![], register: None };
        while let Some(a) = w.next() {
            match a {
                Action::RegisterTransport(t) => {
                    d.register = Some(t.as_raw_fd());
                    keep.push(Box::new(t));
                }
                Action::Send(_, bytes) => {
                    let mut de = Deserializer::<BIG_B, Frame<Message>>::new(1024);
                    if de.input(&bytes).is_ok() {
                        while let Ok(Some(f)) = de.deserialize_next() {
                            if let FrameData::Control(c) = f.data {
                                d.events.push(match c {
                                    Control::Open { stream } => format!("So{}", u64::from(stream)),
                                    Control::Close { stream } => format!("Sc{}", u64::from(stream)),
                                    Control::Eof { stream } => format!("Se{}", u64::from(stream)),
                                });
                            }
                        }
                    }
                }
                _ => {}
            }
        }
        d
    }

    fn tasks(rx: &chan::Receiver<Task>, keep: &mut Vec<Box<dyn std::any::Any>>) -> Vec<String> {
        let mut v = vec![];
        while let Ok(t) = rx.try_recv() {
            v.push(match &t.fetch {
                FetchRequest::Initiator { .. } => format!("Ti{}", u64::from(t.stream)),
                FetchRequest::Responder { .. } => format!("Tr{}", u64::from(t.stream)),
            });
            keep.push(Box::new(t)); // keep the channels open, as a busy worker would
        }
        v
    }

    pub fn run_d(toks: &[&str]) -> Outcome {
        let bad = || Outcome::new("bad-case").trivial();
        if toks.is_empty() || !["o", "i"].contains(&toks[0]) {
            return bad();
        }
        let outbound = toks[0] == "o";
        // parse ops
        let mut ops: Vec<(char, Option<u64>)> = vec![];
        for t in &toks[1..] {
            let mut cs = t.chars();
            let Some(k) = cs.next() else { return bad() };
            let rest: String = cs.collect();
            match k {
                'F' if rest.is_empty() => ops.push(('F', None)),
                'O' | 'C' | 'E' | 'G' | 'W' => {
                    let Ok(n) = rest.parse::<u64>() else { return bad() };
                    if sid(n).is_none() || rest != n.to_string() {
                        return bad();
                    }
                    // a git data frame exists only on a stream id of git kind (anything else is a frame
                    // that does not decode: section (a))
                    if k == 'G' && (n >> 1) & 3 != 2 {
                        return bad();
                    }
                    ops.push((k, Some(n)));
                }
                _ => return bad(),
            }
        }
        let me = Device::mock_from_seed([0xA1u8; 32]);
        let remote = nid(0);
        let mut keep: Vec<Box<dyn std::any::Any>> = vec![];
        let setup = catch(|| {
            let mut config = service::Config::test(Alias::new("node"));
            config.peers = radicle::node::config::PeerConfig::Static;
            // enough concurrent fetches per peer for the histories we run
            config.limits.fetch_concurrency = 16;
            let mut peer = Peer::config(
                "node",
                [9, 9, 9, 9],
                MockStorage::empty(),
                Config {
                    config,
                    local_time: LocalTime::from_millis(NOW as u128),
                    policy: SeedingPolicy::default(),
                    signer: me.clone(),
                    rng: fastrand::Rng::with_seed(7),
                    tmp: scratch_dir(),
                },
            );
            peer.initialize();
            let Peer { service, tempdir, .. } = peer;
            let (tx, rx) = chan::unbounded::<Task>();
            let mut w: W = Wire::new(service, tx, me.clone());
            let listener = TcpListener::bind("127.0.0.1:0").expect("bind");
            let laddr = listener.local_addr().expect("addr");
            let mut ids = ResourceIdGenerator::default();
            let ts = reactor::Timestamp::from_millis(NOW as u128);
            let mut sockets: Vec<Box<dyn std::any::Any>> = vec![Box::new(tempdir)];
            let (fd, peer_addr): (std::os::fd::RawFd, std::net::SocketAddr) = if outbound {
                w.handle_command(WireControl::User(Command::Connect(remote, Address::from(laddr), ConnectOptions::default())));
                let d = drain(&mut w, &mut sockets);
                (d.register.expect("outbound transport"), laddr)
            } else {
                let client = TcpStream::connect(laddr).expect("connect");
                let (server, from) = listener.accept().expect("accept");
                sockets.push(Box::new(client));
                w.handle_listener_event(ids.next(), ListenerEvent::Accepted(server), ts);
                let d = drain(&mut w, &mut sockets);
                (d.register.expect("inbound transport"), from)
            };
            let id = ids.next();
            w.handle_registered(fd, id, ResourceType::Transport);
            let host: NetAddr<HostName> = NetAddr::new(HostName::Ip(peer_addr.ip()), peer_addr.port());
            let artifact = ProtocolArtifact {
                session: ProtocolArtifact { session: peer_addr, state: host },
                state: NoiseArt { handshake_hash: Default::default(), remote_static_key: Some(remote) },
            };
            w.handle_transport_event(id, SessionEvent::Established(fd, artifact), ts);
            drain(&mut w, &mut sockets);
            sockets.push(Box::new(listener));
            (w, rx, id, sockets)
        });
        let (mut w, rx, id, sockets) = match setup {
            Ok(x) => x,
            Err(msg) => return Outcome::new("setup-panic").violation("harness-setup", format!("setting up the wire panicked: {msg}")),
        };
        keep.extend(sockets);
        let our_link = if outbound { Link::Outbound } else { Link::Inbound };
        let their_link = if outbound { Link::Inbound } else { Link::Outbound };
        let ts = reactor::Timestamp::from_millis(NOW as u128);
        let mut out: Vec<String> = vec![];
        let mut o = Outcome::new("");
        let mut next_rid = 1u64;
        for (k, n) in ops {
            let label = match n {
                Some(n) => format!("{k}{n}"),
                None => k.to_string(),
            };
            let res = catch(|| {
                match k {
                    'O' | 'C' | 'E' => {
                        let stream = sid(n.unwrap()).unwrap();
                        let c = match k {
                            'O' => Control::Open { stream },
                            'C' => Control::Close { stream },
                            _ => Control::Eof { stream },
                        };
                        let bytes = Frame::<Message>::control(their_link, c).to_bytes();
                        w.handle_transport_event(id, SessionEvent::Data(bytes), ts);
                    }
                    'G' => {
                        let bytes = Frame::<Message>::git(sid(n.unwrap()).unwrap(), vec![1, 2, 3]).to_bytes();
                        w.handle_transport_event(id, SessionEvent::Data(bytes), ts);
                    }
                    'F' => {
                        let (tx, _rx) = chan::bounded(1);
                        let r = rid(1000 + next_rid);
                        next_rid += 1;
                        w.handle_command(WireControl::User(Command::Fetch(r, remote, std::time::Duration::from_secs(9), tx)));
                    }
                    _ => {
                        let stream = sid(n.unwrap()).unwrap();
                        w.handle_command(WireControl::Worker(TaskResult {
                            remote,
                            stream,
                            result: FetchResult::Responder { rid: None, result: Ok(()) },
                        }));
                    }
                }
                let d = drain(&mut w, &mut keep);
                d.events
            });
            match res {
                Ok(mut ev) => {
                    let mut all = tasks(&rx, &mut keep);
                    all.append(&mut ev);
                    out.push(format!("{label}:{}", if all.is_empty() { "-".to_string() } else { all.join(",") }));
                    o = o.tag(format!("d:{k}"));
                }
                Err(msg) => {
                    out.push(format!("{label}:P"));
                    let class = if msg.contains("stream was already open") { "stream-preopened-by-peer" } else { "wire-panic" };
                    o = o.tag("d:panic").violation(class, format!("`{label}` on an {our_link:?} connection panicked: {msg}"));
                    break;
                }
            }
        }
        o.output = out.join(" ");
        o.tags.sort();
        o.tags.dedup();
        o
    }
}

// ---------------------------------------------------------------------------------------------------

fn run_case(input: &str) -> Outcome {
    let toks: Vec<&str> = input.split(' ').collect();
    match toks.first().copied() {
        Some("a") => run_a(&toks[1..]),
        Some("b") => run_b(&toks[1..]),
        Some("c") => header::run_header(&toks[1..]),
        Some("d") => wire_d::run_d(&toks[1..]),
        _ => Outcome::new("bad-case").trivial(),
    }
}

fn c_case(stream: &[u8], chunk: usize) -> String {
    format!("c{}", &header::header_case(stream, chunk)[1..])
}

fn main() {
    let args: Vec<String> = std::env::args().collect();
    if args.get(1).map(|s| s.as_str()) == Some("mkcase") {
        // `c13 mkcase c <text>` / `c13 mkcase a <hex>`: print a corpus line with the real graphs
        match args.get(2).map(|s| s.as_str()) {
            Some("c") => args[3..].iter().for_each(|a| println!("{}", c_case(&header::unescape(a), 4))),
            Some("a") => args[3..].iter().for_each(|a| println!("{}", a_case(&unhex(a).expect("hex")))),
            Some("dbg") => args[3..].iter().for_each(|a| {
                let mut de = Deserializer::<BIG_B, Frame<Message>>::new(1024);
                de.input(&unhex(a).expect("hex")).unwrap();
                println!("{:?}", de.deserialize_next().map(|f| f.map(|f| format!("{:?}", f.data))));
            }),
            _ => {}
        }
        return;
    }
    let mut ctx = Ctx::from_args("C13");
    if !ctx.run_fixed(run_case) {
        let mut rng = ctx.rng();
        // (c) all 65 536 four-hex-digit length prefixes, in front of a fixed valid request of 56 bytes:
        // every relation between declared length, buffer size and available bytes occurs.
        let payload = b"git-upload-pack /rad:z3gqcJUoA1n9HaHKufZs5FCSGazv5\0host=seed\0";
        let step = ctx.size(1, 1);
        let mut l = 0u32;
        while l < 0x10000 {
            let mut stream = format!("{l:04x}").into_bytes();
            stream.extend_from_slice(payload);
            if l % 257 == 0 {
                // some with enough bytes behind them to satisfy large declared lengths
                stream.extend(std::iter::repeat(b'a').take(1100));
            }
            let input = c_case(&stream, 4096);
            let o = run_case(&input);
            ctx.record(&input, o);
            l += step as u32;
        }
        for _ in 0..ctx.size(1_500, 60_000) {
            let input = format!("c{}", &header::gen_header_case(&mut rng)[1..]);
            let o = run_case(&input);
            ctx.record(&input, o);
        }
        // (a)
        for _ in 0..ctx.size(4_000, 150_000) {
            let input = gen_a(&mut rng);
            let o = run_case(&input);
            ctx.record(&input, o);
        }
        // (b)
        for i in 0..ctx.size(450, 4_000) {
            let input = if i % 7 == 0 {
                directed_b(&mut rng)
            } else if i % 7 == 3 && i % 2 == 1 {
                directed_restart(&mut rng)
            } else if i % 7 == 5 {
                directed_subscribe(&mut rng)
            } else {
                gen_b(&mut rng)
            };
            let o = run_case(&input);
            ctx.record(&input, o);
        }
        // (d)
        for _ in 0..ctx.size(400, 6_000) {
            let input = gen_d(&mut rng);
            let o = run_case(&input);
            ctx.record(&input, o);
        }
    }
    ctx.finish(
        "(a) frame streams: 1-3 real frames (control/git/gossip with generated messages) valid, truncated, byte-mutated, with boundary \
         declared lengths, truncated/over-long inner messages, boundary-valued message bodies, malformed headers, random bytes; \
         (b) service histories: up to 6 peers in every session state (none/initial/attempted/connected in+out/disconnected), up to 14 ops \
         (announcements with timestamps 0,1,now-delta-1,now+delta,now+delta+1,i64::MAX, bad signatures, own id, unknown announcers, empty and \
         maximal inventories/refs, subscribe with since>until, pings at the pong-size boundary, pongs, info, disconnect/reconnect events) plus \
         directed histories reaching fetch / already-fetching / at-capacity / queue, restarts of the node after announcements with tiny timestamps, subscribes with 1/4/16 KiB filters of arbitrary contents followed by routing-changing inventories of 0..2973 repositories and refs; (d) real Wire, one connected peer (inbound/outbound): 1-12 control/git frames with stream ids of either initiator, every kind, boundary ids, interleaved with own fetches and worker results; (c) all 65536 hex length prefixes and structured request headers; \
         non-trivial = well-formed case text; distinct by input text",
        false,
    );
}
