/-! Driver entry for property C10 (stub: not implemented yet). -/
namespace HeartwoodModel.Driver.C10

def run (_args : List String) : String := "unimplemented"

end HeartwoodModel.Driver.C10
