//! Shared laboratory for C01 and C02: runs the REAL `radicle_fetch::{pull, clone}` in-process against a
//! real serving repository (one `git upload-pack` child per fetch, wired exactly like
//! `radicle-node`'s `worker::upload_pack`), on scenarios described by a small text script.
//!
//! # Scenario text (one case)
//!
//! ```text
//! n=<peers 1..5> d=<delegate idxs> t=<threshold> local=<idx 0..5> mode=<pull|clone> scope=<all|f:idxs|f:->
//! blocked=<idxs|-> refsat=<-|k:mark,k:mark…> ops=<op;op;…|->
//! ```
//!
//! Peers `0..n` have a namespace in the *base* repository (own `refs/heads/master`, `refs/rad/root`,
//! `refs/rad/sigrefs`; delegates also `refs/rad/id`), honestly signed. Peer indices are assigned in
//! `PublicKey` order, so that index order = `BTreeMap<PublicKey, _>` order of the code. The serving
//! repository `S` and the fetcher's repository `L` both start as copies of the base (for `clone`, `L` is
//! empty); the `ops` then modify either side with raw git2 (`S.` / `L.` prefix):
//!
//! ```text
//! commit.k.R      new commit on ref R of namespace k (child of its current target)     R ∈ master feature tag id root evil
//! set.k.R.j.Q     point (k,R) at the current target of (j,Q) (no new objects)
//! del.k.R         delete ref R of namespace k (R may be `sigrefs`)
//! rmns.k          delete every ref of namespace k
//! resign.k        k signs the refs currently in its namespace (new sigrefs commit, child of the current one)
//! signsig.k.m     as resign, but the (validly signed) blob also lists refs/rad/sigrefs itself, pointing at mark m
//! badsig.k        as resign, but the signature blob has one bit flipped
//! rekey.k.j       as resign, but signed with j's key
//! junk.k          move k's sigrefs to an unsigned commit (child of the current one) without refs/signature blobs
//! wrongroot.k     point (k, refs/rad/root) at the identity root of ANOTHER repository (then `resign.k`)
//! rewind.k        move k's sigrefs to its first parent
//! back.k.R        move ref R of namespace k back to its first parent (a pure rewind of a data ref)
//! mark.k.m        remember the current sigrefs tip of k on this side under the name m (for `refsat=k:m`)
//! delcanon        delete the canonical (non-namespaced) refs/rad/id
//! worker          (S only; scope=all blocked=- refsat=- required) ALSO run the scenario one level up: two real
//!                 radicle-node nodes, the fetcher calling worker::fetch::Handle::fetch; its outcome and whether a
//!                 repository directory exists in the fetcher's storage afterwards are appended to the output
//! advdup.k.m      (S only) the server lists k's rad/sigrefs a second time, right after its own line, pointing at mark m
//! revorder        (S only) the server lists references in REVERSE name order in every ls-refs response
//! ```
//!
//! Everything after a ` | ` token in a case line is the *abstract world* the harness extracted for the
//! Lean driver (see `World::tokens`); it is recomputed from the scenario on every run and ignored on input.

use std::collections::{BTreeMap, BTreeSet, HashMap};
use std::io::{self, Write};
use std::path::{Path, PathBuf};
use std::process::{Child, ChildStdin, ChildStdout, Command, Stdio};
use std::str::FromStr;

use radicle::crypto::test::signer::MockSigner;
use radicle::crypto::{PublicKey, Signature};
use radicle::git::raw as git2;
use radicle::git::{Oid, RefString};
use radicle::identity::doc::{RawDoc, Visibility};
use radicle::identity::project::{Project, ProjectName};
use radicle::identity::{Did, RepoId};
use radicle::node::device::Device;
use radicle::node::Alias;
use radicle::storage::git::{Repository, Storage};
use radicle::storage::refs::{Refs, RefsAt, SignedRefsAt, IDENTITY_ROOT};
use radicle::storage::{ReadRepository, SignRepository, WriteRepository};

use radicle_fetch::transport::{ConnectionStream, SignalEof};
use radicle_fetch::{Allowed, BlockList, FetchLimit, FetchResult, Handle};

use verif_common::{catch, Outcome};

pub mod gen;

pub const N_KEYS: usize = 7;
/// Index of the key used as the serving node's id (never owns a namespace).
pub const SERVER: usize = 6;

const SIGREFS: &str = "refs/rad/sigrefs";
const RAD_ID: &str = "refs/rad/id";

// ---------------------------------------------------------------------------------------------
// Transport: same wiring as radicle-node's `worker::upload_pack`, minus the network.
// ---------------------------------------------------------------------------------------------

struct UploadPack {
    child: Child,
    stdout: PktReader,
    stdin: HeaderSkippingWriter,
}

/// The serving side's output. With `reverse`, every `ls-refs` response (a run of `<oid> <refname>…`
/// pkt-lines up to the flush packet) is delivered with its lines in REVERSE order: a hand-written server
/// is free to list references in any order, `git upload-pack` always sorts them by name.
struct PktReader {
    inner: ChildStdout,
    buf: std::collections::VecDeque<u8>,
    reverse: bool,
    /// `(full refname, oid)`: listed once more, with this oid, right after the server's own line.
    extra: Vec<(String, git2::Oid)>,
}

impl PktReader {
    /// Read one pkt-line (header included) from the child; `None` at end of stream.
    fn pkt(&mut self) -> io::Result<Option<Vec<u8>>> {
        use std::io::Read;
        let mut head = [0u8; 4];
        let mut got = 0;
        while got < 4 {
            let n = self.inner.read(&mut head[got..])?;
            if n == 0 {
                return if got == 0 { Ok(None) } else { Err(io::Error::from(io::ErrorKind::UnexpectedEof)) };
            }
            got += n;
        }
        let len = std::str::from_utf8(&head)
            .ok()
            .and_then(|s| usize::from_str_radix(s, 16).ok())
            .ok_or_else(|| io::Error::from(io::ErrorKind::InvalidData))?;
        let mut pkt = head.to_vec();
        if len > 4 {
            pkt.resize(len, 0);
            self.inner.read_exact(&mut pkt[4..])?;
        }
        Ok(Some(pkt))
    }

    fn is_ref_line(pkt: &[u8]) -> bool {
        pkt.len() > 4 + 46 && pkt[4..44].iter().all(|c| c.is_ascii_hexdigit()) && &pkt[44..50] == b" refs/"
    }
}

impl io::Read for PktReader {
    fn read(&mut self, out: &mut [u8]) -> io::Result<usize> {
        if !self.reverse && self.extra.is_empty() {
            return self.inner.read(out);
        }
        if self.buf.is_empty() {
            let Some(first) = self.pkt()? else { return Ok(0) };
            if Self::is_ref_line(&first) {
                let mut lines = vec![first];
                loop {
                    let Some(p) = self.pkt()? else { break };
                    if Self::is_ref_line(&p) {
                        lines.push(p);
                    } else {
                        let mut all = vec![];
                        for l in lines.drain(..) {
                            let name = String::from_utf8_lossy(&l[45..]).split([' ', '\n']).next().unwrap_or("").to_string();
                            all.push(l);
                            for (n, o) in &self.extra {
                                if *n == name {
                                    let body = format!("{o} {n}\n");
                                    all.push(format!("{:04x}{body}", body.len() + 4).into_bytes());
                                }
                            }
                        }
                        if self.reverse {
                            all.reverse();
                        }
                        lines = all;
                        lines.push(p);
                        break;
                    }
                }
                for l in lines {
                    self.buf.extend(l);
                }
            } else {
                self.buf.extend(first);
            }
        }
        let n = out.len().min(self.buf.len());
        for (i, b) in self.buf.drain(..n).enumerate() {
            out[i] = b;
        }
        Ok(n)
    }
}

struct HeaderSkippingWriter {
    stdin: Option<ChildStdin>,
    /// Bytes of the not-yet-complete request header, `None` once swallowed.
    header: Option<Vec<u8>>,
}

impl UploadPack {
    fn spawn(git_dir: &Path, reverse: bool, extra: Vec<(String, git2::Oid)>) -> io::Result<Self> {
        let mut child = Command::new("git")
            .current_dir(git_dir)
            .env_clear()
            .envs(std::env::vars().filter(|(k, _)| k == "PATH"))
            .env("GIT_PROTOCOL", "version=2")
            .args([
                "-c",
                "uploadpack.allowAnySha1InWant=true",
                "-c",
                "uploadpack.allowRefInWant=true",
                "-c",
                "lsrefs.unborn=ignore",
                "upload-pack",
                "--strict",
                ".",
            ])
            .stdin(Stdio::piped())
            .stdout(Stdio::piped())
            .stderr(Stdio::null())
            .spawn()?;
        let stdin = child.stdin.take().unwrap();
        let stdout = child.stdout.take().unwrap();
        let stdout = PktReader { inner: stdout, buf: Default::default(), reverse, extra };
        Ok(Self { child, stdout, stdin: HeaderSkippingWriter { stdin: Some(stdin), header: Some(Vec::new()) } })
    }
}

impl Drop for UploadPack {
    fn drop(&mut self) {
        self.stdin.stdin.take();
        self.child.kill().ok();
        self.child.wait().ok();
    }
}

impl ConnectionStream for UploadPack {
    type Read = PktReader;
    type Write = HeaderSkippingWriter;
    type Error = io::Error;

    fn open(&mut self) -> Result<(&mut Self::Read, &mut Self::Write), Self::Error> {
        Ok((&mut self.stdout, &mut self.stdin))
    }
}

impl Write for HeaderSkippingWriter {
    fn write(&mut self, buf: &[u8]) -> io::Result<usize> {
        let stdin = self.stdin.as_mut().ok_or_else(|| io::Error::from(io::ErrorKind::BrokenPipe))?;
        let Some(header) = self.header.as_mut() else {
            return stdin.write(buf);
        };
        // Still inside the first pkt-line (`git-upload-pack /<rid>\0host=..\0\0version=2\0`), which the
        // node's worker consumes with `pktline::git_request` and does not forward to the child.
        header.extend_from_slice(buf);
        if header.len() >= 4 {
            let len = std::str::from_utf8(&header[..4])
                .ok()
                .and_then(|s| usize::from_str_radix(s, 16).ok())
                .ok_or_else(|| io::Error::from(io::ErrorKind::InvalidData))?;
            if header.len() >= len {
                let rest = header.split_off(len);
                if !header[4..].starts_with(b"git-upload-pack ") {
                    return Err(io::Error::from(io::ErrorKind::InvalidData));
                }
                self.header = None;
                stdin.write_all(&rest)?;
            }
        }
        Ok(buf.len())
    }

    fn flush(&mut self) -> io::Result<()> {
        match self.stdin.as_mut() {
            Some(stdin) => stdin.flush(),
            None => Ok(()),
        }
    }
}

impl SignalEof for HeaderSkippingWriter {
    type Error = io::Error;

    fn eof(&mut self) -> io::Result<()> {
        // Closing stdin ends the (strict) upload-pack request loop.
        self.stdin.take();
        Ok(())
    }
}

// ---------------------------------------------------------------------------------------------
// Scenario
// ---------------------------------------------------------------------------------------------

#[derive(Clone, Copy, Debug, PartialEq, Eq)]
pub enum Side {
    /// Both sides: applied to the serving repository *before* the fetcher's copy is taken (must come first).
    B,
    S,
    L,
}

#[derive(Clone, Debug)]
pub enum Verb {
    Commit(usize, String),
    Set(usize, String, usize, String),
    Del(usize, String),
    RmNs(usize),
    Resign(usize),
    /// As `Resign`, but the signed blob also lists `refs/rad/sigrefs` itself, pointing at mark `m`.
    SignSig(usize, String),
    BadSig(usize),
    Rekey(usize, usize),
    Junk(usize),
    WrongRoot(usize),
    Rewind(usize),
    /// Move ref `R` of namespace `k` back to its first parent (a pure rewind).
    Back(usize, String),
    Mark(usize, String),
    DelCanon,
    /// Also run the scenario at the node level (worker `Handle::fetch` through real nodes).
    Worker,
    /// The serving side lists references in reverse name order (a hand-written server may).
    RevOrder,
    /// The serving side lists `(k, rad/sigrefs)` a second time, pointing at mark `m`.
    AdvDup(usize, String),
}

#[derive(Clone, Debug)]
pub struct Scenario {
    pub n: usize,
    pub delegates: Vec<usize>,
    pub threshold: usize,
    pub local: usize,
    pub clone: bool,
    /// `None` = scope all; `Some(ks)` = followed set.
    pub scope: Option<Vec<usize>>,
    pub blocked: Vec<usize>,
    pub refsat: Option<Vec<(usize, String)>>,
    pub ops: Vec<(Side, Verb)>,
    /// the scenario as written
    pub text: String,
}

fn idxs(s: &str, max: usize) -> Option<Vec<usize>> {
    if s == "-" {
        return Some(vec![]);
    }
    s.split(',').map(|x| x.parse::<usize>().ok().filter(|v| *v < max)).collect()
}

fn ref_alias(r: &str) -> Option<&'static str> {
    Some(match r {
        "master" => "refs/heads/master",
        "feature" => "refs/heads/feature",
        "tag" => "refs/tags/v1",
        "id" => RAD_ID,
        "root" => "refs/rad/root",
        "evil" => "refs/heads/evil",
        "sigrefs" => SIGREFS,
        _ => return None,
    })
}

impl Scenario {
    /// The scenario text with the `S.worker` op removed.
    pub fn text_without_worker(&self) -> String {
        let (head, ops) = self.text.rsplit_once(" ops=").unwrap_or((&self.text, "-"));
        let kept: Vec<&str> = ops.split(';').filter(|o| *o != "S.worker" && !o.is_empty()).collect();
        format!("{head} ops={}", if kept.is_empty() { "-".to_string() } else { kept.join(";") })
    }

    pub fn parse(text: &str) -> Option<Scenario> {
        let text = match text.find(" | ") {
            Some(i) => &text[..i],
            None => text.strip_suffix(" |").unwrap_or(text),
        };
        let mut kv: BTreeMap<&str, &str> = BTreeMap::new();
        let mut order = vec![];
        for tok in text.split(' ').filter(|t| !t.is_empty()) {
            let (k, v) = tok.split_once('=')?;
            if kv.insert(k, v).is_some() {
                return None;
            }
            order.push(k);
        }
        if order != ["n", "d", "t", "local", "mode", "scope", "blocked", "refsat", "ops"] {
            return None;
        }
        let n: usize = kv["n"].parse().ok().filter(|n| (1..=5).contains(n))?;
        let delegates = idxs(kv["d"], n)?;
        let set: BTreeSet<_> = delegates.iter().collect();
        if delegates.is_empty() || set.len() != delegates.len() {
            return None;
        }
        let threshold: usize = kv["t"].parse().ok().filter(|t| *t >= 1 && *t <= delegates.len())?;
        let local: usize = kv["local"].parse().ok().filter(|l| *l <= 5)?;
        let clone = match kv["mode"] {
            "clone" => true,
            "pull" => false,
            _ => return None,
        };
        let scope = match kv["scope"] {
            "all" => None,
            s => Some(idxs(s.strip_prefix("f:")?, 6)?),
        };
        let blocked = idxs(kv["blocked"], 6)?;
        let refsat = match kv["refsat"] {
            "-" => None,
            s => Some(
                s.split(',')
                    .map(|e| {
                        let (k, m) = e.split_once(':')?;
                        let k = k.parse::<usize>().ok().filter(|k| *k < 6)?;
                        (!m.is_empty()).then(|| (k, m.to_string()))
                    })
                    .collect::<Option<Vec<_>>>()?,
            ),
        };
        if clone && refsat.is_some() {
            return None; // `clone` has no refs_at parameter
        }
        let mut ops = vec![];
        if kv["ops"] != "-" {
            for op in kv["ops"].split(';') {
                let f: Vec<&str> = op.split('.').collect();
                if f.len() < 2 {
                    return None;
                }
                let side = match f[0] {
                    "B" => Side::B,
                    "S" => Side::S,
                    "L" => Side::L,
                    _ => return None,
                };
                let k = |i: usize| -> Option<usize> { f.get(i)?.parse::<usize>().ok().filter(|k| *k < 6) };
                let r = |i: usize| -> Option<String> { ref_alias(f.get(i)?).map(|s| s.to_string()) };
                let verb = match (f[1], f.len()) {
                    ("commit", 4) => Verb::Commit(k(2)?, r(3)?),
                    ("set", 6) => Verb::Set(k(2)?, r(3)?, k(4)?, r(5)?),
                    ("del", 4) => Verb::Del(k(2)?, r(3)?),
                    ("rmns", 3) => Verb::RmNs(k(2)?),
                    ("resign", 3) => Verb::Resign(k(2)?),
                    ("signsig", 4) => Verb::SignSig(k(2)?, f[3].to_string()),
                    ("badsig", 3) => Verb::BadSig(k(2)?),
                    ("rekey", 4) => Verb::Rekey(k(2)?, k(3)?),
                    ("junk", 3) => Verb::Junk(k(2)?),
                    ("wrongroot", 3) => Verb::WrongRoot(k(2)?),
                    ("rewind", 3) => Verb::Rewind(k(2)?),
                    ("back", 4) => Verb::Back(k(2)?, r(3)?),
                    ("mark", 4) => Verb::Mark(k(2)?, f[3].to_string()),
                    ("delcanon", 2) => Verb::DelCanon,
                    ("worker", 2) if side == Side::S => Verb::Worker,
                    ("revorder", 2) if side == Side::S => Verb::RevOrder,
                    ("advdup", 4) if side == Side::S => Verb::AdvDup(k(2)?, f[3].to_string()),
                    _ => return None,
                };
                if side == Side::B && ops.iter().any(|(s, _)| *s != Side::B) {
                    return None;
                }
                ops.push((side, verb));
            }
        }
        Some(Scenario { n, delegates, threshold, local, clone, scope, blocked, refsat, ops, text: text.trim().to_string() })
    }
}

// ---------------------------------------------------------------------------------------------
// The laboratory: keys, base repositories
// ---------------------------------------------------------------------------------------------

pub struct Base {
    path: PathBuf,
    rid: RepoId,
    /// Identity root of an unrelated repository; its objects are in the base object database.
    foreign: git2::Oid,
}

pub struct Lab {
    tmp: tempfile::TempDir,
    pub devs: Vec<Device<MockSigner>>,
    pub keys: Vec<PublicKey>,
    bases: HashMap<String, Base>,
    seq: u64,
    /// Runs a scenario one level up, through real `radicle-node` nodes (installed by harness/c02, which
    /// links `radicle-node`); see `WorkerJob`.
    pub worker: Option<Box<dyn Fn(&WorkerJob) -> Result<WorkerObs, String> + Send + Sync>>,
}

/// A scenario to be run at the node level (`radicle_node::worker::fetch::Handle::fetch`): the serving
/// repository, and the fetcher's repository (`None` for a clone), as prepared by the laboratory.
pub struct WorkerJob<'a> {
    pub rid: RepoId,
    pub server_repo: &'a Path,
    pub local_repo: Option<&'a Path>,
}

/// What was observed in the fetching node's storage after the node-level fetch.
#[derive(Debug, Clone)]
pub struct WorkerObs {
    /// `FetchResult::Success` at the node API
    pub success: bool,
    /// the repository directory exists in storage afterwards
    pub dir: bool,
    /// `storage.repository(rid)` opens
    pub opens: bool,
    /// `storage.contains(rid)`: `Ok(true)`, `Ok(false)` or an error
    pub contains: String,
    /// pull: the reference listing is the same as before
    pub refs_unchanged: bool,
    pub detail: String,
}

pub fn copy_tree(from: &Path, to: &Path) -> io::Result<()> {
    copy_dir(from, to)
}

fn copy_dir(from: &Path, to: &Path) -> io::Result<()> {
    std::fs::create_dir_all(to)?;
    for e in std::fs::read_dir(from)? {
        let e = e?;
        let (src, dst) = (e.path(), to.join(e.file_name()));
        if e.file_type()?.is_dir() {
            copy_dir(&src, &dst)?;
        } else if !dst.exists() {
            std::fs::copy(&src, &dst)?;
        }
    }
    Ok(())
}

fn fixed_sig(name: &str, t: i64) -> git2::Signature<'static> {
    git2::Signature::new(name, "lab@example.com", &git2::Time::new(1_700_000_000 + t, 0)).unwrap()
}

fn ns_ref(key: &PublicKey, name: &str) -> String {
    format!("refs/namespaces/{key}/{name}")
}

type E = Box<dyn std::error::Error>;

impl Lab {
    pub fn new() -> Lab {
        // Deterministic commit times wherever the repo's own code creates commits.
        std::env::set_var("RAD_COMMIT_TIME", "1700000000");
        std::env::set_var("GIT_COMMITTER_DATE", "1700000000");
        let mut devs: Vec<Device<MockSigner>> =
            (0..N_KEYS).map(|i| Device::from(MockSigner::from_seed([0xA0 + i as u8; 32]))).collect();
        devs.sort_by_key(|d| *d.public_key());
        let keys = devs.iter().map(|d| *d.public_key()).collect();
        Lab { tmp: tempfile::tempdir().expect("tempdir"), devs, keys, bases: HashMap::new(), seq: 0, worker: None }
    }

    fn key_index(&self, k: &PublicKey) -> Option<usize> {
        self.keys.iter().position(|x| x == k)
    }

    fn base_id(n: usize, delegates: &[usize], threshold: usize) -> String {
        format!("{n}-{}-{threshold}", delegates.iter().map(|d| d.to_string()).collect::<Vec<_>>().join("_"))
    }

    /// Build (once) the base repository of a configuration.
    fn ensure_base(&mut self, n: usize, delegates: &[usize], threshold: usize) -> Result<(), E> {
        let id = Self::base_id(n, delegates, threshold);
        if !self.bases.contains_key(&id) {
            let b = self.build_base(&id, n, delegates, threshold)?;
            self.bases.insert(id, b);
        }
        Ok(())
    }

    fn base(&self, n: usize, delegates: &[usize], threshold: usize) -> Result<&Base, E> {
        self.bases.get(&Self::base_id(n, delegates, threshold)).ok_or_else(|| "base repository not built".into())
    }

    fn build_base(&self, id: &str, n: usize, delegates: &[usize], threshold: usize) -> Result<Base, E> {
        let dir = self.tmp.path().join(format!("base-{id}"));
        let creator = delegates[0];
        let mk = |sub: &str, name: &str, dels: Vec<Did>, thr: usize| -> Result<(Repository, Oid), E> {
            let storage = Storage::open(
                dir.join(sub),
                radicle::git::UserInfo { alias: Alias::new("lab"), key: self.keys[creator] },
            )?;
            let project = Project::new(
                ProjectName::from_str(name)?,
                "verification laboratory".to_string(),
                RefString::try_from("master")?,
            )
            .map_err(|e| format!("{e:?}"))?;
            let doc = RawDoc::new(project, dels, thr, Visibility::Public).verified()?;
            let (repo, commit) = Repository::init(&doc, &storage, &self.devs[creator])?;
            Ok((repo, commit))
        };
        let (repo, identity) =
            mk("storage", "lab", delegates.iter().map(|d| Did::from(self.keys[*d])).collect(), threshold)?;
        let (other, foreign) = mk("other", "other", vec![Did::from(self.keys[creator])], 1)?;
        copy_dir(&other.backend.path().join("objects"), &repo.backend.path().join("objects"))?;

        let raw = &repo.backend;
        // The creator's `rad/id` is a symbolic ref to the identity COB ref: make it direct, as it is in
        // every replica.
        let creator_id = ns_ref(&self.keys[creator], RAD_ID);
        raw.find_reference(&creator_id)?.delete()?;
        let tree = {
            let mut tb = raw.treebuilder(None)?;
            tb.insert("README", raw.blob(b"lab")?, 0o100_644)?;
            raw.find_tree(tb.write()?)?
        };
        let sig = fixed_sig("lab", 0);
        let c0 = raw.commit(None, &sig, &sig, "root", &tree, &[])?;
        let c0c = raw.find_commit(c0)?;
        for i in 0..n {
            let c = raw.commit(None, &sig, &sig, &format!("work of {i}"), &tree, &[&c0c])?;
            raw.reference(&ns_ref(&self.keys[i], "refs/heads/master"), c, true, "lab")?;
            if delegates.contains(&i) {
                raw.reference(&ns_ref(&self.keys[i], RAD_ID), *identity, true, "lab")?;
            }
        }
        repo.set_identity_head_to(identity)?;
        for i in 0..n {
            repo.sign_refs(&self.devs[i])?;
        }
        Ok(Base { path: repo.backend.path().to_path_buf(), rid: repo.id, foreign: *foreign })
    }
}

impl Default for Lab {
    fn default() -> Self {
        Self::new()
    }
}

// ---------------------------------------------------------------------------------------------
// Raw repository helpers
// ---------------------------------------------------------------------------------------------

/// Every reference under `refs/namespaces/<key>/`, by key and (namespace-relative) name.
fn namespaced_refs(raw: &git2::Repository) -> Result<BTreeMap<(String, String), git2::Oid>, E> {
    let mut out = BTreeMap::new();
    for r in raw.references_glob("refs/namespaces/*")? {
        let r = r?;
        let Some(name) = r.name() else { continue };
        let Some(rest) = name.strip_prefix("refs/namespaces/") else { continue };
        let Some((key, rel)) = rest.split_once('/') else { continue };
        let Some(target) = r.resolve().ok().and_then(|r| r.target()) else { continue };
        out.insert((key.to_string(), rel.to_string()), target);
    }
    Ok(out)
}

fn ns_refs_of(raw: &git2::Repository, key: &PublicKey) -> Result<BTreeMap<String, git2::Oid>, E> {
    let k = key.to_string();
    Ok(namespaced_refs(raw)?.into_iter().filter(|((kk, _), _)| *kk == k).map(|((_, n), o)| (n, o)).collect())
}

struct SideState {
    raw: git2::Repository,
    counter: i64,
}

struct Exec<'a> {
    lab: &'a Lab,
    foreign: git2::Oid,
    marks: HashMap<String, git2::Oid>,
    dups: Vec<(usize, git2::Oid)>,
}

impl Exec<'_> {
    fn write_sigrefs(
        &self,
        st: &mut SideState,
        ns: usize,
        signer: usize,
        corrupt: bool,
        self_entry: Option<git2::Oid>,
    ) -> Result<git2::Oid, E> {
        let raw = &st.raw;
        let key = &self.lab.keys[ns];
        let mut map: BTreeMap<RefString, Oid> = BTreeMap::new();
        for (name, oid) in ns_refs_of(raw, key)? {
            if name != SIGREFS {
                map.insert(RefString::try_from(name.as_str())?, oid.into());
            }
        }
        // a hand-crafted blob that lists `refs/rad/sigrefs` itself (validly signed all the same)
        if let Some(o) = self_entry {
            map.insert(RefString::try_from(SIGREFS)?, o.into());
        }
        let refs = Refs::from(map);
        let canonical = refs.canonical();
        let signed = refs.signed(&self.lab.devs[signer])?;
        let sig: Signature = signed.signature;
        let mut sig_bytes: Vec<u8> = AsRef::<[u8]>::as_ref(&sig).to_vec();
        if corrupt {
            sig_bytes[7] ^= 0x10;
        }
        let tree = {
            let mut tb = raw.treebuilder(None)?;
            tb.insert("refs", raw.blob(&canonical)?, 0o100_644)?;
            tb.insert("signature", raw.blob(&sig_bytes)?, 0o100_644)?;
            raw.find_tree(tb.write()?)?
        };
        let name = ns_ref(key, SIGREFS);
        let parent = raw.refname_to_id(&name).ok().map(|o| raw.find_commit(o)).transpose()?;
        st.counter += 1;
        let author = fixed_sig("radicle", st.counter);
        let oid = raw.commit(None, &author, &author, "Update signed refs\n", &tree, &parent.iter().collect::<Vec<_>>())?;
        raw.reference(&name, oid, true, "lab")?;
        Ok(oid)
    }

    fn apply(&mut self, st: &mut SideState, side: Side, verb: &Verb) -> Result<(), E> {
        let keys = &self.lab.keys;
        match verb {
            Verb::Commit(k, r) => {
                let name = ns_ref(&keys[*k], r);
                let raw = &st.raw;
                let parent = raw.refname_to_id(&name).ok().map(|o| raw.find_commit(o)).transpose()?;
                st.counter += 1;
                let tree = {
                    let mut tb = raw.treebuilder(None)?;
                    let text = format!("{side:?} {k} {r} {}", st.counter);
                    tb.insert("README", raw.blob(text.as_bytes())?, 0o100_644)?;
                    raw.find_tree(tb.write()?)?
                };
                let sig = fixed_sig("lab", st.counter);
                let oid = raw.commit(None, &sig, &sig, "work", &tree, &parent.iter().collect::<Vec<_>>())?;
                raw.reference(&name, oid, true, "lab")?;
            }
            Verb::Set(k, r, j, q) => {
                let src = st.raw.refname_to_id(&ns_ref(&keys[*j], q))?;
                st.raw.reference(&ns_ref(&keys[*k], r), src, true, "lab")?;
            }
            Verb::Del(k, r) => {
                st.raw.find_reference(&ns_ref(&keys[*k], r))?.delete()?;
            }
            Verb::RmNs(k) => {
                for (name, _) in ns_refs_of(&st.raw, &keys[*k])? {
                    st.raw.find_reference(&ns_ref(&keys[*k], &name))?.delete()?;
                }
            }
            Verb::Resign(k) => {
                self.write_sigrefs(st, *k, *k, false, None)?;
            }
            Verb::SignSig(k, m) => {
                let oid = *self.marks.get(m).ok_or_else(|| format!("unknown mark {m}"))?;
                self.write_sigrefs(st, *k, *k, false, Some(oid))?;
            }
            Verb::BadSig(k) => {
                self.write_sigrefs(st, *k, *k, true, None)?;
            }
            Verb::Rekey(k, j) => {
                self.write_sigrefs(st, *k, *j, false, None)?;
            }
            Verb::Junk(k) => {
                let raw = &st.raw;
                let name = ns_ref(&keys[*k], SIGREFS);
                let parent = raw.refname_to_id(&name).ok().map(|o| raw.find_commit(o)).transpose()?;
                st.counter += 1;
                let tree = {
                    let mut tb = raw.treebuilder(None)?;
                    tb.insert("junk", raw.blob(b"not signed refs")?, 0o100_644)?;
                    raw.find_tree(tb.write()?)?
                };
                let sig = fixed_sig("mallory", st.counter);
                let oid = raw.commit(None, &sig, &sig, "Forged sigrefs", &tree, &parent.iter().collect::<Vec<_>>())?;
                raw.reference(&name, oid, true, "lab")?;
            }
            Verb::WrongRoot(k) => {
                st.raw.reference(&ns_ref(&keys[*k], "refs/rad/root"), self.foreign, true, "lab")?;
            }
            Verb::Rewind(k) => {
                let name = ns_ref(&keys[*k], SIGREFS);
                let tip = st.raw.find_commit(st.raw.refname_to_id(&name)?)?;
                let parent = tip.parent_id(0)?;
                st.raw.reference(&name, parent, true, "lab")?;
            }
            Verb::Back(k, r) => {
                let name = ns_ref(&keys[*k], r);
                let tip = st.raw.find_commit(st.raw.refname_to_id(&name)?)?;
                st.raw.reference(&name, tip.parent_id(0)?, true, "lab")?;
            }
            Verb::Mark(k, m) => {
                let oid = st.raw.refname_to_id(&ns_ref(&keys[*k], SIGREFS))?;
                self.marks.insert(m.clone(), oid);
            }
            Verb::DelCanon => {
                st.raw.find_reference(RAD_ID)?.delete()?;
            }
            Verb::Worker => {}
            Verb::RevOrder => {}
            Verb::AdvDup(k, m) => {
                let oid = *self.marks.get(m).ok_or_else(|| format!("unknown mark {m}"))?;
                self.dups.push((*k, oid));
            }
        }
        Ok(())
    }
}

// ---------------------------------------------------------------------------------------------
// The abstract world sent to the Lean driver
// ---------------------------------------------------------------------------------------------

#[derive(Clone, Debug, PartialEq, Eq)]
pub enum IdRoot {
    Absent,
    Same,
    Other,
}

#[derive(Clone, Debug)]
pub struct BlobInfo {
    pub refs: BTreeMap<String, git2::Oid>,
    pub sig_ok: bool,
    pub id_root: IdRoot,
}

impl BlobInfo {
    pub fn valid(&self) -> bool {
        self.sig_ok && self.id_root != IdRoot::Other
    }
}

type DocInfo = Option<(Vec<usize>, usize)>;

pub struct World {
    names: Vec<String>,
    oids: Vec<git2::Oid>,
    ldoc: DocInfo,
    adoc: DocInfo,
    local: usize,
    clone: bool,
    scope: Option<Vec<usize>>,
    blocked: Vec<usize>,
    refsat: Option<Vec<(usize, git2::Oid)>>,
    l: BTreeMap<(usize, String), git2::Oid>,
    a: BTreeMap<(usize, String), git2::Oid>,
    /// the advertisement is listed in reverse order
    a_rev: bool,
    /// `(key, oid)`: `rad/sigrefs` of `key` is listed a second time with this oid
    a_dups: Vec<(usize, git2::Oid)>,
    /// the scenario is also run at the node level
    worker: bool,
    /// `(key, sigrefs commit)` ↦ what an independent reading of the commit gives (`None` = unloadable).
    blobs: BTreeMap<(usize, usize), Option<BlobInfo>>,
    anc: BTreeMap<(usize, usize), char>,
}

impl World {
    fn name_ix(&self, n: &str) -> usize {
        self.names.iter().position(|x| x == n).expect("name indexed")
    }
    fn oid_ix(&self, o: &git2::Oid) -> Option<usize> {
        self.oids.iter().position(|x| x == o)
    }
    fn show_oid(&self, o: &git2::Oid) -> String {
        match self.oid_ix(o) {
            Some(i) => i.to_string(),
            None => format!("?{o}"),
        }
    }
    fn show_refdb(&self, db: &BTreeMap<(usize, String), git2::Oid>) -> String {
        self.show_refdb_ordered(db, false)
    }
    fn show_refdb_ordered(&self, db: &BTreeMap<(usize, String), git2::Oid>, rev: bool) -> String {
        if db.is_empty() {
            return "-".into();
        }
        let mut v: Vec<(usize, usize, String)> = db
            .iter()
            .map(|((k, n), o)| match self.names.iter().position(|x| x == n) {
                Some(i) => (*k, i, self.show_oid(o)),
                None => (*k, usize::MAX, format!("?{n}={o}")),
            })
            .collect();
        v.sort();
        if std::ptr::eq(db, &self.a) {
            let sig = self.name_ix(SIGREFS);
            let mut all = vec![];
            for e in v {
                let dup: Vec<_> = self.a_dups.iter().filter(|(k, _)| *k == e.0 && e.1 == sig).map(|(k, o)| (*k, sig, self.show_oid(o))).collect();
                all.push(e);
                all.extend(dup);
            }
            v = all;
        }
        if rev {
            v.reverse();
        }
        v.iter().map(|(k, n, o)| format!("{k}:{n}:{o}")).collect::<Vec<_>>().join(",")
    }
    fn show_doc(d: &DocInfo) -> String {
        match d {
            None => "-".into(),
            Some((ds, t)) => format!("{}/{t}", ds.iter().map(|d| d.to_string()).collect::<Vec<_>>().join(",")),
        }
    }
    fn list(xs: &[usize]) -> String {
        if xs.is_empty() {
            "-".into()
        } else {
            xs.iter().map(|x| x.to_string()).collect::<Vec<_>>().join(",")
        }
    }

    /// The case tokens read by the Lean driver.
    pub fn tokens(&self) -> String {
        let rad: Vec<usize> =
            self.names.iter().enumerate().filter(|(_, n)| n.starts_with("refs/rad")).map(|(i, _)| i).collect();
        let refsat = match &self.refsat {
            None => "none".to_string(),
            Some(v) if v.is_empty() => "-".to_string(),
            Some(v) => v.iter().map(|(k, o)| format!("{k}:{}", self.show_oid(o))).collect::<Vec<_>>().join(","),
        };
        let blobs = if self.blobs.is_empty() {
            "-".to_string()
        } else {
            self.blobs
                .iter()
                .map(|((k, o), b)| match b {
                    None => format!("{k}@{o}:x"),
                    Some(b) => {
                        let refs = if b.refs.is_empty() {
                            "-".to_string()
                        } else {
                            let mut v: Vec<(usize, String)> =
                                b.refs.iter().map(|(n, t)| (self.name_ix(n), self.show_oid(t))).collect();
                            v.sort();
                            v.iter().map(|(n, t)| format!("{n}>{t}")).collect::<Vec<_>>().join("+")
                        };
                        let root = match b.id_root {
                            IdRoot::Absent => "a",
                            IdRoot::Same => "s",
                            IdRoot::Other => "o",
                        };
                        format!("{k}@{o}:{}:{root}:{refs}", b.sig_ok as u8)
                    }
                })
                .collect::<Vec<_>>()
                .join(";")
        };
        let anc = if self.anc.is_empty() {
            "-".to_string()
        } else {
            self.anc.iter().map(|((a, b), c)| format!("{a}>{b}:{c}")).collect::<Vec<_>>().join(",")
        };
        format!(
            "nid={} nsig={} rad={} ldoc={} adoc={} local={} clone={} scope={} blocked={} refsat={} L={} A={} B={} ANC={} worker={}",
            self.name_ix(RAD_ID),
            self.name_ix(SIGREFS),
            Self::list(&rad),
            Self::show_doc(&self.ldoc),
            Self::show_doc(&self.adoc),
            self.local,
            self.clone as u8,
            match &self.scope {
                None => "all".to_string(),
                Some(v) => format!("f:{}", Self::list(v)),
            },
            Self::list(&self.blocked),
            refsat,
            self.show_refdb(&self.l),
            self.show_refdb_ordered(&self.a, self.a_rev),
            blobs,
            anc,
            self.worker as u8,
        )
    }
}

/// Independent reading of a sigrefs commit as the signed refs of `key`: the parsed refs, whether the
/// REAL Ed25519 verification accepts the signature over their canonical form, and what the signed
/// identity root (if any) names.
fn read_blob(u: &Repository, key: &PublicKey, at: git2::Oid) -> Option<BlobInfo> {
    let raw = &u.backend;
    let tree = raw.find_commit(at).ok()?.tree().ok()?;
    let blob = |p: &str| -> Option<Vec<u8>> {
        let e = tree.get_path(Path::new(p)).ok()?;
        let o = e.to_object(raw).ok()?;
        Some(o.as_blob()?.content().to_vec())
    };
    let refs = Refs::from_canonical(&blob("refs")?).ok()?;
    let sig = Signature::try_from(blob("signature")?.as_slice()).ok()?;
    let sig_ok = key.verify(refs.canonical(), &sig).is_ok();
    let id_root = match refs.get(&IDENTITY_ROOT) {
        None => IdRoot::Absent,
        Some(root) => match u.identity_doc_at(root) {
            Ok(doc) if RepoId::from(doc.blob) == u.id => IdRoot::Same,
            _ => IdRoot::Other,
        },
    };
    Some(BlobInfo { refs: refs.iter().map(|(n, o)| (n.to_string(), **o)).collect(), sig_ok, id_root })
}

fn ancestry(raw: &git2::Repository, old: git2::Oid, new: git2::Oid) -> Option<char> {
    if old == new {
        return Some('E');
    }
    let (ahead, behind) = raw.graph_ahead_behind(new, old).ok()?;
    Some(if ahead > 0 && behind == 0 {
        'A'
    } else if ahead == 0 && behind > 0 {
        'B'
    } else {
        'D'
    })
}

fn read_doc(lab: &Lab, repo: &Repository) -> DocInfo {
    let oid = repo.backend.refname_to_id(RAD_ID).ok()?;
    let doc = repo.identity_doc_at(oid.into()).ok()?;
    let mut ds: Vec<usize> = doc.doc.delegates().iter().filter_map(|d| lab.key_index(&PublicKey::from(*d))).collect();
    ds.sort();
    Some((ds, doc.doc.threshold()))
}

fn indexed(lab: &Lab, raw: &git2::Repository) -> Result<BTreeMap<(usize, String), git2::Oid>, E> {
    Ok(namespaced_refs(raw)?
        .into_iter()
        .filter_map(|((k, n), o)| Some(((lab.key_index(&PublicKey::from_str(&k).ok()?)?, n), o)))
        .collect())
}

// ---------------------------------------------------------------------------------------------
// Running one case
// ---------------------------------------------------------------------------------------------

/// Result of one case: the outcome for `Ctx::record`, and the world tokens to append to the case text.
pub struct CaseResult {
    pub outcome: Outcome,
    pub world: String,
    /// the scenario text to record instead of the input (node-level part dropped as inconclusive)
    pub scenario: Option<String>,
}

/// Which property's oracle classes to report (both oracles use the same run).
#[derive(Clone, Copy, PartialEq, Eq)]
pub enum Prop {
    C01,
    C02,
}

fn err_tag(dbg: &str) -> String {
    let mut depth = 0;
    let mut s = String::from("err-");
    for c in dbg.chars() {
        if c == '(' || c == '{' {
            depth += 1;
            if depth > 2 {
                break;
            }
            s.push('-');
        } else if c.is_ascii_alphanumeric() {
            s.push(c);
        } else if c == ' ' && depth >= 2 {
            break;
        }
    }
    s.trim_end_matches('-').to_string()
}

/// One executed case: the full case line for `cases.txt` (scenario text followed by the extracted world),
/// what the real code did, and whether the scenario could not be set up at all.
pub struct Executed {
    pub line: String,
    pub outcome: Outcome,
    pub setup_error: Option<String>,
}

impl Lab {
    pub fn run_case(&mut self, input: &str, prop: Prop) -> Executed {
        self.run_many(&[input.to_string()], prop, 1).pop().expect("one result")
    }

    /// Run the cases (in parallel on `threads` workers; every case is independent and deterministic) and
    /// return the results in input order.
    pub fn run_many(&mut self, inputs: &[String], prop: Prop, threads: usize) -> Vec<Executed> {
        let texts: Vec<String> = inputs
            .iter()
            .map(|i| match i.find(" | ") {
                Some(p) => i[..p].to_string(),
                None => i.trim_end().to_string(),
            })
            .collect();
        let parsed: Vec<Option<Scenario>> = texts.iter().map(|t| Scenario::parse(t)).collect();
        let mut base_errors: HashMap<String, String> = HashMap::new();
        for sc in parsed.iter().flatten() {
            if let Err(e) = self.ensure_base(sc.n, &sc.delegates, sc.threshold) {
                base_errors.insert(Self::base_id(sc.n, &sc.delegates, sc.threshold), e.to_string());
            }
        }
        let first = self.seq;
        self.seq += inputs.len() as u64;
        let lab: &Lab = self;
        let one = |i: usize| -> Executed {
            let bad = |e: Option<String>| Executed {
                line: inputs[i].clone(),
                outcome: Outcome::new("bad-case").trivial().tag("bad-case"),
                setup_error: e,
            };
            match &parsed[i] {
                None => bad(None),
                Some(sc) => {
                    let dir = lab.tmp.path().join(format!("run-{}", first + i as u64));
                    let r = lab.run_in(sc, prop, &dir).map_err(|e| e.to_string());
                    let _ = std::fs::remove_dir_all(&dir);
                    match r {
                        Ok(r) => Executed {
                            line: format!("{} | {}", r.scenario.as_deref().unwrap_or(&texts[i]), r.world),
                            outcome: r.outcome,
                            setup_error: None,
                        },
                        Err(e) => bad(Some(e)),
                    }
                }
            }
        };
        let threads = threads.max(1).min(inputs.len().max(1));
        if threads == 1 {
            return (0..inputs.len()).map(one).collect();
        }
        let mut slots: Vec<Option<Executed>> = (0..inputs.len()).map(|_| None).collect();
        std::thread::scope(|scope| {
            let handles: Vec<_> = (0..threads)
                .map(|w| {
                    let one = &one;
                    let n = inputs.len();
                    scope.spawn(move || (w..n).step_by(threads).map(|i| (i, one(i))).collect::<Vec<_>>())
                })
                .collect();
            for h in handles {
                for (i, e) in h.join().expect("worker") {
                    slots[i] = Some(e);
                }
            }
        });
        slots.into_iter().map(|e| e.expect("all cases executed")).collect()
    }

    fn run_in(&self, sc: &Scenario, prop: Prop, dir: &Path) -> Result<CaseResult, E> {
        let (base_path, rid, foreign) = {
            let b = self.base(sc.n, &sc.delegates, sc.threshold)?;
            (b.path.clone(), b.rid, b.foreign)
        };
        let lab: &Lab = self;
        let t0 = std::time::Instant::now();
        let timing = std::env::var("FETCHLAB_TIMING").is_ok();
        let (s_path, l_path, u_path) = (dir.join("S"), dir.join("L"), dir.join("U"));
        copy_dir(&base_path, &s_path)?;
        let info = radicle::git::UserInfo { alias: Alias::new("lab"), key: lab.keys[sc.local] };
        // ---- tamper / evolve both sides -------------------------------------------------------
        let mut ex = Exec { lab, foreign, marks: HashMap::new(), dups: vec![] };
        let mut s = SideState { raw: git2::Repository::open(&s_path)?, counter: 1000 };
        for (side, verb) in &sc.ops {
            if *side == Side::B {
                ex.apply(&mut s, *side, verb)?;
            }
        }
        if sc.clone {
            Repository::create(&l_path, rid, &info)?;
        } else {
            copy_dir(&s_path, &l_path)?;
        }
        let mut l = SideState { raw: git2::Repository::open(&l_path)?, counter: 2000 };
        for (side, verb) in &sc.ops {
            match side {
                Side::B => {}
                Side::S => ex.apply(&mut s, *side, verb)?,
                Side::L => ex.apply(&mut l, *side, verb)?,
            }
        }
        let refsat: Option<Vec<(usize, git2::Oid)>> = match &sc.refsat {
            None => None,
            Some(v) => Some(
                v.iter()
                    .map(|(k, m)| ex.marks.get(m).map(|o| (*k, *o)).ok_or_else(|| format!("unknown mark {m}")))
                    .collect::<Result<_, _>>()?,
            ),
        };
        if timing { eprintln!("setup {:?}", t0.elapsed()); }
        // ---- union object database (for the independent readings only) -------------------------
        let u = Repository::create(&u_path, rid, &info)?;
        std::fs::create_dir_all(u_path.join("objects/info"))?;
        std::fs::write(
            u_path.join("objects/info/alternates"),
            format!("{}\n{}\n", s_path.join("objects").display(), l_path.join("objects").display()),
        )?;
        let u = Repository::open(u.backend.path(), rid)?;

        // ---- extract the abstract world ---------------------------------------------------------
        let l_repo = Repository::open(&l_path, rid)?;
        let s_repo = Repository::open(&s_path, rid)?;
        let lrefs = indexed(lab, &l.raw)?;
        let arefs = indexed(lab, &s.raw)?;
        let mut w = World {
            names: vec![],
            oids: vec![],
            ldoc: read_doc(lab, &l_repo),
            adoc: read_doc(lab, &s_repo),
            local: sc.local,
            clone: sc.clone,
            scope: sc.scope.clone(),
            blocked: sc.blocked.clone(),
            refsat: refsat.clone(),
            l: lrefs.clone(),
            a: arefs.clone(),
            a_rev: sc.ops.iter().any(|(_, v)| matches!(v, Verb::RevOrder)),
            a_dups: ex.dups.clone(),
            worker: sc.ops.iter().any(|(_, v)| matches!(v, Verb::Worker)),
            blobs: BTreeMap::new(),
            anc: BTreeMap::new(),
        };
        let mut push_oid = |w: &mut World, o: git2::Oid| {
            if !w.oids.contains(&o) {
                w.oids.push(o);
            }
        };
        for o in lrefs.values() {
            push_oid(&mut w, *o);
        }
        for o in arefs.values() {
            push_oid(&mut w, *o);
        }
        for (_, o) in refsat.iter().flatten().chain(ex.dups.iter()) {
            push_oid(&mut w, *o);
        }
        // candidate sigrefs commits per key
        let mut cands: Vec<(usize, git2::Oid)> = vec![];
        for db in [&lrefs, &arefs] {
            for ((k, n), o) in db.iter() {
                if n == SIGREFS {
                    cands.push((*k, *o));
                }
            }
        }
        cands.extend(refsat.iter().flatten().cloned());
        cands.extend(ex.dups.iter().cloned());
        let mut blobs: Vec<((usize, git2::Oid), Option<BlobInfo>)> = vec![];
        for (k, o) in cands {
            if !blobs.iter().any(|(x, _)| *x == (k, o)) {
                blobs.push(((k, o), read_blob(&u, &lab.keys[k], o)));
            }
        }
        blobs.sort_by_key(|((k, o), _)| (*k, w.oid_ix(o)));
        for (_, b) in &blobs {
            for t in b.iter().flat_map(|b| b.refs.values()) {
                push_oid(&mut w, *t);
            }
        }
        let mut names: BTreeSet<String> = [RAD_ID.to_string(), SIGREFS.to_string()].into();
        names.extend(lrefs.keys().map(|(_, n)| n.clone()));
        names.extend(arefs.keys().map(|(_, n)| n.clone()));
        names.extend(blobs.iter().flat_map(|(_, b)| b.iter().flat_map(|b| b.refs.keys().cloned())));
        w.names = names.into_iter().collect();
        // ancestry graph on the points the code can ask about
        let mut per_ref: BTreeMap<(usize, String), Vec<git2::Oid>> = BTreeMap::new();
        let mut add = |k: usize, n: &str, o: git2::Oid| {
            let v = per_ref.entry((k, n.to_string())).or_default();
            if !v.contains(&o) {
                v.push(o);
            }
        };
        for ((k, n), o) in lrefs.iter().chain(arefs.iter()) {
            add(*k, n, *o);
        }
        for (k, o) in refsat.iter().flatten().chain(ex.dups.iter()) {
            add(*k, SIGREFS, *o);
        }
        for ((k, _), b) in &blobs {
            for (n, t) in b.iter().flat_map(|b| b.refs.iter()) {
                add(*k, n, *t);
            }
        }
        for v in per_ref.values() {
            for x in v {
                for y in v {
                    if x != y {
                        if let (Some(c), Some(i), Some(j)) = (ancestry(&u.backend, *x, *y), w.oid_ix(x), w.oid_ix(y)) {
                            w.anc.insert((i, j), c);
                        }
                    }
                }
            }
        }
        for ((k, o), b) in &blobs {
            let i = w.oid_ix(o).expect("indexed");
            w.blobs.insert((*k, i), b.clone());
        }
        let world = w.tokens();

        if timing { eprintln!("world {:?}", t0.elapsed()); }
        // ---- run the real fetch -------------------------------------------------------------------
        let before_all = namespaced_refs(&l.raw)?;
        let before_other = other_refs(&l.raw)?;
        let allowed = match &sc.scope {
            None => Allowed::All,
            Some(ks) => Allowed::Followed { remotes: ks.iter().map(|k| lab.keys[*k]).collect() },
        };
        let blocked = BlockList::from_iter(sc.blocked.iter().map(|k| lab.keys[*k]));
        let refs_at: Option<Vec<RefsAt>> =
            refsat.as_ref().map(|v| v.iter().map(|(k, o)| RefsAt { remote: lab.keys[*k], at: (*o).into() }).collect());
        let mut scenario_override: Option<String> = None;
        let mut worker_inconclusive = false;
        let worker_obs: Option<WorkerObs> = if w.worker {
            if sc.scope.is_some() || !sc.blocked.is_empty() || sc.refsat.is_some() || w.a_rev || !w.a_dups.is_empty() {
                return Err("the node-level run supports scope=all blocked=- refsat=- and the plain transport only".into());
            }
            let run = lab.worker.as_ref().ok_or("this harness binary cannot run scenarios at the node level")?;
            let job = WorkerJob { rid, server_repo: &s_path, local_repo: if sc.clone { None } else { Some(&l_path) } };
            match run(&job) {
                Ok(o) => Some(o),
                Err(e) if e.starts_with("inconclusive") => {
                    // The two nodes never got to a verdict (load, timeouts): the case is recorded WITHOUT the
                    // node-level observation — never as an outcome.
                    worker_inconclusive = true;
                    w.worker = false;
                    scenario_override = Some(sc.text_without_worker());
                    None
                }
                Err(e) => return Err(e.into()),
            }
        } else {
            None
        };
        let world = if worker_inconclusive { w.tokens() } else { world };
        let result = {
            let extra = w.a_dups.iter().map(|(k, o)| (ns_ref(&lab.keys[*k], SIGREFS), *o)).collect();
            let conn = UploadPack::spawn(&s_path, w.a_rev, extra)?;
            let mut handle = Handle::new(lab.keys[sc.local], l_repo, allowed, blocked, conn)?;
            let remote = lab.keys[SERVER];
            let clone = sc.clone;
            catch(move || {
                if clone {
                    radicle_fetch::clone(&mut handle, FetchLimit::default(), remote)
                } else {
                    radicle_fetch::pull(&mut handle, FetchLimit::default(), remote, refs_at)
                }
            })
        };
        if timing { eprintln!("fetch {:?}", t0.elapsed()); }
        // ---- canonical output -----------------------------------------------------------------------
        let l_raw = git2::Repository::open(&l_path)?;
        let after = indexed(lab, &l_raw)?;
        let after_all = namespaced_refs(&l_raw)?;
        let after_other = other_refs(&l_raw)?;
        let mut tags: Vec<String> = vec![];
        let (class, detail) = match &result {
            Err(_) => ("panic", String::new()),
            Ok(Err(e)) => {
                tags.push(err_tag(&format!("{e:?}")));
                ("error", String::new())
            }
            Ok(Ok(FetchResult::Failed { .. })) => ("failed", String::new()),
            Ok(Ok(FetchResult::Success { remotes, .. })) => {
                let mut rs: Vec<usize> = remotes.iter().filter_map(|k| lab.key_index(k)).collect();
                rs.sort();
                ("success", format!(" r={}", World::list(&rs)))
            }
        };
        let mut output = format!("{class}{detail} L={}", w.show_refdb(&after));
        if let Some(o) = &worker_obs {
            output.push_str(&format!(" ; worker={} dir={}", if o.success { "success" } else { "failed" }, o.dir as u8));
        }
        let mut out = Outcome::new(output);
        tags.push(format!("outcome-{class}"));
        tags.push(if sc.clone { "mode-clone" } else { "mode-pull" }.to_string());
        tags.push(if sc.refsat.is_some() { "refsat-some" } else { "refsat-none" }.to_string());
        tags.push(if sc.scope.is_some() { "scope-followed" } else { "scope-all" }.to_string());
        if !sc.blocked.is_empty() {
            tags.push("blocked-nonempty".into());
        }
        tags.push(format!("delegates-{}-threshold-{}", sc.delegates.len(), sc.threshold));
        tags.push(if sc.delegates.contains(&sc.local) { "local-delegate" } else { "local-not-delegate" }.to_string());
        for (_, v) in &sc.ops {
            tags.push(format!("op-{}", format!("{v:?}").split('(').next().unwrap_or("").to_lowercase()));
        }

        // ---- oracle: the property statements on the real before/after storages ------------------------
        let changed_any = before_all != after_all || before_other != after_other;
        let keys_seen: BTreeSet<String> = before_all.keys().chain(after_all.keys()).map(|(k, _)| k.clone()).collect();
        let after_repo = Repository::open(&l_path, rid)?;
        let mut n_changed = 0;
        let mut viol: Vec<(String, String)> = vec![];
        let proj = |db: &BTreeMap<(String, String), git2::Oid>, k: &str| -> BTreeMap<String, git2::Oid> {
            db.iter().filter(|((kk, _), _)| kk == k).map(|((_, n), o)| (n.clone(), *o)).collect()
        };
        // the effective delegate set / threshold as the property states them
        let doc = if sc.clone { w.adoc.clone() } else { w.ldoc.clone().or(w.adoc.clone()) };
        for k in &keys_seen {
            let (b, a) = (proj(&before_all, k), proj(&after_all, k));
            let ki = PublicKey::from_str(k).ok().and_then(|pk| lab.key_index(&pk));
            let kname = ki.map(|i| i.to_string()).unwrap_or_else(|| k.clone());
            if a != b {
                n_changed += 1;
                // C01, first sentence.
                if prop == Prop::C01 {
                    let Ok(pk) = PublicKey::from_str(k) else { continue };
                    match a.get(SIGREFS) {
                        None => viol.push((
                            "changed-namespace-without-sigrefs".into(),
                            format!("namespace {kname} was changed by the fetch but has no rad/sigrefs: {:?}", a.keys().collect::<Vec<_>>()),
                        )),
                        Some(at) => match SignedRefsAt::load(pk, &after_repo) {
                            Ok(Some(sr)) => {
                                let signed: BTreeMap<String, git2::Oid> =
                                    sr.sigrefs.refs.iter().map(|(n, o)| (n.to_string(), **o)).collect();
                                let mut have = a.clone();
                                have.remove(SIGREFS);
                                if have != signed {
                                    let extra: Vec<&String> = have.keys().filter(|n| !signed.contains_key(*n)).collect();
                                    let missing: Vec<&String> = signed.keys().filter(|n| !have.contains_key(*n)).collect();
                                    let moved: Vec<&String> =
                                        have.iter().filter(|(n, o)| signed.get(*n).map(|s| s != *o).unwrap_or(false)).map(|(n, _)| n).collect();
                                    // Known finding `stale-unsigned-rad-ref`: a `refs/rad/*` ref (not rad/sigrefs) that
                                    // was stored before the fetch, was listed in the previously stored signed refs, is
                                    // no longer listed in the new ones and was kept untouched ("'rad/' refs are never
                                    // subject to pruning").
                                    let prev_signed: Option<&BlobInfo> = ki
                                        .zip(b.get(SIGREFS).and_then(|o| w.oid_ix(o)))
                                        .and_then(|(i, o)| w.blobs.get(&(i, o)))
                                        .and_then(|x| x.as_ref());
                                    let (stale, unsigned): (Vec<&String>, Vec<&String>) = extra.iter().partition(|n| {
                                        n.starts_with("refs/rad/")
                                            && n.as_str() != SIGREFS
                                            && b.get(n.as_str()) == have.get(n.as_str())
                                            && prev_signed.map(|p| p.refs.contains_key(n.as_str())).unwrap_or(false)
                                    });
                                    let what = format!("namespace {kname} (sigrefs {at}) differs from its signed refs");
                                    if !moved.is_empty() {
                                        viol.push(("changed-namespace-ref-differs-from-sigrefs".into(), format!("{what}: moved {moved:?}")));
                                    }
                                    if !missing.is_empty() {
                                        viol.push(("changed-namespace-misses-signed-ref".into(), format!("{what}: missing {missing:?}")));
                                    }
                                    if !unsigned.is_empty() {
                                        viol.push(("changed-namespace-has-unsigned-ref".into(), format!("{what}: unsigned {unsigned:?}")));
                                    }
                                    if !stale.is_empty() {
                                        viol.push(("stale-unsigned-rad-ref".into(), format!("{what}: stale refs/rad refs kept {stale:?}")));
                                    }
                                }
                                // independent reading must agree that the blob is valid for this repository
                                match read_blob(&after_repo, &pk, *at) {
                                    Some(bi) if bi.valid() => {}
                                    other => viol.push((
                                        "changed-namespace-invalid-sigrefs".into(),
                                        format!("namespace {kname}: stored sigrefs {at} accepted by SignedRefsAt::load but independent reading says {other:?}"),
                                    )),
                                }
                            }
                            Ok(None) => viol.push(("changed-namespace-without-sigrefs".into(), format!("namespace {kname}"))),
                            Err(e) => viol.push((
                                "changed-namespace-invalid-sigrefs".into(),
                                format!("namespace {kname} was changed by the fetch but its rad/sigrefs {at} does not verify: {e}"),
                            )),
                        },
                    }
                    // C01, second sentence: advertised data that fails the checks ⇒ namespace untouched.
                    if let Some(i) = ki {
                        let offered: Option<usize> = match &refsat {
                            Some(v) if v.iter().any(|(kk, _)| *kk == i) => {
                                v.iter().rev().find(|(kk, _)| *kk == i).and_then(|(_, o)| w.oid_ix(o))
                            }
                            _ => {
                                // what the serving side lists last for this remote's rad/sigrefs
                                let mut listed: Vec<git2::Oid> = arefs.get(&(i, SIGREFS.to_string())).into_iter().cloned().collect();
                                if !listed.is_empty() {
                                    listed.extend(w.a_dups.iter().filter(|(kk, _)| *kk == i).map(|(_, o)| *o));
                                }
                                if w.a_rev {
                                    listed.reverse();
                                }
                                listed.last().and_then(|o| w.oid_ix(o))
                            }
                        };
                        let bad = match offered {
                            None => true,
                            Some(o) => !w.blobs.get(&(i, o)).and_then(|b| b.as_ref()).map(|b| b.valid()).unwrap_or(false),
                        };
                        if bad {
                            viol.push((
                                "invalid-offer-changed-namespace".into(),
                                format!("namespace {kname}: the offered signed refs are missing or invalid, yet the namespace changed"),
                            ));
                        }
                    }
                }
            }
            // C02, first sentence.
            if prop == Prop::C02 {
                if let (Some(i), Some((ds, _))) = (ki, &doc) {
                    if ds.contains(&i) {
                        if let Some(c) = b.get(SIGREFS) {
                            match a.get(SIGREFS) {
                                None => viol.push(("delegate-sigrefs-removed".into(), format!("delegate {kname}: stored rad/sigrefs {c} was deleted"))),
                                Some(c2) if c2 == c => {}
                                Some(c2) => {
                                    if !l_raw.graph_descendant_of(*c2, *c).unwrap_or(false) {
                                        viol.push((
                                            "delegate-sigrefs-rewound".into(),
                                            format!("delegate {kname}: rad/sigrefs moved from {c} to {c2}, which does not descend from it"),
                                        ));
                                    }
                                }
                            }
                        }
                    }
                }
            }
        }
        // One level up: a fetch that does not succeed must leave the node's storage as it was.
        if let Some(o) = &worker_obs {
            tags.push(format!("worker-{}-{}-dir{}-contains-{}", if sc.clone { "clone" } else { "pull" }, if o.success { "success" } else { "failed" }, o.dir as u8, o.contains));
            if !o.success && sc.clone && o.dir {
                viol.push((
                    "failed-clone-leaves-repository".into(),
                    format!("node-level clone failed ({}) but a repository directory was left in storage: opens={} contains={}", o.detail, o.opens, o.contains),
                ));
            }
            if !o.success && !sc.clone && !o.refs_unchanged {
                viol.push(("failed-pull-changed-storage".into(), format!("node-level pull failed ({}) but the references changed", o.detail)));
            }
        }
        // A panic of the real fetch is always a violation (both properties): a remote must not be able to
        // bring the fetch worker down.
        if let Err(msg) = &result {
            viol.push(("fetch-panic".into(), format!("the real fetch panicked: {msg}")));
        }
        if prop == Prop::C01 && before_other != after_other {
            viol.push(("non-namespaced-ref-changed".into(), format!("{before_other:?} -> {after_other:?}")));
        }
        if prop == Prop::C02 {
            if let Some((ds, thr)) = &doc {
                // The delegates with valid signed refs (reading of DESIGN §6 C02, `delegateValid` in
                // Lemmas/Fetch.lean): a considered delegate (not blocked, not the local node on pull) counts iff
                //  * it is not part of this fetch (refs_at given and it is not announced) and has a stored
                //    rad/sigrefs; or
                //  * signed refs are found for it (offered tip, else the stored one), they load and verify,
                //    and they pass every check of this fetch: offered at all, not diverged from the stored
                //    tip, the blob does not list rad/sigrefs, an advertised rad/id is signed; an offered tip
                //    that is merely BEHIND the stored one leaves the stored refs valid.
                // A delegate whose offered data fails a check in this fetch does not count, even if valid
                // refs are stored for it.
                let local_is_delegate = ds.contains(&sc.local);
                let need = if local_is_delegate { thr - 1 } else { *thr };
                let mut could = 0;
                let mut why: Vec<String> = vec![];
                for d in ds {
                    if sc.blocked.contains(d) || (!sc.clone && *d == sc.local) {
                        continue;
                    }
                    let stored: Option<git2::Oid> = lrefs.get(&(*d, SIGREFS.to_string())).cloned();
                    let verdict: Result<(), &'static str> = (|| {
                        let offered: Option<git2::Oid> = match &refsat {
                            Some(v) => match v.iter().rev().find(|(k, _)| k == d) {
                                Some((_, o)) => Some(*o),
                                None => return if stored.is_some() { Ok(()) } else { Err("not-announced-not-stored") },
                            },
                            None => {
                                let mut listed: Vec<git2::Oid> = arefs.get(&(*d, SIGREFS.to_string())).into_iter().cloned().collect();
                                if !listed.is_empty() {
                                    listed.extend(w.a_dups.iter().filter(|(k, _)| k == d).map(|(_, o)| *o));
                                }
                                if w.a_rev {
                                    listed.reverse();
                                }
                                listed.last().cloned()
                            }
                        };
                        let tip = offered.or(stored).ok_or("no-sigrefs")?;
                        let blob = w
                            .oid_ix(&tip)
                            .and_then(|i| w.blobs.get(&(*d, i)))
                            .and_then(|b| b.as_ref())
                            .ok_or("unloadable")?;
                        if !blob.valid() {
                            return Err("does-not-verify");
                        }
                        if let Some(cur) = stored {
                            if cur != tip {
                                let a = w.oid_ix(&cur).zip(w.oid_ix(&tip)).and_then(|p| w.anc.get(&p)).cloned();
                                match a {
                                    Some('A') | Some('E') => {}
                                    Some('B') => return Ok(()), // behind: the stored refs stay valid
                                    Some('D') => return Err("diverged"),
                                    _ => return Err("ancestry-unknown"),
                                }
                            }
                        }
                        if offered.is_none() {
                            return Err("sigrefs-not-offered");
                        }
                        if blob.refs.contains_key(SIGREFS) {
                            return Err("blob-lists-sigrefs");
                        }
                        if refsat.is_none() && arefs.contains_key(&(*d, RAD_ID.to_string())) && !blob.refs.contains_key(RAD_ID) {
                            return Err("unsigned-rad-id");
                        }
                        Ok(())
                    })();
                    match verdict {
                        Ok(()) => could += 1,
                        Err(e) => {
                            why.push(format!("{d}:{e}"));
                            if stored.is_some() {
                                tags.push(format!("stored-delegate-{e}"));
                            }
                        }
                    }
                }
                tags.push(if could < need { "below-threshold" } else if could == need { "at-threshold" } else { "above-threshold" }.to_string());
                if could < need {
                    if class == "success" {
                        viol.push((
                            "below-threshold-success".into(),
                            format!("only {could} delegate(s) have valid signed refs ({why:?} do not), {need} needed, but the fetch reported success"),
                        ));
                    }
                    if changed_any {
                        viol.push((
                            "below-threshold-storage-changed".into(),
                            format!("only {could} delegate(s) have valid signed refs ({why:?} do not), {need} needed, but local storage changed"),
                        ));
                    }
                }
            }
            if class == "failed" && changed_any {
                viol.push(("failed-storage-changed".into(), "FetchResult::Failed but local storage changed".into()));
            }
        }
        if timing { eprintln!("oracle {:?}", t0.elapsed()); }
        tags.push(if n_changed == 0 { "ns-changed-0".to_string() } else { format!("ns-changed-{}", n_changed.min(3)) });
        out.nontrivial = n_changed > 0 || !sc.ops.is_empty();
        tags.sort();
        tags.dedup();
        out.tags = tags;
        out.violations = viol;
        if worker_inconclusive {
            out.tags.push("worker-inconclusive-skipped".into());
        }
        Ok(CaseResult { outcome: out, world, scenario: scenario_override })
    }
}

/// Non-namespaced references (canonical `refs/rad/id`, heads, …).
fn other_refs(raw: &git2::Repository) -> Result<BTreeMap<String, git2::Oid>, E> {
    let mut out = BTreeMap::new();
    for r in raw.references()? {
        let r = r?;
        let Some(name) = r.name() else { continue };
        if name.starts_with("refs/namespaces/") {
            continue;
        }
        if let Some(t) = r.resolve().ok().and_then(|r| r.target()) {
            out.insert(name.to_string(), t);
        }
    }
    Ok(out)
}
