import HeartwoodModel.Model.Base58
/-!
# Textual identifiers (C21): `PublicKey`, `Did`, `RepoId`, `Alias`, `UserAgent`

* `PublicKey` (radicle-crypto `lib.rs`): 32 bytes. `to_human` = `multibase::encode(Base58Btc,
  [0xed, 0x01] ++ key)` = `'z' :: base58(…)`. `from_str` = `multibase::decode`, strip the multicodec
  prefix, `ed25519::PublicKey::from_slice` (length 32, nothing else).
* `Did` (`identity/did.rs`): `"did:key:" ++ key`.
* `RepoId` (`identity/doc/id.rs`): 20 bytes; `"rad:" ++ 'z' :: base58(oid)`; `from_urn` strips the prefix
  *if present*, `multibase::decode`, `git2::Oid::from_bytes` (length 20).
* `Alias`, `UserAgent` (`node.rs`): validated strings, printed verbatim.

`multibase::decode` looks at the first character: `'z'` is base-58-btc (modelled, `Model/Base58.lean`);
every other code (22 more bases, or an unknown one) is the **opaque parameter** `other : Bytes → Option
Bytes` (whole input ↦ decoded bytes), supplied per case by the real code. Strings are UTF-8 byte lists
for the keys/ids (everything the code inspects there is ASCII) and code-point lists for `Alias` /
`UserAgent` (whose rules are about `char`s; their length limits are in UTF-8 bytes: `utf8Len`).
-/
namespace HeartwoodModel.Ids
open HeartwoodModel.Base58

/-! ## multibase -/

inductive ParseError
  | multibase      -- empty input, unknown base, or the base's decoder failed
  | multicodec     -- not prefixed with 0xed 0x01
  | length         -- wrong number of bytes
  | prefix         -- `did:key:` missing
  | fuel           -- never (see `b58decode_total`)
  deriving Repr, DecidableEq

/-- `multibase::decode(s).map(|(_, bytes)| bytes)` -/
def multibaseDecode (other : Bytes → Option Bytes) (s : Bytes) : Except ParseError Bytes :=
  match s with
  | [] => .error .multibase
  | 0x7a :: rest =>
    match b58decode rest with
    | .ok bs => .ok bs
    | .invalid => .error .multibase
    | .fuel => .error .fuel
  | _ =>
    match other s with
    | some bs => .ok bs
    | none => .error .multibase

/-- `multibase::encode(Base::Base58Btc, bs)` -/
def multibaseEncode (bs : Bytes) : Option Bytes := (b58encode bs).map (0x7a :: ·)

/-- `l.strip_prefix(p)` -/
def stripPrefix (p : Bytes) (l : Bytes) : Option Bytes :=
  match p, l with
  | [], l => some l
  | _ :: _, [] => none
  | a :: p', b :: l' => if a = b then stripPrefix p' l' else none

/-! ## PublicKey -/

def multicodecEd25519 : Bytes := [0xed, 0x01]

/-- `PublicKey::to_human` / `Display` -/
def pkPrint (key : Bytes) : Option Bytes := multibaseEncode (multicodecEd25519 ++ key)

/-- `PublicKey::from_str` -/
def pkParse (other : Bytes → Option Bytes) (s : Bytes) : Except ParseError Bytes :=
  match multibaseDecode other s with
  | .error e => .error e
  | .ok bs =>
    match stripPrefix multicodecEd25519 bs with
    | none => .error .multicodec
    | some key => if key.length = 32 then .ok key else .error .length

/-! ## Did -/

/-- `did:key:` -/
def didPrefix : Bytes := [0x64, 0x69, 0x64, 0x3a, 0x6b, 0x65, 0x79, 0x3a]

def didPrint (key : Bytes) : Option Bytes := (pkPrint key).map (didPrefix ++ ·)

def didParse (other : Bytes → Option Bytes) (s : Bytes) : Except ParseError Bytes :=
  match stripPrefix didPrefix s with
  | none => .error .prefix
  | some k => pkParse other k

/-! ## RepoId -/

/-- `rad:` -/
def radPrefix : Bytes := [0x72, 0x61, 0x64, 0x3a]

/-- `RepoId::urn` / `Display` -/
def ridPrint (oid : Bytes) : Option Bytes := (multibaseEncode oid).map (radPrefix ++ ·)

/-- `RepoId::from_urn` / `FromStr` -/
def ridParse (other : Bytes → Option Bytes) (s : Bytes) : Except ParseError Bytes :=
  let s' := match stripPrefix radPrefix s with
    | some r => r
    | none => s
  match multibaseDecode other s' with
  | .error e => .error e
  | .ok bs => if bs.length = 20 then .ok bs else .error .length

/-! ## code points -/

/-- `char::len_utf8` -/
def utf8Len (c : Nat) : Nat := if c < 0x80 then 1 else if c < 0x800 then 2 else if c < 0x10000 then 3 else 4

/-- `str::len` of the string made of these code points. -/
def strLen (cs : List Nat) : Nat := (cs.map utf8Len).sum

/-- `char::is_control` (general category Cc). -/
def isControl (c : Nat) : Bool := c ≤ 0x1f || (0x7f ≤ c && c ≤ 0x9f)

/-- `char::is_whitespace` (property White_Space). -/
def isWhitespace (c : Nat) : Bool :=
  (0x09 ≤ c && c ≤ 0x0d) || c == 0x20 || c == 0x85 || c == 0xa0 || c == 0x1680 ||
  (0x2000 ≤ c && c ≤ 0x200a) || c == 0x2028 || c == 0x2029 || c == 0x202f || c == 0x205f || c == 0x3000

/-- `char::is_ascii_graphic` -/
def isAsciiGraphic (c : Nat) : Bool := 0x21 ≤ c && c ≤ 0x7e

/-! ## Alias -/

inductive AliasError
  | empty | invalidCharacter | maxBytesExceeded
  deriving Repr, DecidableEq

def maxAliasLength : Nat := 32

/-- `Alias::from_str` (the alias *is* the string; `Display` prints it verbatim). -/
def aliasParse (s : List Nat) : Except AliasError (List Nat) :=
  if s.isEmpty then .error .empty
  else if s.any (fun c => isControl c || isWhitespace c) then .error .invalidCharacter
  else if strLen s > maxAliasLength then .error .maxBytesExceeded
  else .ok s

def aliasPrint (a : List Nat) : List Nat := a

/-! ## UserAgent -/

/-- `s.split(sep)` on code points. -/
def splitOn (sep : Nat) : List Nat → List (List Nat)
  | [] => [[]]
  | c :: cs =>
    if c = sep then [] :: splitOn sep cs
    else match splitOn sep cs with
      | [] => [[c]]
      | x :: xs => (c :: x) :: xs

/-- `s.split_once(sep)` -/
def splitOnce (sep : Nat) : List Nat → Option (List Nat × List Nat)
  | [] => none
  | c :: cs =>
    if c = sep then some ([], cs)
    else match splitOnce sep cs with
      | none => none
      | some (a, b) => some (c :: a, b)

def reserved (c : Nat) : Bool := c == 0x2f || c == 0x3a

/-- The closure passed to `all` in `UserAgent::from_str`. Note the `||` in the version test, as in the
code: it makes the test vacuous (every char is graphic or not reserved). -/
def segmentOk (seg : List Nat) : Bool :=
  match splitOnce 0x3a seg with
  | some (client, version) =>
    if client.isEmpty || version.isEmpty then false
    else client.all (fun c => isAsciiGraphic c && !reserved c) &&
         version.all (fun c => isAsciiGraphic c || !reserved c)
  | none => true

/-- `UserAgent::from_str`; `none` = `Err(input)`. -/
def uaParse (s : List Nat) : Option (List Nat) :=
  if strLen s > 64 then none
  else match s with
    | 0x2f :: s1 =>
      -- `strip_suffix('/')`
      match s1.getLast? with
      | some 0x2f =>
        let s2 := s1.dropLast
        if s2.isEmpty then none
        else if (splitOn 0x2f s2).all segmentOk then some s else none
      | _ => none
    | _ => none

def uaPrint (u : List Nat) : List Nat := u

end HeartwoodModel.Ids
