/-! Driver entry for property C19 (stub: not implemented yet). -/
namespace HeartwoodModel.Driver.C19

def run (_args : List String) : String := "unimplemented"

end HeartwoodModel.Driver.C19
