//! Case generators for C01 and C02 (text form of the scenarios; the same text is what is executed).
use verif_common::Rng;

pub const C01_RULE: &str = "one scenario per tamper kind (honest advance, unsigned extra ref, moved ref, deleted signed ref, \
corrupted signature, re-keyed signature, sigrefs naming another repository's identity root, server behind, diverged, unloadable \
sigrefs commit, sigrefs ref missing, unsigned/moved/diverged namespace rad/id, rad/id without sigrefs for an unknown namespace, dropped \
rad/ ref, new namespace, honestly deleted or rewound ref, deleted ref whose name other namespaces still sign, blob listing rad/sigrefs itself -> older/fork/stored/parent commit) x victim kind (delegate / non-delegate) x (pull / clone) x announced refs_at \
(none / current tip / older tip / forged commit / blocked or own key / duplicate key), plus random combinations of two tampered \
namespaces, scopes, block lists, delegate sets, reversed ls-refs order and references listed twice; executed on real git repositories through a real `git upload-pack`; \
non-trivial = some namespace was tampered or changed; distinct by scenario text";

pub const C02_RULE: &str = "delegate sets of size 1..4, thresholds 1..n, local node delegate or not, blocked delegates, per-delegate \
sigrefs state offered by the serving peer in {missing, behind, equal, ahead, diverged, invalid, unsigned rad/id, wrong identity root, blob listing rad/sigrefs -> older/fork, absent}; stored delegates failing a check in this fetch with the others valid/absent at, below and above the threshold (quick: every (n, threshold, \
local-delegate) with one non-equal delegate and random fills; thorough: full product for n <= 3, random for n = 4), pull and clone, \
with and without refs_at; executed on real git repositories; non-trivial = at least one delegate is not in state `equal`; distinct by \
scenario text";

#[allow(clippy::too_many_arguments)]
pub fn scenario(
    n: usize,
    d: &[usize],
    t: usize,
    local: usize,
    clone: bool,
    scope: &str,
    blocked: &[usize],
    refsat: &str,
    ops: &[String],
) -> String {
    let list = |xs: &[usize]| {
        if xs.is_empty() {
            "-".to_string()
        } else {
            xs.iter().map(|x| x.to_string()).collect::<Vec<_>>().join(",")
        }
    };
    let ops: Vec<&str> = ops.iter().flat_map(|s| s.split(';')).filter(|s| !s.is_empty()).collect();
    // ops on both sides (`B.`) must come first
    let (b, rest): (Vec<&str>, Vec<&str>) = ops.into_iter().partition(|o| o.starts_with("B."));
    let ops: Vec<&str> = b.into_iter().chain(rest).collect();
    format!(
        "n={n} d={} t={t} local={local} mode={} scope={scope} blocked={} refsat={refsat} ops={}",
        list(d),
        if clone { "clone" } else { "pull" },
        list(blocked),
        if ops.is_empty() { "-".to_string() } else { ops.join(";") }
    )
}

/// Tamper kinds applied to the namespace of victim `k` (with `j` another peer, `d0` a delegate that
/// owns a `rad/id`). Returns `(name, ops, pull_only)`.
pub fn tamper_kinds(k: usize, j: usize, d0: usize) -> Vec<(&'static str, String, bool)> {
    vec![
        ("honest", format!("S.commit.{k}.master;S.resign.{k}"), false),
        ("unsigned-ref", format!("S.commit.{k}.master;S.resign.{k};S.commit.{k}.evil"), false),
        ("moved-ref", format!("S.commit.{k}.feature;S.resign.{k};S.commit.{k}.master"), false),
        ("deleted-signed-ref", format!("S.commit.{k}.feature;S.resign.{k};S.del.{k}.master"), false),
        ("bad-signature", format!("S.commit.{k}.master;S.badsig.{k}"), false),
        ("rekeyed", format!("S.commit.{k}.master;S.rekey.{k}.{j}"), false),
        ("foreign-sigrefs", format!("S.set.{k}.sigrefs.{j}.sigrefs"), false),
        ("wrong-repo", format!("S.commit.{k}.master;S.wrongroot.{k};S.resign.{k}"), false),
        ("server-behind", format!("L.commit.{k}.master;L.resign.{k}"), true),
        ("server-rewound", format!("S.commit.{k}.master;S.resign.{k};S.rewind.{k}"), false),
        ("diverged", format!("L.commit.{k}.master;L.resign.{k};S.commit.{k}.feature;S.resign.{k}"), true),
        ("junk-sigrefs", format!("S.commit.{k}.master;S.junk.{k}"), false),
        ("sigrefs-missing", format!("S.commit.{k}.master;S.resign.{k};S.del.{k}.sigrefs"), false),
        ("radid-unsigned", format!("S.commit.{k}.master;S.resign.{k};S.set.{k}.id.{d0}.id;S.commit.{k}.id"), false),
        ("radid-only-unknown-ns", format!("L.rmns.{k};S.del.{k}.sigrefs;S.set.{k}.id.{d0}.id"), false),
        ("rad-ref-dropped", format!("B.set.{k}.id.{d0}.id;B.resign.{k};S.del.{k}.id;S.commit.{k}.master;S.resign.{k}"), true),
        ("new-namespace", format!("L.rmns.{k};S.commit.{k}.master;S.resign.{k}"), false),
        ("ref-deleted-honestly", format!("B.commit.{k}.feature;B.resign.{k};S.del.{k}.feature;S.resign.{k}"), true),
        ("radid-moved-signed", format!("S.commit.{k}.id;S.resign.{k}"), false),
        ("ref-rewound-honestly", format!("B.commit.{k}.feature;B.commit.{k}.feature;B.resign.{k};S.back.{k}.feature;S.resign.{k}"), true),
        // the same ref NAME exists in several namespaces; `k` honestly deletes its own and re-signs
        ("ref-deleted-shared-name", format!("B.commit.{j}.feature;B.resign.{j};B.commit.{k}.feature;B.resign.{k};S.del.{k}.feature;S.resign.{k}"), true),
        ("ref-deleted-shared-name-all", format!("B.commit.0.feature;B.resign.0;B.commit.{j}.feature;B.resign.{j};B.commit.3.feature;B.resign.3;B.commit.{k}.feature;B.resign.{k};S.del.{k}.feature;S.commit.{j}.master;S.resign.{j};S.resign.{k}"), true),
        ("tag-deleted-shared-name", format!("B.commit.{j}.tag;B.resign.{j};B.commit.{k}.tag;B.resign.{k};S.del.{k}.tag;S.commit.{k}.master;S.resign.{k}"), true),
        // a validly signed blob that lists refs/rad/sigrefs itself: older than the stored tip, a fork of it,
        // the stored tip, the offered tip's parent
        ("blob-lists-sigrefs-older", format!("B.mark.{k}.o;B.commit.{k}.master;B.resign.{k};S.commit.{k}.master;S.signsig.{k}.o"), true),
        ("blob-lists-sigrefs-fork", format!("B.commit.{k}.feature;B.resign.{k};B.mark.{k}.f;B.rewind.{k};B.commit.{k}.master;B.resign.{k};S.commit.{k}.master;S.signsig.{k}.f"), true),
        ("blob-lists-sigrefs-stored", format!("S.mark.{k}.o;S.commit.{k}.master;S.resign.{k};S.commit.{k}.master;S.signsig.{k}.o"), false),
        ("blob-lists-sigrefs-parent", format!("S.commit.{k}.master;S.resign.{k};S.mark.{k}.o;S.commit.{k}.master;S.signsig.{k}.o"), false),
        ("radid-diverged", format!("S.commit.{k}.master;S.resign.{k};S.set.{k}.id.{k}.master"), false),
    ]
}

/// `refs_at` variants for victim `k`: `(name, ops appended, refsat token)`.
pub fn refsat_kinds(k: usize, j: usize, local: usize) -> Vec<(&'static str, String, String)> {
    vec![
        ("current", format!("S.mark.{k}.a"), format!("{k}:a")),
        ("forged-hidden", format!("S.junk.{k};S.mark.{k}.a;S.del.{k}.sigrefs"), format!("{k}:a")),
        ("forged", format!("S.mark.{k}.b;S.junk.{k};S.mark.{k}.a;S.rewind.{k}"), format!("{k}:a")),
        ("foreign", format!("S.mark.{j}.a"), format!("{k}:a")),
        ("two", format!("S.commit.{j}.master;S.resign.{j};S.mark.{k}.a;S.mark.{j}.b"), format!("{k}:a,{j}:b")),
        ("duplicate", format!("S.mark.{k}.a;S.commit.{k}.master;S.resign.{k};S.mark.{k}.b"), format!("{k}:a,{k}:b")),
        ("own-key", format!("S.mark.{k}.a;S.mark.{local}.b"), format!("{k}:a,{local}:b")),
    ]
}

fn older_refsat(k: usize, ops: &str) -> (String, String) {
    // announce the tip the server had *before* the scenario's `S.`/`L.` ops (older, genuine)
    let (b, rest): (Vec<&str>, Vec<&str>) = ops.split(';').partition(|o| o.starts_with("B."));
    let mark = format!("S.mark.{k}.a");
    let all: Vec<&str> = b.into_iter().chain(std::iter::once(mark.as_str())).chain(rest).collect();
    (all.join(";"), format!("{k}:a"))
}

fn current_refsat(k: usize, ops: &str) -> (String, String) {
    // announce the server's newest tip (taken before the sigrefs ref is hidden, if it is)
    let del = format!("S.del.{k}.sigrefs");
    let mark = format!("S.mark.{k}.a");
    let mut all: Vec<&str> = vec![];
    let mut done = false;
    for o in ops.split(';') {
        if o == del && !done {
            all.push(&mark);
            done = true;
        }
        all.push(o);
    }
    if !done {
        all.push(&mark);
    }
    (all.join(";"), format!("{k}:a"))
}

pub fn c01_cases(rng: &mut Rng, quick: bool) -> Vec<String> {
    let mut out = vec![];
    // peers 0..4; delegates 0,1 (threshold 1); local = 3 (has a namespace, not a delegate)
    let (n, d, t, local) = (4usize, [0usize, 1], 1usize, 3usize);
    for (victim, other) in [(1usize, 2usize), (2, 1)] {
        let kinds = tamper_kinds(victim, other, 0);
        for (i, (_, ops, pull_only)) in kinds.iter().enumerate() {
            // pull, no refs_at: always
            out.push(scenario(n, &d, t, local, false, "all", &[], "-", &[ops.clone()]));
            // clone: every kind in thorough, alternating in quick
            // quick: the secondary variants alternate between the two victims
            let mine = !quick || (i + victim) % 2 == 0;
            if !pull_only && (!quick || (mine && i % 2 == 0)) {
                let ops: String = ops.split(';').filter(|o| !o.starts_with("L.")).collect::<Vec<_>>().join(";");
                out.push(scenario(n, &d, t, 5, true, "all", &[], "-", &[ops]));
            }
            // pull with refs_at = current tip / older tip
            if !quick || (mine && i % 2 == 1) {
                let (ops2, ra) = current_refsat(victim, ops);
                out.push(scenario(n, &d, t, local, false, "all", &[], &ra, &[ops2]));
            }
            if !quick || (mine && i % 3 == 0) {
                let (ops2, ra) = older_refsat(victim, ops);
                out.push(scenario(n, &d, t, local, false, "all", &[], &ra, &[ops2]));
            }
            // the serving side lists its references in reverse name order
            if !quick || (mine && i % 3 == 1) || i + 1 == kinds.len() {
                out.push(scenario(n, &d, t, local, false, "all", &[], "-", &[format!("{ops};S.revorder")]));
            }
        }
        for (_, extra, ra) in refsat_kinds(victim, other, local) {
            out.push(scenario(
                n, &d, t, local, false, "all", &[], &ra,
                &[format!("S.commit.{victim}.master;S.resign.{victim}"), extra],
            ));
        }
        // the serving side lists the victim's rad/sigrefs twice: newer then older (the last listing counts),
        // the same in reverse order, and real tip then a forged commit
        let adv = format!("S.mark.{victim}.a;S.commit.{victim}.master;S.resign.{victim};S.advdup.{victim}.a");
        out.push(scenario(n, &d, t, local, false, "all", &[], "-", &[adv.clone()]));
        out.push(scenario(n, &d, t, local, false, "all", &[], "-", &[format!("{adv};S.revorder")]));
        out.push(scenario(
            n, &d, t, local, false, "all", &[], "-",
            &[format!("S.commit.{victim}.master;S.resign.{victim};S.junk.{victim};S.mark.{victim}.a;S.rewind.{victim};S.advdup.{victim}.a")],
        ));
        // blocked victim: without and with an announcement naming it
        out.push(scenario(n, &d, t, local, false, "all", &[victim], "-", &[format!("S.commit.{victim}.master;S.resign.{victim}")]));
        out.push(scenario(
            n, &d, t, local, false, "all", &[victim], &format!("{victim}:a"),
            &[format!("S.commit.{victim}.master;S.resign.{victim};S.mark.{victim}.a")],
        ));
        out.push(scenario(
            n, &d, t, local, false, "all", &[victim], &format!("{victim}:a"),
            &[format!("L.commit.{victim}.master;L.resign.{victim};S.mark.{victim}.a")],
        ));
        // followed scope: victim followed / not followed
        out.push(scenario(n, &d, t, local, false, &format!("f:{victim}"), &[], "-", &[format!("S.commit.{victim}.master;S.resign.{victim};S.commit.{other}.master;S.resign.{other}")]));
        out.push(scenario(n, &d, t, local, false, "f:-", &[], "-", &[format!("S.commit.{victim}.master;S.resign.{victim};S.commit.{other}.master;S.resign.{other}")]));
    }
    // the serving side lists references in reverse name order (rad/sigrefs before rad/id)
    out.push(scenario(n, &d, t, local, false, "all", &[], "-", &["S.commit.1.master;S.resign.1;S.commit.2.master;S.resign.2;S.revorder".into()]));
    out.push(scenario(n, &d, t, 5, true, "all", &[], "-", &["S.commit.1.master;S.resign.1;S.revorder".into()]));
    out.push(scenario(n, &d, t, local, false, "f:2", &[], "-", &["S.commit.2.master;S.resign.2;S.set.2.id.0.id;S.revorder".into()]));
    // local is a delegate pulling its co-delegate; local's own namespace announced
    out.push(scenario(2, &[0, 1], 2, 0, false, "all", &[], "-", &["S.commit.1.master;S.resign.1".into()]));
    out.push(scenario(2, &[0, 1], 2, 0, false, "all", &[], "0:a", &["L.commit.0.master;L.resign.0;S.mark.0.a".into()]));
    out.push(scenario(2, &[0, 1], 2, 0, false, "all", &[], "0:a", &["S.commit.0.master;S.resign.0;S.mark.0.a".into()]));
    // random combinations: two tampered namespaces, random config
    let extra = if quick { 8 } else { 500 };
    for _ in 0..extra {
        let n = rng.range(2, 5) as usize;
        let nd = rng.range(1, n.min(3) as u64) as usize;
        let d: Vec<usize> = (0..nd).collect();
        let t = rng.range(1, nd as u64) as usize;
        let clone = rng.chance(1, 4);
        let local = if clone { 5 } else { rng.below(n as u64 + 1) as usize };
        let local = if local == n { 5 } else { local };
        let v1 = rng.below(n as u64) as usize;
        let v2 = rng.below(n as u64) as usize;
        let mut ops = vec![];
        for v in [v1, v2] {
            let o = (v + 1) % n;
            let kinds = tamper_kinds(v, o, 0);
            let (_, op, _) = rng.pick(&kinds).clone();
            ops.push(op);
            if v1 == v2 {
                break;
            }
        }
        let mut ops: String = ops.join(";");
        // `B.` ops must come first
        let (b, rest): (Vec<&str>, Vec<&str>) = ops.split(';').partition(|o| o.starts_with("B."));
        ops = b.into_iter().chain(rest).collect::<Vec<_>>().join(";");
        if clone {
            ops = ops.split(';').filter(|o| !o.starts_with("L.")).collect::<Vec<_>>().join(";");
        }
        let scope = match rng.below(4) {
            0 => format!("f:{v1}"),
            1 => "f:-".to_string(),
            _ => "all".to_string(),
        };
        let blocked: Vec<usize> = if rng.chance(1, 5) { vec![rng.below(n as u64) as usize] } else { vec![] };
        if rng.chance(1, 6) && !ops.contains(&format!("del.{v1}.sigrefs")) && !ops.contains(&format!("rmns.{v1}")) {
            ops = format!("S.mark.{v1}.z;{ops};S.advdup.{v1}.z");
            // `B.` ops must stay first
            let (b, rest): (Vec<&str>, Vec<&str>) = ops.split(';').partition(|o| o.starts_with("B."));
            ops = b.into_iter().chain(rest).collect::<Vec<_>>().join(";");
        }
        if rng.chance(1, 4) {
            ops = format!("{ops};S.revorder");
        }
        let mut refsat = "-".to_string();
        if !clone && rng.chance(1, 3) {
            let rk = refsat_kinds(v1, (v1 + 1) % n, local.min(n - 1));
            let (_, extra, ra) = rng.pick(&rk).clone();
            ops = format!("{ops};{extra}");
            refsat = ra;
        }
        out.push(scenario(n, &d, t, local, clone, &scope, &blocked, &refsat, &[ops]));
    }
    out
}

/// Ops that put delegate `d` into the given state as offered by the serving peer.
pub fn delegate_state(d: usize, state: &str, other: usize) -> String {
    match state {
        "missing" => format!("S.del.{d}.sigrefs"),
        "behind" => format!("L.commit.{d}.master;L.resign.{d}"),
        "equal" => String::new(),
        "ahead" => format!("S.commit.{d}.master;S.resign.{d}"),
        "diverged" => format!("L.commit.{d}.master;L.resign.{d};S.commit.{d}.feature;S.resign.{d}"),
        "invalid" => format!("S.commit.{d}.master;S.rekey.{d}.{other}"),
        "unknown" => format!("L.rmns.{d}"),
        // ahead, validly signed, but the advertised namespace rad/id is not covered by the signed refs
        "unsigned" => format!("S.del.{d}.id;S.commit.{d}.master;S.resign.{d};S.set.{d}.id.{d}.master"),
        "wrongroot" => format!("S.commit.{d}.master;S.wrongroot.{d};S.resign.{d}"),
        // validly signed blob that lists rad/sigrefs itself -> a commit OLDER than the stored tip / a FORK of it
        "selfolder" => format!("B.mark.{d}.o{d};B.commit.{d}.master;B.resign.{d};S.commit.{d}.master;S.signsig.{d}.o{d}"),
        "selffork" => format!("B.commit.{d}.feature;B.resign.{d};B.mark.{d}.f{d};B.rewind.{d};B.commit.{d}.master;B.resign.{d};S.commit.{d}.master;S.signsig.{d}.f{d}"),
        // neither stored nor served
        "absent" => format!("L.rmns.{d};S.del.{d}.sigrefs"),
        _ => unreachable!(),
    }
}

pub const STATES: [&str; 6] = ["missing", "behind", "equal", "ahead", "diverged", "invalid"];

pub fn c02_case(
    nd: usize,
    t: usize,
    local_delegate: bool,
    clone: bool,
    states: &[&str],
    blocked: &[usize],
    refsat: bool,
    pre_ops: &[String],
) -> String {
    // delegates 0..nd, one extra non-delegate peer nd; local = 0 (delegate) or nd (non-delegate)
    let n = (nd + 1).min(5);
    let d: Vec<usize> = (0..nd).collect();
    let local = if clone {
        if local_delegate { 0 } else { 5 }
    } else if local_delegate {
        0
    } else if nd < 5 {
        nd.min(n - 1)
    } else {
        5
    };
    let mut ops: Vec<String> = pre_ops.to_vec();
    let mut marks = vec![];
    for (i, s) in states.iter().enumerate() {
        let o = delegate_state(i, s, (i + 1) % n);
        let o = if clone { o.split(';').filter(|x| !x.starts_with("L.")).collect::<Vec<_>>().join(";") } else { o };
        ops.push(o);
    }
    if refsat {
        for (i, s) in states.iter().enumerate() {
            if *s != "missing" && *s != "equal" && !(local_delegate && i == 0) {
                ops.push(format!("S.mark.{i}.m{i}"));
                marks.push(format!("{i}:m{i}"));
            }
        }
    }
    let ra = if refsat && !marks.is_empty() { marks.join(",") } else { "-".to_string() };
    scenario(n, &d, t, local, clone, "all", blocked, &ra, &ops)
}

pub fn c02_cases(rng: &mut Rng, quick: bool) -> Vec<String> {
    let mut out = vec![];
    let mut single = vec![];
    for nd in 1..=4usize {
        for t in 1..=nd {
            for local_delegate in [false, true] {
                // one non-equal delegate at a time (the last delegate, so that it is never the local one)
                for s in STATES {
                    let mut states = vec!["equal"; nd];
                    states[nd - 1] = s;
                    if local_delegate && nd == 1 {
                        continue;
                    }
                    single.push(c02_case(nd, t, local_delegate, false, &states, &[], false, &[]));
                }
            }
        }
    }
    // threshold boundary when nothing is stored for the delegates (clone, or pull after the delegates'
    // namespaces were removed locally): exactly `need - 1`, `need` and `need + 1` delegates are offered with
    // valid signed refs; the others are missing, invalid or (pull) offered only as a bare rad/id.
    let mut boundary = vec![];
    for nd in 1..=4usize {
        for t in 1..=nd {
            for local_delegate in [false, true] {
                let need = if local_delegate { t - 1 } else { t };
                for good in [need.wrapping_sub(1), need, need + 1] {
                    if good > nd {
                        continue; // also skips the wrapped `need - 1` for need = 0
                    }
                    for (v, clone) in [(0usize, true), (1, false)] {
                        // pull: local delegate keeps its own namespace (it is never fetched)
                        let lo = if !clone && local_delegate { 1 } else { 0 };
                        if !clone && lo + good > nd {
                            continue;
                        }
                        let mut states: Vec<&str> = vec![];
                        for i in 0..nd {
                            states.push(if i < lo {
                                "equal"
                            } else if i < lo + good {
                                if (i + v) % 2 == 0 { "ahead" } else { "equal" }
                            } else if (i + nd + v) % 3 == 0 {
                                "invalid"
                            } else {
                                "missing"
                            });
                        }
                        // pull: forget every fetched delegate locally
                        let rm: Vec<String> = if clone { vec![] } else { (lo..nd).map(|i| format!("L.rmns.{i}")).collect() };
                        let case = c02_case(nd, t, local_delegate, clone, &states, &[], false, &rm);
                        // thorough: the small clones are also run one level up, through two real nodes (the
                        // node's own key is never a delegate there)
                        if !quick && clone && !local_delegate && nd <= 2 {
                            boundary.push(format!("{};S.worker", case.replace("ops=-", "ops=")).replace("ops=;", "ops="));
                        }
                        boundary.push(case);
                    }
                }
            }
        }
    }
    // STORED delegates whose offered data fails a check in this fetch (missing on the server, ahead but with an
    // unsigned advertised rad/id, invalid signature, wrong identity root), the other delegates valid (ahead) or
    // absent (neither stored nor served): `good` in {need-1, need, need+1}.
    let mut failing = vec![];
    for nd in 2..=4usize {
        for t in 1..=nd {
            for local_delegate in [false, true] {
                let need = if local_delegate { t - 1 } else { t };
                let lo = if local_delegate { 1 } else { 0 };
                for (fi, fail) in ["missing", "unsigned", "invalid", "wrongroot", "selfolder", "selffork"].iter().enumerate() {
                    for nfail in 1..=2usize {
                        for good in [need.wrapping_sub(1), need, need + 1] {
                            if good > nd || lo + nfail + good > nd {
                                continue;
                            }
                            let mut states: Vec<&str> = vec![];
                            for i in 0..nd {
                                states.push(if i < lo {
                                    "equal"
                                } else if i < lo + nfail {
                                    fail
                                } else if i < lo + nfail + good {
                                    "ahead"
                                } else {
                                    "absent"
                                });
                            }
                            // a non-delegate namespace is served as well, so that the advertisement is never
                            // short of `ensure_threshold` on its own
                            failing.push((nd, fi, nfail, c02_case(nd, t, local_delegate, false, &states, &[], false, &[])));
                        }
                    }
                }
            }
        }
    }
    if quick {
        let pick = (rng.0 % 3) as usize;
        out.extend(failing.into_iter().enumerate().filter(|(i, (nd, _, nfail, _))| *nfail == 1 && (*nd == 2 || i % 8 == pick)).map(|(_, c)| c.3));
    } else {
        out.extend(failing.into_iter().map(|c| c.3));
    }
    if quick {
        // every boundary case with <= 3 delegates, half of those with 4; a third of the single-state family
        let pick = (rng.0 % 4) as usize;
        out.extend(boundary.into_iter().enumerate().filter(|(i, c)| !c.starts_with("n=5") || i % 3 == pick % 3).map(|(_, c)| c));
        out.extend(single.into_iter().enumerate().filter(|(i, _)| i % 4 == pick).map(|(_, c)| c));
    } else {
        out.extend(boundary);
        out.extend(single);
        // node-level (two real nodes) scenarios beyond the three decisive ones of the corpus
        for ops in [
            "S.del.0.sigrefs;S.worker",
            "S.commit.0.master;S.rekey.0.1;S.worker",
            "S.delcanon;S.worker",
        ] {
            out.push(scenario(2, &[0], 1, 5, true, "all", &[], "-", &[ops.to_string()]));
        }
        out.push(scenario(3, &[0, 1], 2, 5, true, "all", &[], "-", &["S.commit.1.master;S.rekey.1.0;S.worker".to_string()]));
        out.push(scenario(3, &[0, 1], 2, 5, true, "all", &[], "-", &["S.delcanon;S.worker".to_string()]));
        out.push(scenario(2, &[0], 1, 5, false, "all", &[], "-", &["S.commit.1.master;S.resign.1;S.commit.0.master;S.resign.0;S.worker".to_string()]));
        out.push(scenario(2, &[0], 1, 5, false, "all", &[], "-", &["S.commit.1.master;S.resign.1;S.del.0.sigrefs;S.worker".to_string()]));
    }
    // full product for small n (thorough), a random sample of it in quick
    let mut product = vec![];
    for nd in 1..=3usize {
        let total = STATES.len().pow(nd as u32);
        for code in 0..total {
            let mut c = code;
            let states: Vec<&str> = (0..nd).map(|_| { let s = STATES[c % STATES.len()]; c /= STATES.len(); s }).collect();
            for t in 1..=nd {
                for local_delegate in [false, true] {
                    product.push((nd, t, local_delegate, states.clone()));
                }
            }
        }
    }
    if quick {
        for _ in 0..10 {
            let (nd, t, ld, states) = rng.pick(&product).clone();
            let clone = rng.chance(1, 4);
            let refsat = !clone && rng.chance(1, 3);
            let blocked: Vec<usize> = if rng.chance(1, 4) { vec![rng.below(nd as u64) as usize] } else { vec![] };
            out.push(c02_case(nd, t, ld, clone, &states, &blocked, refsat, &[]));
        }
    } else {
        for (nd, t, ld, states) in &product {
            out.push(c02_case(*nd, *t, *ld, false, states, &[], false, &[]));
        }
        for _ in 0..500 {
            let nd = 4usize;
            let states: Vec<&str> = (0..nd).map(|_| *rng.pick(&STATES)).collect();
            let t = rng.range(1, nd as u64) as usize;
            let clone = rng.chance(1, 5);
            let refsat = !clone && rng.chance(1, 3);
            let blocked: Vec<usize> = if rng.chance(1, 4) { vec![rng.below(nd as u64) as usize] } else { vec![] };
            out.push(c02_case(nd, t, rng.bool(), clone, &states, &blocked, refsat, &[]));
        }
        for _ in 0..150 {
            let (nd, t, ld, states) = rng.pick(&product).clone();
            let clone = rng.chance(1, 3);
            let refsat = !clone && rng.chance(1, 2);
            let blocked: Vec<usize> = if rng.chance(1, 3) { vec![rng.below(nd as u64) as usize] } else { vec![] };
            out.push(c02_case(nd, t, ld, clone, &states, &blocked, refsat, &[]));
        }
    }
    out
}
