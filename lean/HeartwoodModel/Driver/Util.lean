/-!
Parsing helpers for the line-protocol driver. Import-free (core only) so that the driver links.
-/
namespace HeartwoodModel.Driver.Util

/-- Split on a single character, keeping empty fields. -/
def splitOn (s : String) (c : Char) : List String :=
  s.splitOn (String.singleton c)

/-- Split on a character; the empty string yields the empty list. -/
def fields (s : String) (c : Char) : List String :=
  if s.isEmpty then [] else splitOn s c

def nat? (s : String) : Option Nat := s.toNat?

/-- Comma-separated naturals; `-` or empty string is the empty list. -/
def nats? (s : String) : Option (List Nat) :=
  if s == "-" || s.isEmpty then some [] else (splitOn s ',').mapM nat?

def hexDigit? (c : Char) : Option Nat :=
  if '0' ≤ c ∧ c ≤ '9' then some (c.toNat - '0'.toNat)
  else if 'a' ≤ c ∧ c ≤ 'f' then some (c.toNat - 'a'.toNat + 10)
  else if 'A' ≤ c ∧ c ≤ 'F' then some (c.toNat - 'A'.toNat + 10)
  else none

/-- Hex string to bytes (as naturals < 256); `-` is the empty byte string. -/
def hexBytes? (s : String) : Option (List Nat) :=
  if s == "-" then some [] else
  let rec go : List Char → List Nat → Option (List Nat)
    | [], acc => some acc.reverse
    | [_], _ => none
    | a :: b :: rest, acc =>
      match hexDigit? a, hexDigit? b with
      | some x, some y => go rest ((x * 16 + y) :: acc)
      | _, _ => none
  go s.toList []

def hexChar (n : Nat) : Char :=
  if n < 10 then Char.ofNat ('0'.toNat + n) else Char.ofNat ('a'.toNat + (n - 10))

/-- Bytes to lower-case hex; the empty byte string prints as `-`. -/
def toHex (bs : List Nat) : String :=
  if bs.isEmpty then "-" else
  String.ofList (bs.foldr (fun b acc => hexChar (b / 16 % 16) :: hexChar (b % 16) :: acc) [])

def joinWith (sep : String) (xs : List String) : String := sep.intercalate xs

def showNats (xs : List Nat) : String :=
  if xs.isEmpty then "-" else joinWith "," (xs.map toString)

def bool? (s : String) : Option Bool :=
  if s == "1" then some true else if s == "0" then some false else none

def showBool (b : Bool) : String := if b then "1" else "0"

end HeartwoodModel.Driver.Util
