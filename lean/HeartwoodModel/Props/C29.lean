import HeartwoodModel.Model.Gossip
import HeartwoodModel.Props.C10
/-!
# C29 — Node-signed announcement timestamps strictly increase

Reading fixed in DESIGN.md: re-signing / re-sending the *same cached* announcement is the same
announcement; the claim is about `Service::timestamp` (`Timestamp.next`) and every site of the service
that creates a new announcement (`Model/Gossip.lean`: `initialize`/`restart`, `add_inventory`,
`remove_inventory`, `refs_announcement_for` ← `announce_refs` ← `AnnounceRefs` / `fetched`).

* Part 1: `Service::timestamp` hands out strictly increasing values for **every** sequence of clock
  readings (forward, equal, backward), as long as `u64::MAX` is not reached (`Timestamp + 1` saturates:
  `timestamps_saturate_counterexample` shows the bound is necessary).
* Part 2: in the service model every announcement a step creates takes its timestamp from
  `Service::timestamp`: strictly above `last_timestamp` before the step, strictly increasing within the
  step, at most `last_timestamp` after it (`step_created_fresh`), hence strictly increasing over any run
  (`run_created_increasing`).
* Part 3: everything the node writes or stores under its own id is the cached node announcement, the
  cached inventory, an announcement so created, or a row already stored (`step_known`), hence along any run
  from `init` the node announcement, the first inventory or a created one (`run_own_announcements_known`).
-/
set_option linter.unusedSimpArgs false
set_option linter.unusedVariables false
namespace HeartwoodModel.Gossip
open HeartwoodModel.Timestamp

/-! ## Part 1 — `Service::timestamp` -/

/-- Below saturation the value handed out is strictly greater than the previous one, whatever the clock. -/
theorem next_gt {c l : Nat} (h : l < U64MAX) : l < next c l := by
  simp only [next, U64MAX] at *
  split <;> omega

/-- If the value handed out is below `u64::MAX`, it is strictly greater than the previous one. -/
theorem next_gt_of_lt_max {c l : Nat} (h : next c l < U64MAX) : l < next c l := by
  simp only [next, U64MAX] at *
  split at h <;> split <;> omega

/-- When the clock is ahead of the last timestamp, the clock reading itself is used. -/
theorem next_eq_clock {c l : Nat} (h : l < c) : next c l = c := by
  simp [next, h]

/-- A stalled or backward clock yields `last + 1` (below saturation). -/
theorem next_eq_succ {c l : Nat} (h : c ≤ l) (hl : l < U64MAX) : next c l = l + 1 := by
  simp only [next, U64MAX] at *
  split <;> omega

theorem runTs_gt {l : Nat} {cs : List Nat} (h : ∀ t ∈ runTs l cs, t < U64MAX) :
    ∀ t ∈ runTs l cs, l < t := by
  induction cs generalizing l with
  | nil => simp [runTs]
  | cons c cs ih =>
    intro t ht
    simp only [runTs, List.mem_cons] at ht h
    have h1 : l < next c l := next_gt_of_lt_max (h _ (Or.inl rfl))
    rcases ht with rfl | ht
    · exact h1
    · have := ih (fun t ht => h t (Or.inr ht)) t ht
      omega

/-- **C29, `Service::timestamp`.** For every starting value and every sequence of clock readings, the
timestamps handed out are strictly increasing (and above the starting value), provided `u64::MAX` is
not reached. -/
theorem timestamps_strictly_increase (l : Nat) (cs : List Nat)
    (h : ∀ t ∈ runTs l cs, t < U64MAX) : (l :: runTs l cs).Pairwise (· < ·) := by
  induction cs generalizing l with
  | nil => simp [runTs]
  | cons c cs ih =>
    have h' : ∀ t ∈ runTs (next c l) cs, t < U64MAX := fun t ht => h t (by simp [runTs, ht])
    have hgt := runTs_gt h
    rw [List.pairwise_cons]
    refine ⟨fun t ht => hgt t ht, ?_⟩
    simpa [runTs] using ih (next c l) h'

/-- Non-vacuity: a clock that goes backwards, stalls and jumps. -/
example : runTs 10 [5, 20, 20, 3, 100] = [11, 20, 21, 22, 100] := by decide

example : ∀ t ∈ runTs 10 [5, 20, 20, 3, 100], t < U64MAX := by decide

/-- The bound is necessary: at `u64::MAX` the saturating `+ 1` repeats the timestamp. -/
theorem timestamps_saturate_counterexample :
    ¬ ((U64MAX - 1) :: runTs (U64MAX - 1) [0, 0]).Pairwise (· < ·) := by decide

/-! ## Part 2 — every creation site of the service -/

/-- `l` is strictly increasing, strictly above `lo` and at most `hi`. -/
def Chain (lo : Nat) (l : List Nat) (hi : Nat) : Prop :=
  l.Pairwise (· < ·) ∧ (∀ t ∈ l, lo < t ∧ t ≤ hi) ∧ lo ≤ hi

theorem Chain.nil {a b : Nat} (h : a ≤ b) : Chain a [] b := by simp [Chain, h]

theorem Chain.single {a t b : Nat} (h1 : a < t) (h2 : t ≤ b) : Chain a [t] b := by
  simp [Chain]; omega

theorem Chain.append {a b c : Nat} {l1 l2 : List Nat} (h1 : Chain a l1 b) (h2 : Chain b l2 c) :
    Chain a (l1 ++ l2) c := by
  obtain ⟨p1, r1, o1⟩ := h1
  obtain ⟨p2, r2, o2⟩ := h2
  refine ⟨?_, ?_, by omega⟩
  · rw [List.pairwise_append]
    refine ⟨p1, p2, fun x hx y hy => ?_⟩
    have := r1 x hx; have := r2 y hy; omega
  · intro t ht
    rcases List.mem_append.mp ht with ht | ht
    · have := r1 t ht; omega
    · have := r2 t ht; omega

theorem Chain.weaken {a b c : Nat} {l : List Nat} (h : Chain a l b) (hbc : b ≤ c) : Chain a l c := by
  obtain ⟨p, r, o⟩ := h
  exact ⟨p, fun t ht => by have := r t ht; omega, by omega⟩

def createdTs (o : Out) : List Nat := o.created.map (·.ts)

/-- What a step (or a part of one) owes C29: if `last_timestamp` stays below `u64::MAX`, the created
announcements are the node's own and their timestamps form a chain from the old to the new
`last_timestamp`. -/
def Fresh (s : State) (r : State × Out) : Prop :=
  r.1.lastTs < U64MAX →
    Chain s.lastTs (createdTs r.2) r.1.lastTs ∧ ∀ a ∈ r.2.created, a.node = 0

theorem Fresh.of_same (s : State) (s' : State) (o : Out) (hl : s'.lastTs = s.lastTs)
    (hc : o.created = []) : Fresh s (s', o) := by
  intro _
  simp [createdTs, hc, hl, Chain]

theorem Fresh.comp {s : State} {r1 r2 : State × Out} (h1 : Fresh s r1) (h2 : Fresh r1.1 r2) :
    Fresh s (r2.1, appendOut r1.2 r2.2) := by
  intro hb
  obtain ⟨c2, n2⟩ := h2 hb
  have hb1 : r1.1.lastTs < U64MAX := by have := c2.2.2; simp only at hb; omega
  obtain ⟨c1, n1⟩ := h1 hb1
  refine ⟨?_, ?_⟩
  · simp only [createdTs, appendOut, List.map_append]
    exact c1.append c2
  · intro a ha
    simp only [appendOut, List.mem_append] at ha
    rcases ha with ha | ha
    · exact n1 a ha
    · exact n2 a ha

theorem timestamp_fst_lastTs (s : State) : (timestamp s).1.lastTs = (timestamp s).2 := rfl

theorem timestamp_gt {s : State} (h : (timestamp s).2 < U64MAX) : s.lastTs < (timestamp s).2 :=
  next_gt_of_lt_max h

/-- A call of `Service::timestamp` whose result is not used for an announcement. -/
theorem Fresh.timestamp_only (s : State) : Fresh s ((timestamp s).1, {}) := by
  intro hb
  have := timestamp_gt (s := s) hb
  refine ⟨?_, by simp⟩
  simp only [createdTs, List.map_nil, timestamp_fst_lastTs]
  exact Chain.nil (by omega)

@[simp] theorem announceInventory_lastTs (s : State) : (announceInventory s).1.lastTs = s.lastTs := by
  unfold announceInventory; split <;> rfl

theorem refreshInventory_lastTs (s : State) (t : Nat) : (refreshInventory s t).1.lastTs = s.lastTs := by
  simp [refreshInventory]

theorem refreshInventory_created (s : State) (t : Nat) :
    (refreshInventory s t).2.created = [⟨0, .inv, 0, t⟩] := rfl

theorem refreshInventory_fresh (s0 s : State) (t : Nat) (h1 : s0.lastTs < t) (h2 : t ≤ s.lastTs) :
    Fresh s0 (refreshInventory s t) := by
  intro hb
  refine ⟨?_, ?_⟩
  · rw [createdTs, refreshInventory_created, refreshInventory_lastTs]
    exact Chain.single h1 h2
  · rw [refreshInventory_created]
    intro a ha
    rw [List.mem_singleton] at ha
    subst ha; rfl

theorem addInventory_fresh (s : State) (rid : Nat) : Fresh s (addInventory s rid) := by
  unfold addInventory
  simp only
  split
  · exact Fresh.timestamp_only s
  · intro hb
    rw [refreshInventory_lastTs] at hb
    exact refreshInventory_fresh s _ _ (timestamp_gt hb) (Nat.le_refl _)
      (by rw [refreshInventory_lastTs]; exact hb)

theorem removeInventory_fresh (s : State) (rid : Nat) : Fresh s (removeInventory s rid) := by
  unfold removeInventory
  simp only
  split
  · intro hb
    rw [refreshInventory_lastTs] at hb
    exact refreshInventory_fresh s _ _ (timestamp_gt hb) (Nat.le_refl _)
      (by rw [refreshInventory_lastTs]; exact hb)
  · exact Fresh.timestamp_only s

theorem announceRefs_fresh (s : State) (r doc : Repo) : Fresh s (announceRefs s r doc) := by
  unfold announceRefs
  simp only
  split
  · exact Fresh.timestamp_only s
  · intro hb
    have hgt := timestamp_gt (s := s) hb
    refine ⟨?_, by simp⟩
    simp only [createdTs, List.map_cons, List.map_nil]
    exact Chain.single hgt (Nat.le_refl _)

theorem fetchedInventory_fresh (s : State) (r : Repo) (clone : Bool) :
    Fresh s (fetchedInventory s r clone) := by
  unfold fetchedInventory
  split
  · exact addInventory_fresh s r.rid
  · exact Fresh.of_same s s {} rfl rfl

theorem fetchedRefs_fresh (s : State) (r : Repo) (upd : Bool) : Fresh s (fetchedRefs s r upd) := by
  unfold fetchedRefs
  split
  · exact announceRefs_fresh s r r
  · exact Fresh.of_same s s {} rfl rfl

theorem fetched_fresh (s : State) (rid p : Nat) (clone upd : Bool) :
    Fresh s (fetched s rid p clone upd) := by
  unfold fetched
  split
  · exact Fresh.of_same s s {} rfl rfl
  · split
    · exact Fresh.of_same s s {} rfl rfl
    · rename_i r _
      have h1 : Fresh s (fetchedInventory { s with routing := (addRoute s.routing rid p s.clock).1 } r clone) :=
        fetchedInventory_fresh { s with routing := (addRoute s.routing rid p s.clock).1 } r clone
      exact Fresh.comp h1 (fetchedRefs_fresh _ r upd)

/-- The loop body of `initialize` either leaves `last_timestamp` and the created list alone, or takes one
timestamp for one refs announcement. -/
theorem initRepo_cases (db : List (Nat × Nat × Nat)) (acc : InitAcc) (r : Repo) :
    ((initRepo db acc r).s.lastTs = acc.s.lastTs ∧ (initRepo db acc r).created = acc.created) ∨
    ((initRepo db acc r).s.lastTs = next acc.s.clock acc.s.lastTs ∧
      (initRepo db acc r).created =
        acc.created ++ [⟨0, .refs, r.rid, next acc.s.clock acc.s.lastTs⟩]) := by
  unfold initRepo
  split
  · exact Or.inl ⟨rfl, rfl⟩
  · split
    · exact Or.inl ⟨rfl, rfl⟩
    · simp only
      split
      · exact Or.inl ⟨rfl, rfl⟩
      · split
        · exact Or.inl ⟨rfl, rfl⟩
        · exact Or.inr ⟨rfl, rfl⟩

/-- The loop body of `initialize`: the timestamps it hands out extend the chain. -/
theorem initRepo_spec (db : List (Nat × Nat × Nat)) (acc : InitAcc) (r : Repo)
    (hb : (initRepo db acc r).s.lastTs < U64MAX) :
    ∃ extra : List AnnId, (initRepo db acc r).created = acc.created ++ extra ∧
      Chain acc.s.lastTs (extra.map (·.ts)) (initRepo db acc r).s.lastTs ∧ ∀ a ∈ extra, a.node = 0 := by
  rcases initRepo_cases db acc r with ⟨h1, h2⟩ | ⟨h1, h2⟩
  · exact ⟨[], by simp [h2], by rw [h1]; exact Chain.nil (Nat.le_refl _), by simp⟩
  · rw [h1] at hb ⊢
    refine ⟨[⟨0, .refs, r.rid, next acc.s.clock acc.s.lastTs⟩], h2, ?_, by simp⟩
    simp only [List.map_cons, List.map_nil]
    exact Chain.single (next_gt_of_lt_max hb) (Nat.le_refl _)

theorem initFold_spec (db : List (Nat × Nat × Nat)) (repos : List Repo) (acc : InitAcc)
    (hb : (repos.foldl (initRepo db) acc).s.lastTs < U64MAX) :
    ∃ extra : List AnnId, (repos.foldl (initRepo db) acc).created = acc.created ++ extra ∧
      Chain acc.s.lastTs (extra.map (·.ts)) (repos.foldl (initRepo db) acc).s.lastTs ∧
      ∀ a ∈ extra, a.node = 0 := by
  induction repos generalizing acc with
  | nil => exact ⟨[], by simp, Chain.nil (Nat.le_refl _), by simp⟩
  | cons r rs ih =>
    simp only [List.foldl_cons] at hb ⊢
    obtain ⟨e2, he2, c2, n2⟩ := ih (initRepo db acc r) hb
    have hb1 : (initRepo db acc r).s.lastTs < U64MAX := by have := c2.2.2; omega
    obtain ⟨e1, he1, c1, n1⟩ := initRepo_spec db acc r hb1
    refine ⟨e1 ++ e2, by rw [he2, he1, List.append_assoc], ?_, ?_⟩
    · rw [List.map_append]; exact c1.append c2
    · intro a ha
      rcases List.mem_append.mp ha with ha | ha
      · exact n1 a ha
      · exact n2 a ha

theorem restart_fresh (s : State) : Fresh s (restart s) := by
  intro hb
  unfold restart at hb ⊢
  simp only at hb ⊢
  generalize hf : s.repos.foldl (initRepo s.seedsDb) { s := s } = acc at hb ⊢
  have hb' : next acc.s.clock acc.s.lastTs < U64MAX := hb
  have hgt := next_gt_of_lt_max hb'
  have hb1 : (s.repos.foldl (initRepo s.seedsDb) { s := s }).s.lastTs < U64MAX := by
    rw [hf]; omega
  obtain ⟨extra, he, c, n⟩ := initFold_spec s.seedsDb s.repos { s := s } hb1
  rw [hf] at he c
  simp only [List.nil_append] at he c
  refine ⟨?_, ?_⟩
  · simp only [createdTs, he, List.map_append, List.map_cons, List.map_nil]
    exact c.append (Chain.single hgt (Nat.le_refl _))
  · intro a ha
    simp only [he, List.mem_append, List.mem_singleton] at ha
    rcases ha with ha | rfl
    · exact n a ha
    · rfl

@[simp] theorem relayAnnouncements_lastTs (s : State) : (relayAnnouncements s).1.lastTs = s.lastTs := rfl

@[simp] theorem gossipTask_lastTs (s : State) : (gossipTask s).1.lastTs = s.lastTs := by
  unfold gossipTask; split <;> rfl

@[simp] theorem announceTask_lastTs (s : State) : (announceTask s).1.lastTs = s.lastTs := by
  unfold announceTask; split <;> simp

@[simp] theorem pruneTask_lastTs (s : State) : (pruneTask s).lastTs = s.lastTs := by
  unfold pruneTask; split <;> rfl

theorem wake_lastTs (s : State) : (wake s).1.lastTs = s.lastTs ∧ (wake s).2.created = [] := by
  unfold wake
  exact ⟨by simp, rfl⟩

@[simp] theorem handleKind_lastTs (s : State) (a : Ann) (r : Option Nat) :
    (handleKind s a r).1.lastTs = s.lastTs := by
  unfold handleKind handleInv handleRefs handleNode
  dsimp only
  repeat' split
  all_goals rfl

theorem handleAnn_lastTs {s s' : State} {p : Nat} {a : Ann} {k : Option Nat}
    (h : handleAnn s p a = .ok (s', k)) : s'.lastTs = s.lastTs := by
  unfold handleAnn at h
  split at h
  · simp at h
  · simp only [Except.ok.injEq, Prod.mk.injEq] at h; rw [← h.1]
  · split at h
    · simp only [Except.ok.injEq, Prod.mk.injEq] at h; rw [← h.1]
    · simp only [Except.ok.injEq] at h
      have h1 : s' = (s', k).1 := rfl
      rw [h1, ← h]; simp

theorem recv_lastTs (s : State) (p : Nat) (a : Ann) :
    (recv s p a).1.lastTs = s.lastTs ∧ (recv s p a).2.created = [] := by
  unfold recv
  split
  · exact ⟨rfl, rfl⟩
  · split
    · exact ⟨rfl, rfl⟩
    · rename_i h; exact ⟨handleAnn_lastTs h, rfl⟩
    · rename_i h
      have := handleAnn_lastTs h
      split
      · exact ⟨this, rfl⟩
      · split
        · exact ⟨this, rfl⟩
        · exact ⟨this, rfl⟩

/-- **C29, lifted to the service.** Whatever the state and the operation (incl. clock moves backwards),
every announcement the step creates is signed by the node with a timestamp strictly above
`last_timestamp` before the step, the timestamps created within the step increase strictly, and none
exceeds `last_timestamp` after the step (while below `u64::MAX`). -/
theorem step_created_fresh (s : State) (op : Op) : Fresh s (step s op) := by
  cases op with
  | connect p => exact Fresh.of_same s _ _ rfl rfl
  | disconnect p => exact Fresh.of_same s _ _ rfl rfl
  | recv p a => exact Fresh.of_same s _ _ (recv_lastTs s p a).1 (recv_lastTs s p a).2
  | subscribe p sb =>
    simp only [step, subscribe]
    split <;> exact Fresh.of_same s _ _ rfl rfl
  | elapse dt =>
    exact Fresh.of_same s _ _ (wake_lastTs _).1 (wake_lastTs _).2
  | tick now =>
    simp only [step]
    split <;> exact Fresh.of_same s _ _ rfl rfl
  | setClock t => exact Fresh.of_same s _ _ rfl rfl
  | announceRefs rid =>
    simp only [step, cmdAnnounceRefs]
    split
    · exact Fresh.of_same s _ _ rfl rfl
    · exact announceRefs_fresh s _ _
  | addInventory rid => exact addInventory_fresh s rid
  | announceInventory => exact Fresh.of_same s _ _ (announceInventory_lastTs s) rfl
  | seed rid => exact Fresh.of_same s _ _ rfl rfl
  | unseed rid =>
    simp only [step, unseed]
    split
    · exact removeInventory_fresh _ rid
    · exact Fresh.of_same s _ _ rfl rfl
  | fetched rid p clone upd => exact fetched_fresh s rid p clone upd
  | restart => exact restart_fresh s
  | setRepo r => exact Fresh.of_same s _ _ rfl rfl
  | knowNode nid ts =>
    simp only [step]
    split <;> exact Fresh.of_same s _ _ rfl rfl

/-- All announcements created along a run, in order. -/
def createdOf : List (State × Out) → List AnnId
  | [] => []
  | r :: rs => r.2.created ++ createdOf rs

def lastOf (s : State) : List (State × Out) → State
  | [] => s
  | r :: rs => lastOf r.1 rs

/-- **C29 over runs.** From any state, along any sequence of operations, the timestamps of the
announcements the node creates are strictly increasing and above the `last_timestamp` it started with
(which is the timestamp of the node announcement in the initial state, see `init_lastTs`). -/
theorem run_created_increasing (s : State) (ops : List Op)
    (hb : (lastOf s (run s ops)).lastTs < U64MAX) :
    Chain s.lastTs ((createdOf (run s ops)).map (·.ts)) (lastOf s (run s ops)).lastTs ∧
      ∀ a ∈ createdOf (run s ops), a.node = 0 := by
  induction ops generalizing s with
  | nil => exact ⟨Chain.nil (Nat.le_refl _), by simp [run, createdOf]⟩
  | cons op ops ih =>
    simp only [run, lastOf, createdOf] at hb ⊢
    obtain ⟨c2, n2⟩ := ih (step s op).1 hb
    have hb1 : (step s op).1.lastTs < U64MAX := by have := c2.2.2; omega
    obtain ⟨c1, n1⟩ := step_created_fresh s op hb1
    refine ⟨?_, ?_⟩
    · rw [List.map_append]; exact c1.append c2
    · intro a ha
      rcases List.mem_append.mp ha with ha | ha
      · exact n1 a ha
      · exact n2 a ha

/-- In the initial state the node announcement (`t0 + 1`) and the first inventory (`t0 + 2`) are below or
at `last_timestamp`: everything created later is strictly newer than both. -/
theorem init_lastTs (t0 : Nat) (b : Bool) :
    (init t0 b).nodeTs < (init t0 b).invTs ∧ (init t0 b).invTs = (init t0 b).lastTs := by
  simp [init]

/-- Non-vacuity: a run with a stalled and a backward clock that creates five announcements. -/
example :
    (createdOf (run (init 1000 true)
      [.setRepo ⟨1, true, false, [0], [], some (7, 5)⟩, .seed 1, .announceRefs 1, .setClock 900,
       .announceRefs 1, .addInventory 1, .setRepo ⟨1, true, false, [0], [], some (8, 5)⟩,
       .restart])).map (·.ts) = [1003, 1004, 1005, 1006, 1007] := by
  decide

/-! ## Part 3 — everything the node writes or stores under its own id was created as above -/

def cachedNode (s : State) : AnnId := ⟨0, .node, 0, s.nodeTs⟩
def cachedInv (s : State) : AnnId := ⟨0, .inv, 0, s.invTs⟩

/-- An announcement id of the local node that is accounted for: the cached node announcement, the cached
inventory, one created in this step, or a row already in the gossip store. -/
def Known (s : State) (created : List AnnId) (id : AnnId) : Prop :=
  id = cachedNode s ∨ id = cachedInv s ∨ id ∈ created ∨ ∃ r0 ∈ s.rows, r0.id = id

/-- What a step (or a part of one) owes: own rows and own writes are `Known`, the cached inventory after it
is the old one or was created by it, the cached node announcement is never replaced. -/
def KnownStep (s : State) (r : State × Out) : Prop :=
  (∀ row ∈ r.1.rows, row.id.node = 0 → Known s r.2.created row.id) ∧
  (∀ w ∈ r.2.writes, w.id.node = 0 → Known s r.2.created w.id) ∧
  (cachedInv r.1 = cachedInv s ∨ cachedInv r.1 ∈ r.2.created) ∧ r.1.nodeTs = s.nodeTs

theorem Known.mono {s : State} {c c' : List AnnId} {id : AnnId} (h : Known s c id)
    (hc : ∀ x ∈ c, x ∈ c') : Known s c' id := by
  rcases h with h | h | h | h
  · exact Or.inl h
  · exact Or.inr (Or.inl h)
  · exact Or.inr (Or.inr (Or.inl (hc _ h)))
  · exact Or.inr (Or.inr (Or.inr h))

theorem KnownStep.same (s s' : State) (o : Out) (hr : ∀ row ∈ s'.rows, ∃ r0 ∈ s.rows, r0.id = row.id)
    (hw : ∀ w ∈ o.writes, w.id.node = 0 → Known s o.created w.id)
    (hi : s'.invTs = s.invTs) (hn : s'.nodeTs = s.nodeTs) : KnownStep s (s', o) :=
  ⟨fun row h _ => Or.inr (Or.inr (Or.inr (hr row h))), hw, Or.inl (by simp [cachedInv, hi]), hn⟩

theorem KnownStep.comp {s : State} {r1 r2 : State × Out} (h1 : KnownStep s r1) (h2 : KnownStep r1.1 r2) :
    KnownStep s (r2.1, appendOut r1.2 r2.2) := by
  obtain ⟨a1, b1, c1, d1⟩ := h1
  obtain ⟨a2, b2, c2, d2⟩ := h2
  have lift : ∀ id, id.node = 0 → Known r1.1 r2.2.created id →
      Known s (r1.2.created ++ r2.2.created) id := by
    intro id h0 hk
    rcases hk with h | h | h | ⟨r0, hr0, he⟩
    · left; rw [h]; simp [cachedNode, d1]
    · rcases c1 with c | c
      · right; left; rw [h, c]
      · right; right; left; rw [h]; exact List.mem_append_left _ c
    · right; right; left; exact List.mem_append_right _ h
    · exact (a1 r0 hr0 (he ▸ h0)).mono (fun x hx => List.mem_append_left _ hx) |> (he ▸ ·)
  refine ⟨fun row hr h0 => lift _ h0 (a2 row hr h0), ?_, ?_, d2.trans d1⟩
  · intro w hw h0
    simp only [appendOut, List.mem_append] at hw
    rcases hw with hw | hw
    · exact (b1 w hw h0).mono (fun x hx => List.mem_append_left _ hx)
    · exact lift _ h0 (b2 w hw h0)
  · simp only [appendOut]
    rcases c2 with c | c
    · rcases c1 with c' | c'
      · exact Or.inl (c.trans c')
      · exact Or.inr (List.mem_append_left _ (c ▸ c'))
    · exact Or.inr (List.mem_append_right _ c)

theorem announceInventory_known (s : State) :
    KnownStep s ((announceInventory s).1, { writes := (announceInventory s).2 }) := by
  unfold announceInventory
  split
  · exact KnownStep.same s s _ (fun row h => ⟨row, h, rfl⟩) (by simp) rfl rfl
  · refine ⟨?_, ?_, Or.inl rfl, rfl⟩
    · intro row hr _
      rcases announced_mem hr with h | h
      · exact Or.inr (Or.inl h)
      · exact Or.inr (Or.inr (Or.inr h))
    · intro w hw _
      simp only [List.mem_map] at hw
      obtain ⟨_, _, rfl⟩ := hw
      exact Or.inr (Or.inl rfl)

theorem refreshInventory_known (s0 s : State) (t : Nat)
    (hr : ∀ row ∈ s.rows, ∃ r0 ∈ s0.rows, r0.id = row.id) (hn : s.nodeTs = s0.nodeTs) :
    KnownStep s0 (refreshInventory s t) := by
  unfold refreshInventory
  have h := announceInventory_known { s with invTs := t, inv := localInventory s }
  obtain ⟨a, b, c, d⟩ := h
  have conv : ∀ id, Known { s with invTs := t, inv := localInventory s } [] id → id.node = 0 →
      Known s0 [⟨0, .inv, 0, t⟩] id ∨ id = cachedNode s0 := by
    intro id hk _
    rcases hk with h | h | h | ⟨r0, hr0, he⟩
    · right; rw [h]; simp [cachedNode, hn]
    · left; right; right; left; rw [h]; simp [cachedInv]
    · simp at h
    · left; right; right; right
      obtain ⟨r1, hr1, he1⟩ := hr r0 hr0
      exact ⟨r1, hr1, he1.trans he⟩
  refine ⟨?_, ?_, Or.inr ?_, ?_⟩
  · intro row hrow h0
    rcases conv _ (a row hrow h0) h0 with h | h
    · exact h
    · exact Or.inl h
  · intro w hw h0
    rcases conv _ (b w hw h0) h0 with h | h
    · exact h
    · exact Or.inl h
  · simp only [List.mem_singleton]
    rcases c with c | c
    · rw [c]; simp [cachedInv]
    · simp at c
  · simp only at d
    rw [d]; exact hn

theorem timestamp_known (s : State) : KnownStep s ((timestamp s).1, {}) :=
  KnownStep.same s _ _ (fun row h => ⟨row, h, rfl⟩) (by simp) rfl rfl

theorem addInventory_known (s : State) (rid : Nat) : KnownStep s (addInventory s rid) := by
  unfold addInventory
  dsimp only
  split
  · exact timestamp_known s
  · exact refreshInventory_known s _ _ (fun row h => ⟨row, h, rfl⟩) rfl

theorem removeInventory_known (s : State) (rid : Nat) : KnownStep s (removeInventory s rid) := by
  unfold removeInventory
  dsimp only
  split
  · exact refreshInventory_known s _ _ (fun row h => ⟨row, h, rfl⟩) rfl
  · exact timestamp_known s

theorem announceRefs_known (s : State) (r doc : Repo) : KnownStep s (announceRefs s r doc) := by
  unfold announceRefs
  dsimp only
  split
  · exact timestamp_known s
  · refine ⟨?_, ?_, Or.inl rfl, rfl⟩
    · intro row hr _
      rcases announced_mem hr with h | h
      · exact Or.inr (Or.inr (Or.inl (by simp [h])))
      · exact Or.inr (Or.inr (Or.inr h))
    · intro w hw _
      simp only [List.mem_map] at hw
      obtain ⟨_, _, rfl⟩ := hw
      exact Or.inr (Or.inr (Or.inl (by simp)))

theorem fetched_known (s : State) (rid p : Nat) (clone upd : Bool) :
    KnownStep s (fetched s rid p clone upd) := by
  unfold fetched
  split
  · exact KnownStep.same s s _ (fun row h => ⟨row, h, rfl⟩) (by simp) rfl rfl
  · split
    · exact KnownStep.same s s _ (fun row h => ⟨row, h, rfl⟩) (by simp) rfl rfl
    · rename_i r _
      dsimp only
      have h1 : KnownStep s
          (fetchedInventory { s with routing := (addRoute s.routing rid p s.clock).1 } r clone) := by
        unfold fetchedInventory
        split
        · exact addInventory_known { s with routing := (addRoute s.routing rid p s.clock).1 } r.rid
        · exact KnownStep.same s _ _ (fun row h => ⟨row, h, rfl⟩) (by simp) rfl rfl
      refine KnownStep.comp h1 ?_
      unfold fetchedRefs
      split
      · exact announceRefs_known _ r r
      · exact KnownStep.same _ _ _ (fun row h => ⟨row, h, rfl⟩) (by simp) rfl rfl

/-- The loop of `initialize`: own rows are old rows or created by the loop; the caches are untouched. -/
theorem initRepo_known (db : List (Nat × Nat × Nat)) (acc : InitAcc) (r : Repo) :
    (∀ row ∈ (initRepo db acc r).s.rows,
        (∃ r0 ∈ acc.s.rows, r0.id = row.id) ∨ row.id ∈ (initRepo db acc r).created) ∧
    (∀ x ∈ acc.created, x ∈ (initRepo db acc r).created) ∧
    (initRepo db acc r).s.invTs = acc.s.invTs ∧ (initRepo db acc r).s.nodeTs = acc.s.nodeTs := by
  unfold initRepo
  split
  · exact ⟨fun row h => Or.inl ⟨row, h, rfl⟩, fun x h => h, rfl, rfl⟩
  · split
    · exact ⟨fun row h => Or.inl ⟨row, h, rfl⟩, fun x h => h, rfl, rfl⟩
    · dsimp only
      split
      · exact ⟨fun row h => Or.inl ⟨row, h, rfl⟩, fun x h => h, rfl, rfl⟩
      · split
        · exact ⟨fun row h => Or.inl ⟨row, h, rfl⟩, fun x h => h, rfl, rfl⟩
        · refine ⟨?_, fun x h => List.mem_append_left _ h, rfl, rfl⟩
          intro row hr
          rcases announced_mem hr with h | h
          · exact Or.inr (by simp [h])
          · exact Or.inl h

theorem initFold_known (db : List (Nat × Nat × Nat)) (repos : List Repo) (acc : InitAcc) :
    (∀ row ∈ (repos.foldl (initRepo db) acc).s.rows,
        (∃ r0 ∈ acc.s.rows, r0.id = row.id) ∨ row.id ∈ (repos.foldl (initRepo db) acc).created) ∧
    (∀ x ∈ acc.created, x ∈ (repos.foldl (initRepo db) acc).created) ∧
    (repos.foldl (initRepo db) acc).s.invTs = acc.s.invTs ∧
    (repos.foldl (initRepo db) acc).s.nodeTs = acc.s.nodeTs := by
  induction repos generalizing acc with
  | nil => exact ⟨fun row h => Or.inl ⟨row, h, rfl⟩, fun x h => h, rfl, rfl⟩
  | cons r rs ih =>
    simp only [List.foldl_cons]
    obtain ⟨a1, b1, c1, d1⟩ := initRepo_known db acc r
    obtain ⟨a2, b2, c2, d2⟩ := ih (initRepo db acc r)
    refine ⟨?_, fun x h => b2 x (b1 x h), c2.trans c1, d2.trans d1⟩
    intro row hr
    rcases a2 row hr with ⟨r0, hr0, he⟩ | h
    · rcases a1 r0 hr0 with ⟨r1, hr1, he1⟩ | h
      · exact Or.inl ⟨r1, hr1, he1.trans he⟩
      · exact Or.inr (b2 _ (he ▸ h))
    · exact Or.inr h

theorem restart_known (s : State) : KnownStep s (restart s) := by
  obtain ⟨a, _, c, d⟩ := initFold_known s.seedsDb s.repos { s := s }
  unfold restart
  dsimp only [timestamp]
  generalize s.repos.foldl (initRepo s.seedsDb) { s := s } = acc at a c d ⊢
  refine ⟨?_, by simp, Or.inr (by simp [cachedInv]), d⟩
  intro row hr _
  rcases a row hr with h | h
  · exact Or.inr (Or.inr (Or.inr h))
  · exact Or.inr (Or.inr (Or.inl (List.mem_append_left _ h)))

theorem KnownStep.congr {s s0 : State} {r : State × Out} (h1 : s.rows = s0.rows)
    (h2 : s.invTs = s0.invTs) (h3 : s.nodeTs = s0.nodeTs) (h : KnownStep s r) : KnownStep s0 r := by
  have conv : ∀ c id, Known s c id → Known s0 c id := by
    intro c id hk
    rcases hk with h | h | h | h
    · exact Or.inl (by rw [h]; simp [cachedNode, h3])
    · exact Or.inr (Or.inl (by rw [h]; simp [cachedInv, h2]))
    · exact Or.inr (Or.inr (Or.inl h))
    · exact Or.inr (Or.inr (Or.inr (h1 ▸ h)))
  obtain ⟨a, b, c, d⟩ := h
  refine ⟨fun row hr h0 => conv _ _ (a row hr h0), fun w hw h0 => conv _ _ (b w hw h0), ?_, d.trans h3⟩
  rcases c with c | c
  · exact Or.inl (by rw [c]; simp [cachedInv, h2])
  · exact Or.inr c

@[simp] theorem handleKind_invTs (s : State) (a : Ann) (r : Option Nat) :
    (handleKind s a r).1.invTs = s.invTs := by
  unfold handleKind handleInv handleRefs handleNode
  dsimp only
  repeat' split
  all_goals rfl

@[simp] theorem handleKind_nodeTs (s : State) (a : Ann) (r : Option Nat) :
    (handleKind s a r).1.nodeTs = s.nodeTs := by
  unfold handleKind handleInv handleRefs handleNode
  dsimp only
  repeat' split
  all_goals rfl

theorem handleAnn_caches {s s' : State} {p : Nat} {a : Ann} {k : Option Nat}
    (h : handleAnn s p a = .ok (s', k)) : s'.invTs = s.invTs ∧ s'.nodeTs = s.nodeTs := by
  unfold handleAnn at h
  split at h
  · simp at h
  · simp only [Except.ok.injEq, Prod.mk.injEq] at h; rw [← h.1]; exact ⟨rfl, rfl⟩
  · split at h
    · simp only [Except.ok.injEq, Prod.mk.injEq] at h; rw [← h.1]; exact ⟨rfl, rfl⟩
    · simp only [Except.ok.injEq] at h
      have h1 : s' = (s', k).1 := rfl
      rw [h1, ← h]; simp

theorem recv_caches (s : State) (p : Nat) (a : Ann) :
    (recv s p a).1.invTs = s.invTs ∧ (recv s p a).1.nodeTs = s.nodeTs := by
  by_cases hs : hasSession s p = true
  case neg => simp [recv, hs]
  cases h : handleAnn s p a with
  | error r => simp [recv, hs, h]
  | ok res =>
    obtain ⟨s1, k⟩ := res
    have l1 := handleAnn_caches h
    cases k with
    | none => simpa [recv, hs, h] using l1
    | some k =>
      rw [recv_eq_of_some hs h]
      split
      · exact l1
      · split <;> exact l1

/-- **C29, closing the loop.** For every state and operation: every gossip-store row of the local node
after the step and every announcement of the local node written by the step is the cached node
announcement, the cached inventory announcement, an announcement created in this step
(`step_created_fresh`), or a row that was already stored; and the cached inventory after the step is the
old one or one created in this step. -/
theorem step_known (s : State) (op : Op) : KnownStep s (step s op) := by
  cases op with
  | connect p =>
    refine KnownStep.same s _ _ (fun row h => ⟨row, h, rfl⟩) ?_ rfl rfl
    intro w hw _
    simp only [connect, List.mem_cons, List.mem_singleton, List.not_mem_nil, or_false] at hw
    rcases hw with rfl | rfl
    · exact Or.inl rfl
    · exact Or.inr (Or.inl rfl)
  | disconnect p => exact KnownStep.same s _ _ (fun row h => ⟨row, h, rfl⟩) (by simp [disconnect]) rfl rfl
  | recv p a =>
    obtain ⟨hi, hn⟩ := recv_caches s p a
    refine ⟨?_, ?_, Or.inl (by simp [cachedInv, step, hi]), hn⟩
    · intro row hr h0
      right; right; right
      rcases recv_rows_ids s p a with h | ⟨hA, h⟩
      · exact mem_ids h hr
      · obtain ⟨r1, hr1, he⟩ := mem_ids h hr
        rcases announced_mem hr1 with h1 | h1
        · exact absurd (by rw [← he, h1] at h0; exact h0) hA.2.2.1
        · obtain ⟨r0, hr0, h0'⟩ := h1
          exact ⟨r0, hr0, h0'.trans he⟩
    · intro w hw h0
      obtain ⟨w1, _, hA, _⟩ := recv_writes_spec s p a w hw
      exact absurd (w1 ▸ h0) hA.2.2.1
  | subscribe p sb =>
    have hrows : (step s (.subscribe p sb)).1.rows = s.rows := by
      simp only [step, subscribe]; split <;> rfl
    have hinv : (step s (.subscribe p sb)).1.invTs = s.invTs := by
      simp only [step, subscribe]; split <;> rfl
    have hnode : (step s (.subscribe p sb)).1.nodeTs = s.nodeTs := by
      simp only [step, subscribe]; split <;> rfl
    refine ⟨fun row hr _ => Or.inr (Or.inr (Or.inr ⟨row, hrows ▸ hr, rfl⟩)), ?_,
      Or.inl (by simp [cachedInv, hinv]), hnode⟩
    intro w hw _
    obtain ⟨_, _, _, hr⟩ := subscribe_writes_spec s p sb w hw
    exact Or.inr (Or.inr (Or.inr hr))
  | elapse dt =>
    simp only [step]
    refine KnownStep.congr (s := { s with clock := s.clock + dt }) rfl rfl rfl ?_
    generalize ({ s with clock := s.clock + dt } : State) = s0
    have g1 : (gossipTask s0).1.rows.map (·.id) = s0.rows.map (·.id) ∧
        (gossipTask s0).1.invTs = s0.invTs ∧ (gossipTask s0).1.nodeTs = s0.nodeTs ∧
        ∀ w ∈ (gossipTask s0).2, w.id.node ≠ 0 := by
      unfold gossipTask
      split
      · refine ⟨relayAnnouncements_ids s0, rfl, rfl, ?_⟩
        intro w hw
        dsimp only [relayAnnouncements] at hw
        simp only [List.mem_flatMap, List.mem_filter, Bool.and_eq_true, bne_iff_ne, ne_eq] at hw
        obtain ⟨r, ⟨_, _, hnode⟩, hwr⟩ := hw
        obtain ⟨w1, _⟩ := relayWrites_spec hwr
        rw [w1]; exact hnode
      · exact ⟨rfl, rfl, rfl, by simp⟩
    obtain ⟨g1a, g1b, g1c, g1d⟩ := g1
    have g2 : KnownStep (gossipTask s0).1
        ((announceTask (gossipTask s0).1).1, { writes := (announceTask (gossipTask s0).1).2 }) := by
      unfold announceTask
      split
      · obtain ⟨a, b, c, d⟩ := announceInventory_known (gossipTask s0).1
        exact ⟨a, b, c, d⟩
      · exact KnownStep.same _ _ _ (fun row h => ⟨row, h, rfl⟩) (by simp) rfl rfl
    have conv : ∀ id, Known (gossipTask s0).1 [] id → Known s0 [] id := by
      intro id hk
      rcases hk with h | h | h | ⟨r0, hr0, he⟩
      · exact Or.inl (by rw [h]; simp [cachedNode, g1c])
      · exact Or.inr (Or.inl (by rw [h]; simp [cachedInv, g1b]))
      · simp at h
      · obtain ⟨r1, hr1, he1⟩ := mem_ids g1a hr0
        exact Or.inr (Or.inr (Or.inr ⟨r1, hr1, he1.trans he⟩))
    obtain ⟨a, b, c, d⟩ := g2
    unfold wake
    dsimp only
    have hprune : ∀ st : State, (∀ row ∈ (pruneTask st).rows, row ∈ st.rows) ∧
        (pruneTask st).invTs = st.invTs ∧ (pruneTask st).nodeTs = st.nodeTs := by
      intro st
      unfold pruneTask
      split
      · exact ⟨fun row h => (List.mem_filter.mp h).1, rfl, rfl⟩
      · exact ⟨fun row h => h, rfl, rfl⟩
    obtain ⟨p1, p2, p3⟩ := hprune (announceTask (gossipTask s0).1).1
    refine ⟨fun row hr h0 => conv _ (a row (p1 row hr) h0), ?_, ?_, (p3.trans d).trans g1c⟩
    · intro w hw h0
      rcases List.mem_append.mp hw with h | h
      · exact absurd h0 (g1d w h)
      · exact conv _ (b w h h0)
    · left
      rcases c with c | c
      · simp only [cachedInv] at c ⊢
        simp only [AnnId.mk.injEq, true_and] at c ⊢
        rw [p2, c, g1b]
      · simp at c
  | tick now =>
    simp only [step]
    split <;> exact KnownStep.same s _ _ (fun row h => ⟨row, h, rfl⟩) (by simp) rfl rfl
  | setClock t => exact KnownStep.same s _ _ (fun row h => ⟨row, h, rfl⟩) (by simp) rfl rfl
  | announceRefs rid =>
    simp only [step, cmdAnnounceRefs]
    split
    · exact KnownStep.same s _ _ (fun row h => ⟨row, h, rfl⟩) (by simp) rfl rfl
    · exact announceRefs_known s _ _
  | addInventory rid => exact addInventory_known s rid
  | announceInventory => exact announceInventory_known s
  | seed rid => exact KnownStep.same s _ _ (fun row h => ⟨row, h, rfl⟩) (by simp [seed]) rfl rfl
  | unseed rid =>
    simp only [step, unseed]
    split
    · exact KnownStep.congr (s := { s with seeded := s.seeded.filter (· != rid) }) rfl rfl rfl
        (removeInventory_known _ rid)
    · exact KnownStep.same s _ _ (fun row h => ⟨row, h, rfl⟩) (by simp) rfl rfl
  | fetched rid p clone upd => exact fetched_known s rid p clone upd
  | restart => exact restart_known s
  | setRepo r => exact KnownStep.same s _ _ (fun row h => ⟨row, h, rfl⟩) (by simp) rfl rfl
  | knowNode nid ts =>
    simp only [step]
    split <;> exact KnownStep.same s _ _ (fun row h => ⟨row, h, rfl⟩) (by simp) rfl rfl

/-- **C29 over runs, complete.** Along any run from `init`, every announcement of the local node that is
written or stored is the node announcement (`t0 + 1`), the first inventory (`t0 + 2`) or one of the
announcements created along the run — whose timestamps increase strictly and exceed both
(`run_created_increasing`). -/
theorem run_own_announcements_known (t0 : Nat) (b : Bool) (ops : List Op) :
    ∀ r ∈ run (init t0 b) ops,
      (∀ w ∈ r.2.writes, w.id.node = 0 →
        w.id = ⟨0, .node, 0, t0 + 1⟩ ∨ w.id = ⟨0, .inv, 0, t0 + 2⟩ ∨ w.id ∈ createdOf (run (init t0 b) ops)) ∧
      (∀ row ∈ r.1.rows, row.id.node = 0 →
        row.id = ⟨0, .node, 0, t0 + 1⟩ ∨ row.id = ⟨0, .inv, 0, t0 + 2⟩ ∨
          row.id ∈ createdOf (run (init t0 b) ops)) := by
  -- generalised over the start state and the set `H` of announcements accounted for so far
  suffices H : ∀ (ops : List Op) (s : State) (G : AnnId → Prop),
      G (cachedNode s) → G (cachedInv s) → (∀ row ∈ s.rows, row.id.node = 0 → G row.id) →
      ∀ r ∈ run s ops,
        (∀ w ∈ r.2.writes, w.id.node = 0 → G w.id ∨ w.id ∈ createdOf (run s ops)) ∧
        (∀ row ∈ r.1.rows, row.id.node = 0 → G row.id ∨ row.id ∈ createdOf (run s ops)) by
    intro r hr
    have := H ops (init t0 b) (fun id => id = ⟨0, .node, 0, t0 + 1⟩ ∨ id = ⟨0, .inv, 0, t0 + 2⟩)
      (Or.inl rfl) (Or.inr rfl) (by simp [init]) r hr
    refine ⟨fun w hw h0 => ?_, fun row hrow h0 => ?_⟩
    · rcases this.1 w hw h0 with (h | h) | h
      · exact Or.inl h
      · exact Or.inr (Or.inl h)
      · exact Or.inr (Or.inr h)
    · rcases this.2 row hrow h0 with (h | h) | h
      · exact Or.inl h
      · exact Or.inr (Or.inl h)
      · exact Or.inr (Or.inr h)
  intro ops
  induction ops with
  | nil => intro s G _ _ _ r hr; simp [run] at hr
  | cons op ops ih =>
    intro s G hn hi hrows r hr
    obtain ⟨ka, kb, kc, kd⟩ := step_known s op
    have known_G : ∀ id, Known s (step s op).2.created id → id.node = 0 →
        G id ∨ id ∈ (step s op).2.created := by
      intro id hk h0
      rcases hk with h | h | h | ⟨r0, hr0, he⟩
      · exact Or.inl (h ▸ hn)
      · exact Or.inl (h ▸ hi)
      · exact Or.inr h
      · exact Or.inl (he ▸ hrows r0 hr0 (he ▸ h0))
    simp only [run, List.mem_cons] at hr
    simp only [run, createdOf]
    rcases hr with rfl | hr
    · refine ⟨fun w hw h0 => ?_, fun row hrow h0 => ?_⟩
      · exact (known_G _ (kb w hw h0) h0).imp id (fun h => List.mem_append_left _ h)
      · exact (known_G _ (ka row hrow h0) h0).imp id (fun h => List.mem_append_left _ h)
    · let G' : AnnId → Prop := fun id => G id ∨ id ∈ (step s op).2.created
      have hn' : G' (cachedNode (step s op).1) := by
        left; simp only [cachedNode, kd]; exact hn
      have hi' : G' (cachedInv (step s op).1) := by
        rcases kc with c | c
        · left; rw [c]; exact hi
        · right; exact c
      have hrows' : ∀ row ∈ (step s op).1.rows, row.id.node = 0 → G' row.id :=
        fun row hrow h0 => known_G _ (ka row hrow h0) h0
      obtain ⟨h1, h2⟩ := ih (step s op).1 G' hn' hi' hrows' r hr
      refine ⟨fun w hw h0 => ?_, fun row hrow h0 => ?_⟩
      · rcases h1 w hw h0 with (h | h) | h
        · exact Or.inl h
        · exact Or.inr (List.mem_append_left _ h)
        · exact Or.inr (List.mem_append_right _ h)
      · rcases h2 row hrow h0 with (h | h) | h
        · exact Or.inl h
        · exact Or.inr (List.mem_append_left _ h)
        · exact Or.inr (List.mem_append_right _ h)

end HeartwoodModel.Gossip
