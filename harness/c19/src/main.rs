//! C19 — identity documents: validity of everything accepted, encode/decode round trip, repository id.
//!
//! Case input (the same tokens the Lean driver reads):
//!   `<did table> <nfc table> json <tree>`                               a JSON document
//!   `<did table> <nfc table> raw <delegates> <threshold> <P|V<allow>> <payload tree>`   a `RawDoc` built through the API
//! * did table `idx:hex,…|-`: the DID strings of the case (`Did::encode`), numbered so that index order is
//!   the `Ord` of `Did`; checked here with the real `Did::decode`.
//! * nfc table `hex>hex,…|-`: NFC of every string fragment of the tree that is not already normalised;
//!   re-computed here with the `unicode-normalization` crate and compared (`bad-case` if it differs).
//! * tree: see `lean/HeartwoodModel/Model/JsonWire.lean`. The harness prints it as JSON text and gives the
//!   text to the real code: `RawDoc::from_json(..).verified()` (the body of `Doc::from_blob`),
//!   `serde_json::from_slice::<Doc>` and `Doc::from_blob` on a real git blob.
//!
//! Output: `rej` or `ok v=<version> t=<threshold> d=<delegate idx,…> vis=<pub|priv:idx,…> enc=<hex|err> rt=<1|0|E|x>`.
//! Oracle (the property statement on what the real code did): see `check_doc`.

use std::collections::{BTreeMap, BTreeSet, HashMap};
use std::sync::atomic::{AtomicU64, Ordering};

use radicle::cob::identity::Identity;
use radicle::crypto::test::signer::MockSigner;
use radicle::git::raw as git2;
use radicle::identity::doc::{Doc, DocError, Payload, PayloadId, RawDoc, Visibility};
use radicle::identity::project::Project;
use radicle::identity::{Did, RepoId};
use radicle::node::device::Device;
use radicle::storage::git::{Repository, Storage};
use radicle::storage::ReadStorage as _;
use radicle::test::fixtures;
use unicode_normalization::UnicodeNormalization;
use verif_common::*;

// ---------------------------------------------------------------------------------------------
// JSON trees (wire syntax)

#[derive(Clone, Debug, PartialEq)]
enum J {
    Null,
    Bool(bool),
    Int(i128),
    Float(u32),
    Str(String),
    Arr(Vec<J>),
    Obj(Vec<(String, J)>),
}

const FLOATS: &[&str] = &["1.5", "-0.25", "1e2", "2.5E-3", "1.0", "18446744073709551616", "-9223372036854775809", "0.0", "-0.0", "-0"];

struct P<'a> {
    s: &'a [u8],
    i: usize,
    tbl: &'a BTreeMap<u64, String>,
}

impl<'a> P<'a> {
    fn peek(&self) -> Option<u8> {
        self.s.get(self.i).copied()
    }
    fn eat(&mut self, c: u8) -> bool {
        if self.peek() == Some(c) {
            self.i += 1;
            true
        } else {
            false
        }
    }
    fn nat(&mut self) -> Option<u128> {
        let st = self.i;
        let mut n: u128 = 0;
        while let Some(c) = self.peek() {
            if c.is_ascii_digit() {
                n = n.checked_mul(10)?.checked_add((c - b'0') as u128)?;
                self.i += 1;
            } else {
                break;
            }
        }
        if self.i == st {
            None
        } else {
            Some(n)
        }
    }
    fn hex(&mut self) -> Option<String> {
        let mut out = vec![];
        let hv = |c: u8| match c {
            b'0'..=b'9' => Some(c - b'0'),
            b'a'..=b'f' => Some(c - b'a' + 10),
            _ => None,
        };
        while self.i + 1 < self.s.len() {
            match (hv(self.s[self.i]), hv(self.s[self.i + 1])) {
                (Some(a), Some(b)) => {
                    out.push(a * 16 + b);
                    self.i += 2;
                }
                _ => break,
            }
        }
        String::from_utf8(out).ok()
    }
    fn string(&mut self) -> Option<String> {
        if self.eat(b'K') {
            let n = self.nat()?;
            self.tbl.get(&(n as u64)).cloned()
        } else {
            self.hex()
        }
    }
    fn value(&mut self, depth: usize) -> Option<J> {
        if depth > 64 {
            return None;
        }
        let c = self.peek()?;
        self.i += 1;
        match c {
            b'N' => Some(J::Null),
            b'T' => Some(J::Bool(true)),
            b'F' => Some(J::Bool(false)),
            b'D' => Some(J::Float(self.nat().unwrap_or(0) as u32)),
            b'I' => {
                let neg = self.eat(b'-');
                let n = self.nat()? as i128;
                let v = if neg { -n } else { n };
                if v < i64::MIN as i128 || v > u64::MAX as i128 {
                    return None;
                }
                Some(J::Int(v))
            }
            b'S' => Some(J::Str(self.hex()?)),
            b'K' => {
                self.i -= 1;
                Some(J::Str(self.string()?))
            }
            b'A' => {
                if !self.eat(b'[') {
                    return None;
                }
                let mut xs = vec![];
                if self.eat(b']') {
                    return Some(J::Arr(xs));
                }
                loop {
                    xs.push(self.value(depth + 1)?);
                    if self.eat(b',') {
                        continue;
                    }
                    if self.eat(b']') {
                        return Some(J::Arr(xs));
                    }
                    return None;
                }
            }
            b'O' => {
                if !self.eat(b'{') {
                    return None;
                }
                let mut kvs = vec![];
                if self.eat(b'}') {
                    return Some(J::Obj(kvs));
                }
                loop {
                    let k = self.string()?;
                    if !self.eat(b':') {
                        return None;
                    }
                    kvs.push((k, self.value(depth + 1)?));
                    if self.eat(b',') {
                        continue;
                    }
                    if self.eat(b'}') {
                        return Some(J::Obj(kvs));
                    }
                    return None;
                }
            }
            _ => None,
        }
    }
}

fn parse_tree(s: &str, tbl: &BTreeMap<u64, String>) -> Option<J> {
    let mut p = P { s: s.as_bytes(), i: 0, tbl };
    let v = p.value(0)?;
    if p.i == s.len() {
        Some(v)
    } else {
        None
    }
}

fn hexs(s: &str) -> String {
    let mut o = String::new();
    for b in s.as_bytes() {
        o.push_str(&format!("{:02x}", b));
    }
    o
}

/// Wire form of a tree; strings found in `rev` (DID strings) are written as `K<idx>`.
fn wire(j: &J, rev: &HashMap<String, u64>, out: &mut String) {
    let st = |s: &str, val: bool, out: &mut String| {
        if let Some(i) = rev.get(s) {
            out.push_str(&format!("K{i}"));
        } else {
            if val {
                out.push('S');
            }
            out.push_str(&hexs(s));
        }
    };
    match j {
        J::Null => out.push('N'),
        J::Bool(true) => out.push('T'),
        J::Bool(false) => out.push('F'),
        J::Int(i) => out.push_str(&format!("I{i}")),
        J::Float(k) => out.push_str(&format!("D{k}")),
        J::Str(s) => st(s, true, out),
        J::Arr(xs) => {
            out.push_str("A[");
            for (i, x) in xs.iter().enumerate() {
                if i > 0 {
                    out.push(',');
                }
                wire(x, rev, out);
            }
            out.push(']');
        }
        J::Obj(kvs) => {
            out.push_str("O{");
            for (i, (k, v)) in kvs.iter().enumerate() {
                if i > 0 {
                    out.push(',');
                }
                st(k, false, out);
                out.push(':');
                wire(v, rev, out);
            }
            out.push('}');
        }
    }
}

fn json_str(s: &str, out: &mut String) {
    out.push('"');
    for c in s.chars() {
        match c {
            '"' => out.push_str("\\\""),
            '\\' => out.push_str("\\\\"),
            c if (c as u32) < 0x20 => out.push_str(&format!("\\u{:04x}", c as u32)),
            c => out.push(c),
        }
    }
    out.push('"');
}

/// JSON text of a tree (what the real code is given).
fn json_text(j: &J, out: &mut String) {
    match j {
        J::Null => out.push_str("null"),
        J::Bool(b) => out.push_str(if *b { "true" } else { "false" }),
        J::Int(i) => out.push_str(&i.to_string()),
        J::Float(k) => out.push_str(FLOATS[*k as usize % FLOATS.len()]),
        J::Str(s) => json_str(s, out),
        J::Arr(xs) => {
            out.push('[');
            for (i, x) in xs.iter().enumerate() {
                if i > 0 {
                    out.push(',');
                }
                json_text(x, out);
            }
            out.push(']');
        }
        J::Obj(kvs) => {
            out.push('{');
            for (i, (k, v)) in kvs.iter().enumerate() {
                if i > 0 {
                    out.push_str(", ");
                }
                json_str(k, out);
                out.push_str(": ");
                json_text(v, out);
            }
            out.push('}');
        }
    }
}

fn strings_of<'a>(j: &'a J, out: &mut Vec<&'a str>) {
    match j {
        J::Str(s) => out.push(s),
        J::Arr(xs) => xs.iter().for_each(|x| strings_of(x, out)),
        J::Obj(kvs) => kvs.iter().for_each(|(k, v)| {
            out.push(k);
            strings_of(v, out)
        }),
        _ => {}
    }
}

fn needs_esc(b: u8) -> bool {
    b < 0x20 || b == b'"' || b == b'\\'
}

/// The fragments `format_escaped_str_contents` hands to `write_string_fragment`.
fn fragments(s: &str) -> Vec<&str> {
    let mut out = vec![];
    let mut start = 0;
    for (i, b) in s.bytes().enumerate() {
        if needs_esc(b) {
            if start < i {
                out.push(&s[start..i]);
            }
            start = i + 1;
        }
    }
    if start < s.len() {
        out.push(&s[start..]);
    }
    out
}

fn nfc_table(j: &J) -> BTreeMap<String, String> {
    let mut ss = vec![];
    strings_of(j, &mut ss);
    let mut t = BTreeMap::new();
    for s in ss {
        for f in fragments(s) {
            let n: String = f.nfc().collect();
            if n != f {
                t.insert(f.to_string(), n);
            }
        }
    }
    t
}

fn nfc_unstable(v: &serde_json::Value) -> bool {
    let st = |s: &str| fragments(s).iter().any(|f| f.nfc().collect::<String>() != **f);
    match v {
        serde_json::Value::String(s) => st(s),
        serde_json::Value::Array(xs) => xs.iter().any(nfc_unstable),
        serde_json::Value::Object(m) => m.iter().any(|(k, v)| st(k) || nfc_unstable(v)),
        _ => false,
    }
}

// ---------------------------------------------------------------------------------------------
// Keys

const POOL: usize = 300;

struct Pool {
    signers: Vec<Device<MockSigner>>, // sorted by Did
    dids: Vec<Did>,
}

fn pool() -> &'static Pool {
    static P: std::sync::OnceLock<Pool> = std::sync::OnceLock::new();
    P.get_or_init(|| {
        let mut v: Vec<(Did, Device<MockSigner>)> = (0..POOL)
            .map(|i| {
                let mut seed = [0xa3u8; 32];
                seed[..8].copy_from_slice(&(i as u64).to_le_bytes());
                let s = Device::mock_from_seed(seed);
                (Did::from(*s.public_key()), s)
            })
            .collect();
        v.sort_by(|a, b| a.0.cmp(&b.0));
        Pool { dids: v.iter().map(|x| x.0).collect(), signers: v.into_iter().map(|x| x.1).collect() }
    })
}

// ---------------------------------------------------------------------------------------------
// Running one case

static INIT_EVERY: AtomicU64 = AtomicU64::new(20);

fn fnv(s: &str) -> u64 {
    let mut h = 0xcbf29ce484222325u64;
    for b in s.bytes() {
        h ^= b as u64;
        h = h.wrapping_mul(0x100000001b3);
    }
    h
}

fn blob_hash(bytes: &[u8]) -> String {
    let mut h = sha1_smol::Sha1::new();
    h.update(format!("blob {}\0", bytes.len()).as_bytes());
    h.update(bytes);
    h.digest().to_string()
}

thread_local! {
    static SCRATCH: (tempfile::TempDir, git2::Repository) = {
        let d = tempfile::tempdir().expect("tempdir");
        let r = git2::Repository::init_bare(d.path()).expect("scratch repo");
        (d, r)
    };
}

fn err_class(e: &DocError) -> &'static str {
    match e {
        DocError::Json(_) => "json",
        DocError::Delegates(_) => "delegates",
        DocError::Threshold(_) => "threshold",
        _ => "other",
    }
}

struct Case {
    dids: BTreeMap<u64, String>,
    rev: HashMap<Did, u64>,
}

fn nat_list(s: &str) -> Option<Vec<u64>> {
    if s == "-" || s.is_empty() {
        return Some(vec![]);
    }
    s.split(',').map(|x| x.parse().ok()).collect()
}

fn run_case(input: &str) -> Outcome {
    match catch(|| run_case_inner(input)) {
        Ok(Some(o)) => o,
        Ok(None) => Outcome::new("bad-case").trivial().tag("bad-case"),
        Err(msg) => Outcome::new("panic").violation("panic", format!("the real code panicked: {msg}")).tag("panic"),
    }
}

fn run_case_inner(input: &str) -> Option<Outcome> {
    let toks: Vec<&str> = input.split(' ').collect();
    if toks.len() < 4 {
        return None;
    }
    // did table
    let mut dids = BTreeMap::new();
    let mut rev = HashMap::new();
    if toks[0] != "-" {
        let mut prev: Option<Did> = None;
        let mut entries: Vec<(u64, String)> = vec![];
        for e in toks[0].split(',') {
            let (i, h) = e.split_once(':')?;
            entries.push((i.parse().ok()?, String::from_utf8(unhex(h)?).ok()?));
        }
        entries.sort();
        for (i, s) in entries {
            let d = Did::decode(&s).ok()?; // showDid graph must be real
            if d.to_string() != s {
                return None;
            }
            if let Some(p) = prev {
                if p >= d {
                    return None; // index order must be the Ord of Did
                }
            }
            prev = Some(d);
            if dids.insert(i, s).is_some() {
                return None;
            }
            rev.insert(d, i);
        }
    }
    let case = Case { dids, rev };
    // tree
    let (tree_tok, kind) = match toks[2] {
        "json" if toks.len() == 4 => (toks[3], 0),
        "raw" if toks.len() == 7 => (toks[6], 1),
        _ => return None,
    };
    let tree = parse_tree(tree_tok, &case.dids)?;
    // nfc table must be exactly NFC on the non-normalised fragments of the tree
    let mut given = BTreeMap::new();
    if toks[1] != "-" {
        for e in toks[1].split(',') {
            let (a, b) = e.split_once('>')?;
            given.insert(String::from_utf8(unhex(a)?).ok()?, String::from_utf8(unhex(b)?).ok()?);
        }
    }
    if given != nfc_table(&tree) {
        return None;
    }
    // every string of the tree that is not in the did table must not be a DID (parseDid graph is sparse)
    {
        let mut ss = vec![];
        strings_of(&tree, &mut ss);
        let known: BTreeSet<&str> = case.dids.values().map(|s| s.as_str()).collect();
        for s in ss {
            if !known.contains(s) && Did::decode(s).is_ok() {
                return None;
            }
        }
    }
    let mut text = String::new();
    json_text(&tree, &mut text);
    let mut viol: Vec<(String, String)> = vec![];
    let mut tags: Vec<String> = vec![];
    let res: Result<Doc, DocError> = if kind == 0 {
        tags.push("kind:json".into());
        let a = RawDoc::from_json(text.as_bytes()).and_then(|r| r.verified());
        let b = serde_json::from_slice::<Doc>(text.as_bytes());
        let c = SCRATCH.with(|(_, repo)| {
            let oid = repo.blob(text.as_bytes()).expect("blob");
            let blob = repo.find_blob(oid).expect("find blob");
            Doc::from_blob(&blob)
        });
        let same = match (&a, &b, &c) {
            (Ok(a), Ok(b), Ok(c)) => a == b && a == c,
            (Err(_), Err(_), Err(_)) => true,
            _ => false,
        };
        if !same {
            viol.push((
                "deserialize-paths-disagree".into(),
                format!(
                    "RawDoc::from_json+verified: {:?}, Doc::deserialize: {:?}, Doc::from_blob: {:?}",
                    a.as_ref().map(|_| "ok").map_err(|e| e.to_string()),
                    b.as_ref().map(|_| "ok").map_err(|e| e.to_string()),
                    c.as_ref().map(|_| "ok").map_err(|e| e.to_string())
                ),
            ));
        }
        // report the Doc::deserialize path when the paths disagree on acceptance, so that an accepted
        // document is always checked by the oracle
        match (a, b) {
            (Ok(a), _) => Ok(a),
            (Err(_), Ok(b)) => Ok(b),
            (Err(e), Err(_)) => Err(e),
        }
    } else {
        tags.push("kind:raw".into());
        let dels = nat_list(toks[3])?;
        let thr: usize = toks[4].parse().ok()?;
        let did_of = |i: &u64| -> Option<Did> { Did::decode(case.dids.get(i)?).ok() };
        let vis = if toks[5] == "P" {
            Visibility::Public
        } else if let Some(a) = toks[5].strip_prefix('V') {
            Visibility::private(nat_list(a)?.iter().map(did_of).collect::<Option<Vec<_>>>()?)
        } else {
            return None;
        };
        let delegates = dels.iter().map(did_of).collect::<Option<Vec<_>>>()?;
        if !matches!(tree, J::Obj(_)) {
            return None;
        }
        let payload: BTreeMap<PayloadId, Payload> = serde_json::from_str(&text).ok()?;
        let project = Project::new(
            "placeholder".try_into().ok()?,
            String::new(),
            radicle::git::RefString::try_from("master").ok()?,
        )
        .ok()?;
        let mut raw = RawDoc::new(project, delegates, thr, vis);
        raw.payload = payload;
        raw.verified()
    };
    if std::env::var("C19_DEBUG").is_ok() {
        eprintln!("TEXT {text}\nRES {:?}", res.as_ref().map(|_| "ok").map_err(|e| e.to_string()));
    }
    // The property on the *input* document: what is accepted must carry the version and threshold that
    // the document states (an unsupported version / out-of-range threshold must not be coerced).
    if let (0, Ok(d)) = (kind, &res) {
        let find = |name: &str, pos: usize| -> Option<&J> {
            match &tree {
                J::Obj(kvs) => {
                    let mut it = kvs.iter().filter(|(k, _)| k == name);
                    let first = it.next();
                    if it.next().is_some() { None } else { first.map(|(_, v)| v) }
                }
                J::Arr(xs) => xs.get(pos),
                _ => None,
            }
        };
        if let Some(v) = find("version", 0) {
            if *v != J::Int(1) {
                viol.push(("accepted-field-mismatch".into(), "a document stating a version other than 1 was accepted".into()));
            }
        }
        match find("threshold", 3) {
            Some(J::Int(t)) if *t == d.threshold() as i128 => {}
            _ => viol.push(("accepted-field-mismatch".into(), format!("accepted threshold {} is not the threshold the document states", d.threshold()))),
        }
    }
    let out = match res {
        Err(e) => {
            tags.push(format!("rej:{}", err_class(&e)));
            "rej".to_string()
        }
        Ok(d) => check_doc(input, &case, &d, &mut viol, &mut tags),
    };
    let nontrivial = out != "rej" || tags.iter().any(|t| t == "rej:delegates" || t == "rej:threshold");
    let mut o = Outcome::new(out);
    o.violations = viol;
    o.nontrivial = nontrivial;
    tags.sort();
    tags.dedup();
    o.tags = tags;
    Some(o)
}

/// The property statement evaluated on an accepted document, with the real accessors.
fn check_doc(input: &str, case: &Case, d: &Doc, viol: &mut Vec<(String, String)>, tags: &mut Vec<String>) -> String {
    let dels: Vec<Did> = d.delegates().iter().copied().collect();
    let n = dels.len();
    let distinct: BTreeSet<&Did> = dels.iter().collect();
    let t = d.threshold();
    let v: u32 = (*d.version()).into();
    if n < 1 || n > 255 {
        viol.push(("invalid-doc-accepted".into(), format!("accepted document has {n} delegates")));
    }
    if distinct.len() != n {
        viol.push(("invalid-doc-accepted".into(), format!("accepted document has duplicate delegates ({} distinct of {n})", distinct.len())));
    }
    if t < 1 || t > n {
        viol.push(("invalid-doc-accepted".into(), format!("accepted document has threshold {t} with {n} delegates")));
    }
    if v != 1 {
        viol.push(("invalid-doc-accepted".into(), format!("accepted document has unsupported version {v}")));
    }
    tags.push(match n {
        1 => "ok:delegates=1".into(),
        2..=9 => "ok:delegates=2..9".into(),
        10..=253 => "ok:delegates=10..253".into(),
        k => format!("ok:delegates={k}"),
    });
    tags.push(if t == n { "ok:threshold=n" } else if t == 1 { "ok:threshold=1" } else { "ok:threshold=mid" }.into());
    let idx = |x: &Did| case.rev.get(x).map(|i| i.to_string()).unwrap_or_else(|| "?".into());
    let dl = dels.iter().map(idx).collect::<Vec<_>>().join(",");
    let vis = match d.visibility() {
        Visibility::Public => "pub".to_string(),
        Visibility::Private { allow } => {
            tags.push("ok:private".into());
            let a = allow.iter().map(idx).collect::<Vec<_>>().join(",");
            format!("priv:{}", if a.is_empty() { "-".into() } else { a })
        }
    };
    let (enc, rt) = match d.encode() {
        Err(_) => {
            tags.push("enc:err-float".into());
            ("err".to_string(), "x")
        }
        Ok((oid, bytes)) => {
            let indep = blob_hash(&bytes);
            if oid.to_string() != indep {
                viol.push(("rid-not-blob-hash".into(), format!("Doc::encode returned oid {oid} but the git blob hash of the bytes is {indep}")));
            }
            // the bytes must be the canonical JSON (C18's formatter) of the serialised document
            match serde_json::to_value(d).ok().and_then(|v| radicle::cob::store::encoding::encode(&v).ok()) {
                Some(buf) if buf == bytes => {}
                _ => viol.push(("encode-not-canonical".into(), "Doc::encode does not return the canonical JSON encoding of the document".into())),
            }
            let rt = match RawDoc::from_json(&bytes).and_then(|r| r.verified()) {
                Err(e) => {
                    viol.push(("roundtrip-decode-failed".into(), format!("the canonical encoding of an accepted document is rejected: {e}")));
                    "E"
                }
                Ok(d2) => {
                    let core_same = d2.delegates() == d.delegates()
                        && d2.threshold() == d.threshold()
                        && d2.version() == d.version()
                        && d2.visibility() == d.visibility();
                    if !core_same {
                        viol.push(("roundtrip-core-fields-changed".into(), "delegates/threshold/version/visibility differ after encode+decode".into()));
                    }
                    match d2.encode() {
                        Ok((_, b2)) if b2 == bytes => {}
                        _ => viol.push(("canonical-not-fixed-point".into(), "re-encoding the decoded canonical document gives different bytes".into())),
                    }
                    if &d2 == d {
                        tags.push("rt:equal".into());
                        "1"
                    } else {
                        let unstable = d.payload().iter().any(|(k, p)| {
                            fragments(&k.to_string()).iter().any(|f| f.nfc().collect::<String>() != **f) || nfc_unstable(p)
                        });
                        if unstable {
                            tags.push("rt:differs-nfc".into());
                            viol.push(("roundtrip-payload-not-nfc".into(), "encode+decode yields a different document: a payload string is not NFC-normalised".into()));
                        } else {
                            viol.push(("roundtrip-not-equal".into(), "encode+decode yields a different document although every payload string is NFC-normalised".into()));
                        }
                        "0"
                    }
                }
            };
            // Repository::init / Identity::from_root on a deterministic subset
            let every = INIT_EVERY.load(Ordering::Relaxed);
            if every > 0 && fnv(input) % every == 0 {
                init_check(d, &bytes, &indep, viol, tags);
            }
            (hex(&bytes), rt)
        }
    };
    format!("ok v={v} t={t} d={dl} vis={vis} enc={enc} rt={rt}")
}

/// `Repository::init` must name the repository after the blob hash of the canonical bytes, the stored
/// identity must load (`Identity::from_root`), and the same root under a different id must be refused.
fn init_check(d: &Doc, bytes: &[u8], indep: &str, viol: &mut Vec<(String, String)>, tags: &mut Vec<String>) {
    let p = pool();
    let first = *d.delegates().first();
    let Some(k) = p.dids.iter().position(|x| *x == first) else { return };
    let signer = &p.signers[k];
    let Ok(tmp) = tempfile::tempdir() else { return };
    let Ok(storage) = Storage::open(tmp.path().join("storage"), fixtures::user()) else { return };
    tags.push("init:run".into());
    match Repository::init(d, &storage, signer) {
        Err(e) => viol.push(("init-failed".into(), format!("Repository::init failed on a valid document: {e}"))),
        Ok((repo, commit)) => {
            let expect = RepoId::from(git2::Oid::from_str(indep).expect("oid"));
            if repo.id != expect {
                viol.push(("rid-not-blob-hash".into(), format!("Repository::init named the repository {} but the blob hash of the canonical document is {}", repo.id, expect)));
            }
            match Identity::get(&commit.into(), &repo) {
                Err(e) => viol.push(("init-load-failed".into(), format!("identity of a freshly initialised repository does not load: {e}"))),
                Ok(id) => {
                    if id.id() != repo.id {
                        viol.push(("rid-not-blob-hash".into(), format!("loaded identity has id {} in repository {}", id.id(), repo.id)));
                    }
                    let stored = RawDoc::from_json(bytes).and_then(|r| r.verified());
                    if stored.map(|s| &s != id.doc()).unwrap_or(true) {
                        viol.push(("stored-doc-differs".into(), "the loaded root document is not the decoding of the canonical bytes".into()));
                    }
                }
            }
            // the same root document in a repository with another id
            let other = RepoId::from(git2::Oid::from_str(&blob_hash(b"another repository")).expect("oid"));
            if other != expect {
                match Repository::create(storage.path().join(other.canonical()), other, storage.info()) {
                    Err(e) => tags.push(format!("init:foreign-create-failed:{}", e.to_string().chars().take(40).collect::<String>())),
                    Ok(foreign) => match d.init(&foreign, signer) {
                        // `Doc::init` evaluates the new COB, i.e. runs `Identity::from_root` itself
                        Err(e) if e.to_string().contains("does not match identifier") => tags.push("init:foreign-id-refused".into()),
                        Err(_) => tags.push("init:foreign-init-failed-other".into()),
                        Ok(root) => {
                            if Identity::get(&root.into(), &foreign).is_ok() {
                                viol.push(("root-mismatch-accepted".into(), format!("a root document hashing to {expect} is accepted as the identity of repository {other}")));
                            } else {
                                tags.push("init:foreign-id-refused".into());
                            }
                        }
                    },
                }
            }
        }
    }
}

// ---------------------------------------------------------------------------------------------
// Generation

const STRS: &[&str] = &[
    "", "a", "b", "name", "heartwood", "description", "xyz.radicle.project", "defaultBranch", "master",
    "e\u{301}", "\u{e9}", "A\u{30a}", "\u{212b}", "\u{c5}", "\u{1100}\u{1161}", "\u{ac00}", "\u{fb01}", "\u{2126}",
    "\u{0}", "\n", "\t\"q\"\\", "a b", "a!", "\u{1}x", "\u{7f}", "\u{80}", "\u{1f600}", "e\n\u{301}", "\u{301}",
    "q\u{307}\u{323}", "q\u{323}\u{307}", "\u{1e0b}\u{323}", "x\u{1f}e\u{301}y\"e\u{301}", "type", "public", "did:key:z6Mk", "1",
];

fn gen_string(rng: &mut Rng) -> String {
    match rng.below(10) {
        0..=5 => rng.pick(STRS).to_string(),
        6..=7 => format!("{}{}", rng.pick(STRS), rng.pick(STRS)),
        8 => (0..rng.below(6)).map(|_| (b'a' + rng.below(26) as u8) as char).collect(),
        _ => format!("{}.{}", rng.pick(STRS), rng.below(100)),
    }
}

fn gen_int(rng: &mut Rng) -> i128 {
    match rng.below(12) {
        0 => 0,
        1 => 1,
        2 => -1,
        3 => i64::MIN as i128,
        4 => i64::MAX as i128,
        5 => u64::MAX as i128,
        6 => i64::MAX as i128 + 1,
        7 => u32::MAX as i128,
        8 => -(rng.below(1000) as i128),
        _ => rng.below(1000) as i128,
    }
}

fn gen_value(rng: &mut Rng, depth: u32) -> J {
    let top = if depth >= 3 { 8 } else { 12 };
    match rng.below(top) {
        0 => J::Null,
        1 => J::Bool(rng.bool()),
        2 | 3 => J::Int(gen_int(rng)),
        4 => {
            if rng.chance(1, 3) {
                J::Float(rng.below(FLOATS.len() as u64) as u32)
            } else {
                J::Int(gen_int(rng))
            }
        }
        5..=7 => J::Str(gen_string(rng)),
        8 | 9 => J::Arr((0..rng.below(4)).map(|_| gen_value(rng, depth + 1)).collect()),
        _ => {
            let mut kvs: Vec<(String, J)> = (0..rng.below(4)).map(|_| (gen_string(rng), gen_value(rng, depth + 1))).collect();
            if !kvs.is_empty() && rng.chance(1, 8) {
                let k = kvs[0].0.clone();
                kvs.push((k, gen_value(rng, depth + 1)));
            }
            J::Obj(kvs)
        }
    }
}

fn gen_payload(rng: &mut Rng) -> J {
    let n = match rng.below(10) {
        0 => 0,
        1..=6 => 1,
        7 | 8 => 2,
        _ => 3,
    };
    let mut kvs = vec![];
    for i in 0..n {
        let key = if i == 0 && rng.chance(3, 4) { "xyz.radicle.project".to_string() } else { gen_string(rng) };
        let val = if rng.chance(3, 5) {
            let s = |rng: &mut Rng| if rng.chance(4, 5) { J::Str(rng.pick(&["heartwood", "master", "", "a b", "Radicle Heartwood Protocol & Stack"]).to_string()) } else { J::Str(gen_string(rng)) };
            J::Obj(vec![("name".into(), s(rng)), ("description".into(), s(rng)), ("defaultBranch".into(), s(rng))])
        } else {
            gen_value(rng, 1)
        };
        kvs.push((key, val));
    }
    J::Obj(kvs)
}

/// Delegate index list: `distinct` distinct keys with some duplicates mixed in.
fn gen_delegates(rng: &mut Rng, big: bool) -> Vec<u64> {
    let distinct = if big {
        *rng.pick(&[254u64, 255, 255, 256, 256, 257])
    } else {
        match rng.below(40) {
            0 => 0,
            1..=14 => 1,
            15..=22 => 2,
            23..=30 => 3,
            31..=37 => rng.range(4, 9),
            _ => rng.range(10, 60),
        }
    };
    let start = rng.below(POOL as u64 - distinct.max(1) + 1);
    let mut ds: Vec<u64> = (start..start + distinct).collect();
    // shuffle
    for i in (1..ds.len()).rev() {
        let j = rng.below(i as u64 + 1) as usize;
        ds.swap(i, j);
    }
    if !ds.is_empty() && rng.chance(2, 5) {
        for _ in 0..rng.range(1, 3) {
            let d = ds[rng.below(ds.len() as u64) as usize];
            let at = rng.below(ds.len() as u64 + 1) as usize;
            ds.insert(at, d);
        }
    }
    ds
}

fn gen_threshold(rng: &mut Rng, raw: &[u64]) -> i128 {
    let n = raw.iter().collect::<BTreeSet<_>>().len() as i128;
    let m = raw.len() as i128;
    match rng.below(40) {
        0 => 0,
        1..=12 => 1,
        13..=19 => n,
        20 | 21 => n + 1,
        22 => m,
        23 => m + 1,
        24 | 25 => (n - 1).max(0),
        26 => *rng.pick(&[255i128, 256, 300, 254]),
        27 => rng.below(301) as i128,
        28..=31 => (n / 2 + 1).min(n.max(1)),
        _ => rng.range(1, n.max(1) as u64) as i128,
    }
}

fn did_j(i: u64) -> J {
    J::Str(pool().dids[i as usize].to_string())
}

fn gen_visibility(rng: &mut Rng) -> Option<J> {
    let allow = |rng: &mut Rng| -> J {
        let mut xs: Vec<J> = (0..rng.below(4)).map(|_| did_j(rng.below(12))).collect();
        if rng.chance(1, 25) {
            xs.push(J::Str("did:key:nope".into()));
        }
        J::Arr(xs)
    };
    match rng.below(40) {
        24..=31 => None,
        32..=34 => Some(J::Obj(vec![("type".into(), J::Str("public".into()))])),
        35..=39 => Some(J::Obj(vec![("type".into(), J::Str("private".into())), ("allow".into(), allow(rng))])),
        0..=9 => None,
        10 | 11 => Some(J::Obj(vec![("type".into(), J::Str("public".into()))])),
        12..=15 => Some(J::Obj(vec![("type".into(), J::Str("private".into())), ("allow".into(), allow(rng))])),
        16 => Some(J::Obj(vec![("allow".into(), allow(rng)), ("type".into(), J::Str("private".into()))])),
        17 => Some(J::Obj(vec![("type".into(), J::Str("private".into()))])),
        18 => Some(J::Obj(vec![("type".into(), J::Str("public".into())), ("allow".into(), allow(rng)), ("x".into(), J::Int(1))])),
        19 => Some(J::Obj(vec![("type".into(), J::Int(rng.below(3) as i128)), ("allow".into(), allow(rng))])),
        20 => Some(J::Arr(match rng.below(4) {
            0 => vec![J::Str("public".into())],
            1 => vec![J::Str("private".into())],
            2 => vec![J::Str("private".into()), allow(rng)],
            _ => vec![J::Str("public".into()), J::Int(1)],
        })),
        21 => Some(J::Obj(vec![("type".into(), J::Str("private".into())), ("allow".into(), allow(rng)), ("allow".into(), allow(rng))])),
        22 => Some(J::Obj(vec![("type".into(), J::Str("private".into())), ("type".into(), J::Str("public".into()))])),
        _ => Some(rng.pick(&[J::Null, J::Str("public".into()), J::Obj(vec![]), J::Obj(vec![("type".into(), J::Str("Private".into()))]), J::Obj(vec![("allow".into(), J::Arr(vec![]))])]).clone()),
    }
}

fn format_case(kind_args: &str, tree: &J, extra_dids: &[u64]) -> String {
    // did table: every pool DID string occurring in the tree, plus the extra indices
    let p = pool();
    let mut ss = vec![];
    strings_of(tree, &mut ss);
    let by_str: HashMap<String, u64> = p.dids.iter().enumerate().map(|(i, d)| (d.to_string(), i as u64)).collect();
    let mut used: BTreeSet<u64> = extra_dids.iter().copied().collect();
    for s in ss {
        if let Some(i) = by_str.get(s) {
            used.insert(*i);
        }
    }
    let dt = if used.is_empty() {
        "-".to_string()
    } else {
        used.iter().map(|i| format!("{i}:{}", hexs(&p.dids[*i as usize].to_string()))).collect::<Vec<_>>().join(",")
    };
    let rev: HashMap<String, u64> = used.iter().map(|i| (p.dids[*i as usize].to_string(), *i)).collect();
    let nt = nfc_table(tree);
    let nt = if nt.is_empty() { "-".to_string() } else { nt.iter().map(|(a, b)| format!("{}>{}", hexs(a), hexs(b))).collect::<Vec<_>>().join(",") };
    let mut w = String::new();
    wire(tree, &rev, &mut w);
    format!("{dt} {nt} {kind_args} {w}")
}

fn gen_case(rng: &mut Rng, big_den: u64) -> String {
    let big = rng.chance(1, big_den);
    let dels = gen_delegates(rng, big);
    let thr = gen_threshold(rng, &dels);
    if rng.chance(1, 4) {
        // RawDoc through the API
        let vis = if rng.chance(2, 3) {
            "P".to_string()
        } else {
            let a: Vec<u64> = (0..rng.below(4)).map(|_| rng.below(12)).collect();
            format!("V{}", nats(&a))
        };
        let allow: Vec<u64> = if let Some(a) = vis.strip_prefix('V') { nat_list(a).unwrap() } else { vec![] };
        let payload = gen_payload(rng);
        let mut extra = dels.clone();
        extra.extend(allow);
        return format_case(&format!("raw {} {} {}", nats(&dels), thr.max(0), vis), &payload, &extra);
    }
    // JSON document
    let mut del_elems: Vec<J> = dels.iter().map(|i| did_j(*i)).collect();
    if rng.chance(1, 30) {
        let bad = rng.pick(&[J::Str("did:key:z6MkBogus".into()), J::Str("foo".into()), J::Int(1), J::Null]).clone();
        let at = rng.below(del_elems.len() as u64 + 1) as usize;
        del_elems.insert(at, bad);
    }
    let delegates = if rng.chance(1, 60) { did_j(0) } else { J::Arr(del_elems) };
    let threshold = match rng.below(100) {
        0 => J::Float(rng.below(FLOATS.len() as u64) as u32),
        1 => J::Str(thr.to_string()),
        2 => J::Int(-thr - 1),
        3 => J::Int(*rng.pick(&[u64::MAX as i128, i64::MAX as i128 + 1, u32::MAX as i128 + 1])),
        _ => J::Int(thr),
    };
    let payload = if rng.chance(1, 50) { rng.pick(&[J::Arr(vec![]), J::Null, J::Str("x".into())]).clone() } else { gen_payload(rng) };
    let version: Option<J> = match rng.below(80) {
        0..=47 => None,
        48..=71 => Some(J::Int(1)),
        72 => Some(J::Int(1)),
        73 => Some(J::Int(0)),
        74 => Some(J::Int(2)),
        75 => Some(J::Int(*rng.pick(&[3i128, u32::MAX as i128, u32::MAX as i128 + 1, -1]))),
        76 => Some(J::Float(4)),
        77 => Some(J::Str("1".into())),
        78 => Some(J::Null),
        _ => Some(J::Int(rng.below(4) as i128)),
    };
    let visibility = gen_visibility(rng);
    if rng.chance(1, 30) {
        // sequence form of the struct
        let mut xs = vec![version.unwrap_or(J::Int(1)), payload, delegates, threshold];
        if let Some(v) = visibility {
            xs.push(v);
        }
        match rng.below(6) {
            0 => {
                xs.pop();
            }
            1 => xs.push(J::Null),
            _ => {}
        }
        return format_case("json", &J::Arr(xs), &[]);
    }
    let mut kvs: Vec<(String, J)> = vec![];
    if let Some(v) = version {
        kvs.push(("version".into(), v));
    }
    kvs.push(("payload".into(), payload));
    kvs.push(("delegates".into(), delegates));
    kvs.push(("threshold".into(), threshold));
    if let Some(v) = visibility {
        kvs.push(("visibility".into(), v));
    }
    // unknown fields
    if rng.chance(1, 5) {
        for _ in 0..rng.range(1, 2) {
            kvs.push((rng.pick(&["x", "Version", "delegate", "thresholds", "", "payloads"]).to_string(), gen_value(rng, 2)));
        }
    }
    // duplicate a member (known or unknown field)
    if rng.chance(1, 30) {
        let kv = kvs[rng.below(kvs.len() as u64) as usize].clone();
        kvs.push(kv);
    }
    // drop a member
    if rng.chance(1, 30) {
        let at = rng.below(kvs.len() as u64) as usize;
        kvs.remove(at);
    }
    // member order is irrelevant to serde: shuffle
    for i in (1..kvs.len()).rev() {
        let j = rng.below(i as u64 + 1) as usize;
        kvs.swap(i, j);
    }
    let doc = if rng.chance(1, 100) { rng.pick(&[J::Null, J::Str("doc".into()), J::Int(1), J::Arr(vec![])]).clone() } else { J::Obj(kvs) };
    format_case("json", &doc, &[])
}

fn main() {
    if std::env::var("C19_DUMP_POOL").is_ok() {
        // helper for writing corpus files by hand: the DID strings of the key pool
        for (i, d) in pool().dids.iter().enumerate() {
            println!("{i} {}", hexs(&d.to_string()));
        }
        return;
    }
    let mut ctx = Ctx::from_args("C19");
    // the corpus / replay always exercises Repository::init
    INIT_EVERY.store(1, Ordering::Relaxed);
    let replay = ctx.run_fixed(run_case);
    if !replay {
        INIT_EVERY.store(ctx.size(25, 150), Ordering::Relaxed);
        let mut rng = ctx.rng();
        let big_den = ctx.size(30, 300);
        let n = ctx.size(3_000, 200_000);
        for _ in 0..n {
            let input = gen_case(&mut rng, big_den);
            let o = run_case(&input);
            ctx.record(&input, o);
        }
    }
    ctx.finish(
        "random identity documents as JSON (map and sequence form; 0..9 and 254..257 distinct delegates with duplicates mixed in; \
         thresholds 0..300 around 1, the distinct count and the raw count; versions absent/0/1/2/out of range/ill-typed; payloads with \
         arbitrary nested JSON incl. non-NFC strings, control characters, floats, 64-bit bounds, duplicate keys; all serde shapes of \
         visibility; unknown, duplicated and missing members) and RawDocs built through the Rust API; every accepted document is also \
         encoded, decoded again and, on a subset, used to initialise a real repository; non-trivial = accepted, or rejected by \
         RawDoc::verified (delegates/threshold) rather than by the JSON layer; distinct by input text",
        false,
    );
}
