import HeartwoodModel.Lemmas.Fetch
/-!
# C01 — Replicated refs always match their owner's signed refs

Property theorems about `Model/Fetch.lean` (`fetch env cfg L A = (outcome, post)`; `L` = the fetcher's refdb
before, `A` = the serving peer's advertisement, `env` = content of the sigrefs commits / git ancestry).

Hypotheses (all satisfied by the worlds the harness extracts; see the `example`s at the end):
* `EnvWf env`   — `rad/id`, `rad/sigrefs` are distinct names under `refs/rad`; a sigrefs blob lists a name once;
* `AncWf env`   — the objects `repository::update` asks about are present (the transport delivered what was
                  wanted) and two different object ids never compare `Equal` (no annotated tags);
* `AdvSorted A` — on the `SpecialRefs` path: the advertisement lists every reference once, a remote's
                  `rad/id` before its `rad/sigrefs` (as `git upload-pack` does). It is necessary:
                  `special_order_counterexample`.

Full-strength statement of the first sentence (`MatchesExactly` for every changed namespace) is FALSE of the
current code: `fetch_changed_ns_matches_sigrefs_counterexample` (known finding `stale-unsigned-rad-ref`:
"'rad/' refs are never subject to pruning"). What holds for every input is
`fetch_changed_ns_matches_up_to_stale_rad`; `fetch_changed_ns_matches_sigrefs_partial` is the full conclusion
under the hypothesis that excludes exactly that class.
-/
set_option linter.unusedSimpArgs false
set_option linter.unusedVariables false
namespace HeartwoodModel.Fetch

/-- First sentence of C01 for one namespace, at full strength: the namespace has a `rad/sigrefs` whose blob
carries a valid signature by the namespace key and names this repository's identity (if it names one), and
apart from `rad/sigrefs` the namespace contains exactly the references the blob lists, each pointing at the
listed object. -/
def MatchesExactly (env : Env) (db : Refdb) (k : Key) : Prop :=
  ∃ tip b, db.get (k, env.nSig) = some tip ∧ env.blob k tip = some b ∧
    b.sigOk = true ∧ b.idRoot ≠ IdRoot.other ∧
    ∀ n, n ≠ env.nSig → db.get (k, n) = b.lookup n

theorem Blob.valid_iff (b : Blob) : b.valid = true ↔ b.sigOk = true ∧ b.idRoot ≠ IdRoot.other := by
  unfold Blob.valid
  cases b.sigOk <;> cases b.idRoot <;> simp

/-- **C01, first sentence, for every input and every outcome** (success, failure, error with partial
application): every namespace is either exactly as before the fetch, or it matches its signed refs up to
stored `refs/rad/*` references that the new signed refs no longer list. -/
theorem fetch_changed_ns_matches_up_to_stale_rad (env : Env) (hw : EnvWf env) (hanc : AncWf env)
    (cfg : Config) (L A : Refdb) (hA : cfg.refsAt = none → AdvSorted A) (k : Key) :
    NsEq (fetch env cfg L A).2 L k ∨ Matches env L (fetch env cfg L A).2 k := by
  rcases fetch_cases env cfg L A with ⟨h, _⟩ | ⟨anchor, stage, sr, l, _, hs, hsr, hl, _, hpost, _⟩
  · left; rw [h]; intro n; rfl
  · rw [hpost]
    have hsp := specialStage_wf env cfg _ _ _ A hA hs
    obtain ⟨hsorted, hfacts⟩ := loop_remotes_spec hsr hl
    exact apply_final env hw hanc hsp l.remotes hsorted hfacts L (fun _ _ _ => rfl)
      (fun _ => Or.inl (fun _ => rfl)) k

/-- **C01, first sentence, partial**: under the hypothesis that every stored `refs/rad/*` reference of the
namespace (other than `rad/sigrefs`) is listed in the new signed refs, a namespace changed by the fetch
matches its signed refs exactly. -/
theorem fetch_changed_ns_matches_sigrefs_partial (env : Env) (hw : EnvWf env) (hanc : AncWf env)
    (cfg : Config) (L A : Refdb) (hA : cfg.refsAt = none → AdvSorted A) (k : Key)
    (hchanged : ¬ NsEq (fetch env cfg L A).2 L k)
    (hrad : ∀ tip b, (fetch env cfg L A).2.get (k, env.nSig) = some tip → env.blob k tip = some b →
      ∀ n, env.isRad n = true → n ≠ env.nSig → (L.get (k, n)).isSome → (b.lookup n).isSome) :
    MatchesExactly env (fetch env cfg L A).2 k := by
  rcases fetch_changed_ns_matches_up_to_stale_rad env hw hanc cfg L A hA k with h | h
  · exact absurd h hchanged
  · obtain ⟨tip, b, h1, h2, h3, h4⟩ := h
    obtain ⟨hs, hr⟩ := (Blob.valid_iff b).mp h3
    refine ⟨tip, b, h1, h2, hs, hr, ?_⟩
    intro n hn
    rcases h4 n hn with h | ⟨hrn, hl, hkeep⟩
    · exact h
    · rw [hl]
      cases hL : L.get (k, n) with
      | none => rw [hkeep, hL]
      | some o =>
        have := hrad tip b h1 h2 n hrn hn (by rw [hL]; rfl)
        rw [hl] at this; cases this

/-- The remote `k` went through every check of this fetch. -/
def Validated (env : Env) (cfg : Config) (L A : Refdb) (k : Key) : Prop :=
  ∃ anchor stage tip b,
    anchorOf cfg = some anchor ∧
    specialStage env cfg (blockedOf cfg) (delegatesOf cfg anchor) (thresholdOf cfg anchor) A = .ok stage ∧
    cachedLoad env L stage.sp k = .ok (some (tip, b)) ∧
    verdictOf env L stage.sp (blockedOf cfg) (delegatesOf cfg anchor) k tip b = .validated

/-- **C01, second sentence**: a namespace that did not pass every check is left exactly as it was — for
every outcome, including the errors that abort `repository::update` half-way. -/
theorem fetch_failed_ns_unchanged (env : Env) (cfg : Config) (L A : Refdb) (k : Key)
    (hk : ¬ Validated env cfg L A k) : NsEq (fetch env cfg L A).2 L k := by
  rcases fetch_cases env cfg L A with ⟨h, _⟩ | ⟨anchor, stage, sr, l, ha, hs, hsr, hl, _, hpost, _⟩
  · rw [h]; intro n; rfl
  · rw [hpost]
    obtain ⟨_, hfacts⟩ := loop_remotes_spec hsr hl
    intro n
    apply final_frame
    intro e he heq
    obtain ⟨hload, hv⟩ := hfacts e he
    subst heq
    exact hk ⟨anchor, stage, e.2.1, e.2.2, ha, hs, hload, hv⟩

/-- What "passed every check" means, in terms of the advertised data: the remote is not blocked; a
`rad/sigrefs` tip was offered for it (advertised, or announced through `refs_at`); the commit reads as a blob
with a valid signature by the remote's key that names this repository (if any); the blob does not list
`rad/sigrefs` itself; an advertised `rad/id` of the remote is listed in the blob; and the offered tip is the
stored one or ahead of it (not behind, not diverged). -/
theorem validated_means (env : Env) (hw : EnvWf env) (cfg : Config) (L A : Refdb)
    (hA : cfg.refsAt = none → AdvSorted A) (k : Key) (h : Validated env cfg L A k) :
    ∃ anchor stage tip b,
      specialStage env cfg (blockedOf cfg) (delegatesOf cfg anchor) (thresholdOf cfg anchor) A = .ok stage ∧
      (blockedOf cfg).contains k = false ∧
      stage.sp.get (k, env.nSig) = some tip ∧
      env.blob k tip = some b ∧ b.sigOk = true ∧ b.idRoot ≠ IdRoot.other ∧
      b.lookup env.nSig = none ∧
      (∀ x, stage.sp.get (k, env.nId) = some x → (b.lookup env.nId).isSome) ∧
      (L.get (k, env.nSig) = none ∨ ∃ cur, L.get (k, env.nSig) = some cur ∧
        (cur = tip ∨ env.anc cur tip = some .equal ∨ env.anc cur tip = some .ahead)) := by
  obtain ⟨anchor, stage, tip, b, _, hs, hload, hv⟩ := h
  have hsp := specialStage_wf env cfg _ _ _ A hA hs
  obtain ⟨hblob, hvalid, hc, hS⟩ := validated_facts hw hsp hload hv
  obtain ⟨hb, hpre, _⟩ := verdict_validated hv
  obtain ⟨hs1, hs2⟩ := (Blob.valid_iff b).mp hvalid
  have hne : env.nId ≠ env.nSig := Nat.ne_of_lt hw.id_lt_sig
  refine ⟨anchor, stage, tip, b, hs, hb, ?_, hblob, hs1, hs2, lookup_sig_none hc, ?_, ?_⟩
  · have hin : (env.nSig, tip) ∈ stage.sp.refsOf k := by
      rcases hS with h | ⟨x, h, _⟩ <;> (rw [h]; simp)
    rcases sp_get_sig hw k (spShape_of_wf hw hsp k) with ⟨_, h⟩ | ⟨t, ht, h⟩
    · rcases h with h | ⟨x, h⟩
      · rw [h] at hin; simp at hin
      · rw [h] at hin; simp at hin; exact absurd hin.1.symm hne
    · rcases h with h | ⟨x, h⟩
      · rw [h] at hin; simp at hin; subst hin; exact ht
      · rw [h] at hin; simp at hin
        rcases hin with ⟨h1, _⟩ | h1
        · exact absurd h1.symm hne
        · subst h1; exact ht
  · intro x hx
    have hin : (env.nId, x) ∈ stage.sp.refsOf k := Refdb.mem_refsOf.mpr (Refdb.mem_of_get hx)
    rcases hS with h | ⟨y, h, hl⟩
    · rw [h] at hin; simp at hin; exact absurd hin.1 hne
    · cases hlk : b.lookup env.nId with
      | none => exact absurd hlk hl
      | some _ => rfl
  · rcases hpre with h | ⟨cur, h, ha⟩
    · exact Or.inl h
    · right
      refine ⟨cur, h, ?_⟩
      by_cases hct : cur = tip
      · exact Or.inl hct
      · right; rw [ancestry_ne env hct] at ha; exact ha

/-! ## The full-strength first sentence is false of the current code (known finding) -/

namespace Witness

/-- names: 0 = `refs/rad/id`, 1 = `refs/rad/sigrefs`, 2 = `refs/heads/master`. -/
def b20 : Blob := { refs := [(0, 10), (2, 30)], sigOk := true, idRoot := .absent }
/-- The owner re-signed without `rad/id`. -/
def b21 : Blob := { refs := [(2, 31)], sigOk := true, idRoot := .absent }
/-- As `b21`, but still listing `rad/id`. -/
def b22 : Blob := { refs := [(0, 10), (2, 31)], sigOk := true, idRoot := .absent }

def env : Env :=
  { nId := 0, nSig := 1, isRad := fun n => decide (n ≤ 1),
    blob := fun k t =>
      if k = 0 ∧ t = 20 then some b20 else if k = 0 ∧ t = 21 then some b21
      else if k = 0 ∧ t = 22 then some b22 else none,
    anc := fun a b =>
      if (a = 20 ∧ (b = 21 ∨ b = 22)) ∨ (a = 30 ∧ b = 31) then some .ahead else some .diverged }

def doc : Doc := { delegates := [0], threshold := 1 }
def cfg : Config :=
  { localDoc := some doc, advDoc := some doc, localKey := 5, isClone := false, scope := none,
    blocked := [], refsAt := none }
/-- The fetcher stores namespace 0 with `rad/id`, `rad/sigrefs` (commit 20) and `master`. -/
def L : Refdb := [((0, 0), 10), ((0, 1), 20), ((0, 2), 30)]
/-- The server advertises the new `rad/sigrefs` (commit 21) only. -/
def A : Refdb := [((0, 1), 21)]
/-- The server advertises `rad/sigrefs` (commit 22) BEFORE a diverged `rad/id`. -/
def Arev : Refdb := [((0, 1), 22), ((0, 0), 11)]

theorem envWf : EnvWf env := by
  refine ⟨by decide, by decide, by decide, ?_⟩
  intro k t b h
  simp only [env] at h
  split at h
  · injection h with h; subst h; decide
  · split at h
    · injection h with h; subst h; decide
    · split at h
      · injection h with h; subst h; decide
      · cases h

theorem ancWf : AncWf env := by
  intro a b _
  simp only [env]
  split
  · exact ⟨_, rfl, by decide⟩
  · exact ⟨_, rfl, by decide⟩

theorem advSorted : AdvSorted A := by
  unfold AdvSorted A; simp

end Witness

open Witness in
/-- **Counterexample to the full-strength first sentence** (known finding `stale-unsigned-rad-ref`): the
owner of namespace 0 honestly re-signs without its `refs/rad/id`; the fetch succeeds, moves `rad/sigrefs` and
`master`, and keeps the stale, now unsigned `refs/rad/id`. All hypotheses of the theorems above hold. -/
theorem fetch_changed_ns_matches_sigrefs_counterexample :
    EnvWf env ∧ AncWf env ∧ AdvSorted A ∧
    ¬ NsEq (fetch env cfg L A).2 L 0 ∧ ¬ MatchesExactly env (fetch env cfg L A).2 0 := by
  have h1 : (fetch env cfg L A).2.get (0, 1) = some 21 := by decide
  have h0 : (fetch env cfg L A).2.get (0, 0) = some 10 := by decide
  refine ⟨envWf, ancWf, advSorted, ?_, ?_⟩
  · intro h
    have := h 1
    rw [h1] at this
    revert this; decide
  · rintro ⟨tip, b, ht, hb, _, _, hall⟩
    have ht' : (fetch env cfg L A).2.get (0, 1) = some tip := ht
    rw [h1] at ht'; injection ht' with ht'; subst ht'
    have hb21 : b = b21 := by
      have : env.blob 0 21 = some b21 := rfl
      rw [this] at hb; injection hb with hb; exact hb.symm
    subst hb21
    have := hall 0 (by decide)
    rw [h0] at this
    revert this; decide

open Witness in
/-- **The order hypothesis `AdvSorted` is necessary** (found by reading, not reproducible with
`git upload-pack`, which lists references in name order): a server that lists a delegate's `rad/sigrefs`
BEFORE a diverged `rad/id` makes `repository::update` apply the `rad/sigrefs` update and then abort
(`Policy::Abort`): the namespace is changed — `rad/sigrefs` points at commit 22 — but `master` still points
at the old commit 30 although the blob at 22 lists 31. -/
theorem special_order_counterexample :
    EnvWf env ∧ AncWf env ∧ ¬ AdvSorted Arev ∧
    (fetch env cfg L Arev).2.get (0, 1) = some 22 ∧ env.blob 0 22 = some b22 ∧
    (fetch env cfg L Arev).2.get (0, 2) = some 30 ∧ b22.lookup 2 = some 31 := by
  refine ⟨envWf, ancWf, ?_, by decide, rfl, by decide, by decide⟩
  unfold AdvSorted Arev refLt
  simp

/-! ## Non-vacuity -/

open Witness in
/-- The hypotheses of the theorems are satisfiable by a world in which a namespace really changes and
matches its signed refs exactly (the owner keeps signing `rad/id`: blob 22). -/
example : EnvWf env ∧ AncWf env ∧ AdvSorted [((0, 1), 22)] ∧
    ¬ NsEq (fetch env cfg L [((0, 1), 22)]).2 L 0 ∧
    (fetch env cfg L [((0, 1), 22)]).2 = [((0, 2), 31), ((0, 1), 22), ((0, 0), 10)] ∧
    Validated env cfg L [((0, 1), 22)] 0 := by
  refine ⟨envWf, ancWf, by unfold AdvSorted; simp, ?_, by decide, ?_⟩
  · intro h
    have := h 1
    revert this; decide
  · exact ⟨doc, { sp := [((0, 1), 22)], loadKeys := [0, 0] }, 22, b22, rfl, rfl, rfl, by decide⟩

open Witness in
/-- A namespace that fails a check (here: the offered tip 20 is *behind* the stored one) is not validated, and
the hypothesis of `fetch_failed_ns_unchanged` is satisfiable. -/
example : ¬ Validated env cfg [((0, 1), 21), ((0, 2), 31)] [((0, 1), 20)] 0 := by
  rintro ⟨anchor, stage, tip, b, ha, hs, hload, hv⟩
  have ha' : anchor = doc := by
    have : anchorOf cfg = some doc := rfl
    rw [this] at ha; injection ha with ha; exact ha.symm
  subst ha'
  have hs' : stage = { sp := [((0, 1), 20)], loadKeys := [0, 0] } := by
    have : specialStage env cfg (blockedOf cfg) (delegatesOf cfg doc) (thresholdOf cfg doc) [((0, 1), 20)] =
        .ok { sp := [((0, 1), 20)], loadKeys := [0, 0] } := rfl
    rw [this] at hs; injection hs with hs; exact hs.symm
  subst hs'
  have hl : cachedLoad env [((0, 1), 21), ((0, 2), 31)] [((0, 1), 20)] 0 = .ok (some (20, b20)) := rfl
  rw [hl] at hload
  injection hload with hload; injection hload with hload; injection hload with h1 h2
  subst h1; subst h2
  revert hv; decide

end HeartwoodModel.Fetch
