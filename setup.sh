#!/bin/sh
# Build the framework from files on disk only (offline): Lean models + theorems + driver, then every
# harness binary against /repo's current working tree.
set -e
cd "$(dirname "$0")"
export CARGO_NET_OFFLINE=true
(cd lean && lake build)
(cd harness && cargo build --release --workspace)
