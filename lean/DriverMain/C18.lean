import HeartwoodModel.Driver.Loop
import HeartwoodModel.Driver.C18
def main : IO Unit := HeartwoodModel.Driver.driverMain "C18" HeartwoodModel.Driver.C18.run
