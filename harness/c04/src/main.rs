//! C04 — identity revisions need a majority of valid delegate signatures.
//!
//! Each case is a whole identity-COB history (`id <repoDoc> <docs> <sigs> <vtable> <order> <op>…`, syntax in
//! `lean/HeartwoodModel/Driver/C04.lean`). The harness stores the ops as real change commits of a real
//! `xyz.radicle.id` COB in a real repository named after `repoDoc` (arbitrary DAG, authors — delegates
//! and strangers —, real Ed25519 signatures by any key over any document blob or over other bytes,
//! duplicated verdicts, redactions, edits, multi-action ops), evaluates with the real
//! `radicle_cob::get` → `Identity::apply`, and prints the projected state (current, heads, per revision:
//! document, state, parent, verdicts) plus, per applied entry, whether it was accepted. Facts the model
//! takes as parameters — the graph of `PublicKey::verify` on (key, signature, blob), the evaluation order
//! and whether concurrent entries were passed to `apply` — are computed here by the real code.
//!
//! Oracle (property statement on what the real code did), per applied entry: if `current` moved from r0
//! to r1 then r1.parent = r0 and the number of delegates of r0's document whose recorded verdict on r1 is
//! an `Accept` whose signature verifies (plain `PublicKey::verify`) over r1's blob is a strict majority;
//! an entry whose author is not a delegate of the current document changes nothing; the current revision
//! is never redacted or edited.

#[path = "../../c08/src/inject.rs"]
mod inject;

use std::collections::BTreeMap;

use inject::*;
use nonempty::NonEmpty;
use radicle::cob;
use radicle::cob::identity::{Action, Identity};
use radicle::crypto::signature::Signer as _;
use radicle::crypto::Signature;
use radicle::git::Oid;
use radicle::identity::doc::Doc;
use radicle::storage::git::Repository;
use radicle::storage::WriteRepository;
use serde_json::Value;
use verif_common::*;

/// Totals over all cases (reported in the evidence notes): entries applied / rejected by the real evaluation.
static OPS_APPLIED: std::sync::atomic::AtomicU64 = std::sync::atomic::AtomicU64::new(0);
static OPS_REJECTED: std::sync::atomic::AtomicU64 = std::sync::atomic::AtomicU64::new(0);
static OPS_TOTAL: std::sync::atomic::AtomicU64 = std::sync::atomic::AtomicU64::new(0);

fn count_ops(total: usize, applied: usize, rejected: usize) {
    use std::sync::atomic::Ordering::Relaxed;
    OPS_TOTAL.fetch_add(total as u64, Relaxed);
    OPS_APPLIED.fetch_add(applied as u64, Relaxed);
    OPS_REJECTED.fetch_add(rejected as u64, Relaxed);
}

#[derive(Clone, Debug, PartialEq)]
enum IdAct {
    Revision { title: u64, doc: Option<usize>, parent: Option<u64>, sig: usize },
    Edit { rev: u64, title: u64 },
    Accept { rev: u64, sig: usize },
    Reject { rev: u64 },
    Redact { rev: u64 },
}

#[derive(Clone, Debug)]
struct IdOp {
    author: usize,
    ts: u64,
    tips: Vec<usize>,
    actions: Vec<IdAct>,
}

#[derive(Clone, Debug)]
struct IdCase {
    repo_doc: usize,
    docs: Vec<Vec<usize>>,
    /// (signer, Some(doc) | None = other bytes)
    sigs: Vec<(usize, Option<usize>)>,
    vtable: Vec<(usize, usize, usize)>,
    /// order of the real evaluation with the `concurrent` flags (reported in the OUTPUT only)
    order: Vec<(usize, bool)>,
    /// `g=<ranks>/<sigbits>` (computed by the real code) or `?`
    g: String,
    ops: Vec<IdOp>,
}

const FAKE_ID_BASE: u64 = 90;

fn parse_action(s: &str, ndocs: usize, nsigs: usize) -> Option<IdAct> {
    let f = split(s, ',');
    let sig = |x: &str| -> Option<usize> {
        let v = nat(x)? as usize;
        if v < nsigs {
            Some(v)
        } else {
            None
        }
    };
    Some(match f.as_slice() {
        ["rv", t, d, p, sg] => IdAct::Revision {
            title: nat(t)?,
            doc: if *d == "x" {
                None
            } else {
                let i = nat(d)? as usize;
                if i >= ndocs {
                    return None;
                }
                Some(i)
            },
            parent: if *p == "-" { None } else { Some(nat(p)?) },
            sig: sig(sg)?,
        },
        ["ed", r, t] => IdAct::Edit { rev: nat(r)?, title: nat(t)? },
        ["ac", r, sg] => IdAct::Accept { rev: nat(r)?, sig: sig(sg)? },
        ["rj", r] => IdAct::Reject { rev: nat(r)? },
        ["rd", r] => IdAct::Redact { rev: nat(r)? },
        _ => return None,
    })
}

fn show_action(a: &IdAct) -> String {
    match a {
        IdAct::Revision { title, doc, parent, sig } => format!(
            "rv,{title},{},{},{sig}",
            doc.map(|d| d.to_string()).unwrap_or("x".into()),
            parent.map(|p| p.to_string()).unwrap_or("-".into())
        ),
        IdAct::Edit { rev, title } => format!("ed,{rev},{title}"),
        IdAct::Accept { rev, sig } => format!("ac,{rev},{sig}"),
        IdAct::Reject { rev } => format!("rj,{rev}"),
        IdAct::Redact { rev } => format!("rd,{rev}"),
    }
}

fn refs_of(a: &IdAct) -> Vec<u64> {
    match a {
        IdAct::Revision { parent, .. } => parent.iter().cloned().collect(),
        IdAct::Edit { rev, .. } | IdAct::Accept { rev, .. } | IdAct::Reject { rev } | IdAct::Redact { rev } => vec![*rev],
    }
}

fn parse(input: &str) -> Option<IdCase> {
    let toks: Vec<&str> = input.split(' ').collect();
    if toks.len() < 7 || (toks[0] != "idg" && toks[0] != "id") {
        return None;
    }
    let repo_doc = nat(toks[1])? as usize;
    let docs: Vec<Vec<usize>> = split(toks[2], ';')
        .into_iter()
        .map(|d| nat_list(d, ',').map(|v| v.into_iter().map(|x| x as usize).collect::<Vec<_>>()))
        .collect::<Option<_>>()?;
    if repo_doc >= docs.len() || docs.iter().any(|d| d.is_empty() || d.iter().any(|k| *k >= N_ACTORS)) {
        return None;
    }
    let sigs: Vec<(usize, Option<usize>)> = split(toks[3], ';')
        .into_iter()
        .map(|s| {
            let f = split(s, '.');
            if f.len() != 2 {
                return None;
            }
            let signer = nat(f[0])? as usize;
            if signer >= N_ACTORS {
                return None;
            }
            let over = if f[1] == "x" {
                None
            } else {
                let d = nat(f[1])? as usize;
                if d >= docs.len() {
                    return None;
                }
                Some(d)
            };
            Some((signer, over))
        })
        .collect::<Option<_>>()?;
    let mut ops = vec![];
    for (i, t) in toks[6..].iter().enumerate() {
        let f = split(t, ':');
        if f.len() != 4 {
            return None;
        }
        let author = nat(f[0])? as usize;
        if author >= N_ACTORS {
            return None;
        }
        let ts = nat(f[1])?;
        let tips: Vec<usize> = nat_list(f[2], ',')?.into_iter().map(|x| x as usize).collect();
        if tips.iter().any(|t| *t >= i) || (i > 0 && tips.is_empty()) || (i == 0 && !tips.is_empty()) {
            return None;
        }
        let actions: Vec<IdAct> =
            split(f[3], '|').into_iter().map(|a| parse_action(a, docs.len(), sigs.len())).collect::<Option<_>>()?;
        for a in &actions {
            for r in refs_of(a) {
                if r >= i as u64 && r < FAKE_ID_BASE {
                    return None;
                }
            }
        }
        ops.push(IdOp { author, ts, tips, actions });
    }
    Some(IdCase { repo_doc, docs, sigs, vtable: vec![], order: vec![], g: "?".into(), ops })
}

fn render(c: &IdCase) -> String {
    let l = |v: &[usize]| show_list(&v.iter().map(|x| x.to_string()).collect::<Vec<_>>(), ",");
    let mut s = format!(
        "idg {} {} {} {} {}",
        c.repo_doc,
        c.docs.iter().map(|d| l(d)).collect::<Vec<_>>().join(";"),
        c.sigs
            .iter()
            .map(|(s, o)| format!("{s}.{}", o.map(|d| d.to_string()).unwrap_or("x".into())))
            .collect::<Vec<_>>()
            .join(";"),
        show_list(&c.vtable.iter().map(|(k, s, b)| format!("{k}.{s}.{b}")).collect::<Vec<_>>(), ","),
        c.g,
    );
    for o in &c.ops {
        s.push_str(&format!(
            " {}:{}:{}:{}",
            o.author,
            o.ts,
            l(&o.tips),
            o.actions.iter().map(show_action).collect::<Vec<_>>().join("|")
        ));
    }
    s
}

/// Repositories of this storage, one per root document (a repository is named after its root blob).
struct Repos {
    repos: BTreeMap<String, Repository>,
}

struct Run {
    output: String,
    steps: Vec<(usize, bool, usize, Identity, Identity)>,
    init: Option<Identity>,
    docs: Vec<Doc>,
    blobs: Vec<Oid>,
    sigs: Vec<Signature>,
    ids: Vec<Oid>,
}

fn doc_of(w: &World, i: usize, delegates: &[usize]) -> Result<Doc, String> {
    // distinct table entries must be distinct documents: the salt makes equal delegate lists differ
    w.make_doc(delegates, 1, if i == 0 { None } else { Some(i % N_ACTORS) })
}

fn id_of(ids: &[Oid], k: u64) -> Oid {
    if (k as usize) < ids.len() {
        ids[k as usize]
    } else {
        fake_oid(k)
    }
}

fn run_case(w: &mut World, repos: &mut Repos, case: &mut IdCase) -> Result<Run, String> {
    w.used += 1;
    let type_name = cob::identity::TYPENAME.clone();
    let docs: Vec<Doc> = case.docs.iter().enumerate().map(|(i, d)| doc_of(w, i, d)).collect::<Result<_, _>>()?;
    let blobs: Vec<Oid> = docs.iter().map(|d| d.encode().unwrap().0).collect();
    for i in 0..blobs.len() {
        for j in 0..i {
            if blobs[i] == blobs[j] {
                return Err("two table entries are the same document".into());
            }
        }
    }
    // the repository named after `repoDoc`
    let rkey = blobs[case.repo_doc].to_string();
    if !repos.repos.contains_key(&rkey) {
        let founder = case.docs[case.repo_doc][0];
        let repo = match Repository::init(&docs[case.repo_doc], &w.storage, &w.actors[founder]) {
            Ok((repo, _)) => repo,
            // the storage's own fixture repository is named after the same document
            Err(_) => {
                use radicle::storage::ReadStorage as _;
                w.storage
                    .repository(radicle::identity::RepoId::from(blobs[case.repo_doc]))
                    .map_err(|e| e.to_string())?
            }
        };
        repos.repos.insert(rkey.clone(), repo);
    }
    let repo = repos.repos.get(&rkey).unwrap();
    // blobs of every document of the case are present in the repository (as a proposer would have stored them)
    for d in &docs {
        let (_, bytes) = d.encode().unwrap();
        repo.raw().blob(&bytes).map_err(|e| e.to_string())?;
    }
    // signatures and the graph of the real verification function
    let sigs: Vec<Signature> = case
        .sigs
        .iter()
        .enumerate()
        .map(|(i, (signer, over))| match over {
            Some(d) => w.actors[*signer].sign(blobs[*d].as_bytes()),
            None => w.actors[*signer].sign(format!("these bytes are not a document blob {i}").as_bytes()),
        })
        .collect();
    let mut vtable = vec![];
    for k in 0..N_ACTORS {
        for (s, sig) in sigs.iter().enumerate() {
            for (b, blob) in blobs.iter().enumerate() {
                if w.key(k).verify(blob.as_bytes(), sig).is_ok() {
                    vtable.push((k, s, b));
                }
            }
        }
    }
    case.vtable = vtable;
    // store the history
    let mut ids: Vec<Oid> = vec![];
    for (i, o) in case.ops.iter().enumerate() {
        let mut embeds = vec![];
        let contents: Vec<Vec<u8>> = o
            .actions
            .iter()
            .map(|a| {
                let act = match a {
                    IdAct::Revision { title, doc, parent, sig } => {
                        let blob = match doc {
                            Some(d) => {
                                embeds.push(cob::Embed { name: "radicle.json".to_string(), content: blobs[*d] });
                                blobs[*d]
                            }
                            None => fake_oid(777),
                        };
                        Action::Revision {
                            title: format!("t{title}"),
                            description: String::new(),
                            blob,
                            parent: parent.map(|p| id_of(&ids, p)),
                            signature: sigs[*sig],
                        }
                    }
                    IdAct::Edit { rev, title } => {
                        Action::RevisionEdit { revision: id_of(&ids, *rev), title: format!("t{title}"), description: String::new() }
                    }
                    IdAct::Accept { rev, sig } => Action::RevisionAccept { revision: id_of(&ids, *rev), signature: sigs[*sig] },
                    IdAct::Reject { rev } => Action::RevisionReject { revision: id_of(&ids, *rev) },
                    IdAct::Redact { rev } => Action::RevisionRedact { revision: id_of(&ids, *rev) },
                };
                cob::store::encoding::encode(act).unwrap()
            })
            .collect();
        embeds.dedup_by(|a, b| a.content == b.content);
        let tips: Vec<Oid> = o.tips.iter().map(|t| ids[*t]).collect();
        w.counter += 1;
        std::env::set_var("GIT_COMMITTER_DATE", o.ts.to_string());
        use radicle::cob::change::Storage as _;
        let r = repo.store(
            None,
            vec![],
            &w.actors[o.author],
            cob::change::Template {
                type_name: type_name.clone(),
                tips,
                embeds,
                contents: NonEmpty::from_vec(contents).unwrap(),
                message: format!("op {i} #{}", w.counter),
            },
        );
        std::env::remove_var("GIT_COMMITTER_DATE");
        ids.push(r.map_err(|e| e.to_string())?.id);
    }
    // one ref per DAG tip
    let mut has_child = vec![false; case.ops.len()];
    for o in &case.ops {
        for t in &o.tips {
            has_child[*t] = true;
        }
    }
    let object = cob::ObjectId::from(ids[0]);
    let mut holders = vec![];
    use radicle::cob::object::Storage as _;
    for (n, t) in (0..case.ops.len()).filter(|i| !has_child[*i]).enumerate() {
        let key = *radicle::node::device::Device::from(radicle::crypto::test::signer::MockSigner::from_seed([150 + n as u8; 32]))
            .public_key();
        repo.update(&key, &type_name, &object, &ids[t]).map_err(|e| e.to_string())?;
        holders.push(key);
    }
    case.g = graph_token(repo, &ids);
    let res = catch(|| cob::get::<Traced<Identity>, _>(repo, &type_name, &object));
    for h in &holders {
        let _ = cob::object::Storage::remove(repo, h, &type_name, &object);
    }
    let traced = match res {
        Err(_) => {
            case.order = vec![];
            return Ok(Run { output: "init-panic".into(), steps: vec![], init: None, docs, blobs, sigs, ids });
        }
        Ok(Err(_)) | Ok(Ok(None)) => {
            case.order = vec![];
            return Ok(Run { output: "init-err".into(), steps: vec![], init: None, docs, blobs, sigs, ids });
        }
        Ok(Ok(Some(c))) => c.object,
    };
    let mut order = vec![];
    let mut steps = vec![];
    let mut res_s = String::new();
    let mut prev = traced.init.clone();
    for s in &traced.trace {
        let k = ids.iter().position(|i| *i == s.id).ok_or("unknown entry in trace")?;
        order.push((k, s.concurrent > 0));
        res_s.push(if s.ok { 'o' } else { 'e' });
        steps.push((k, s.ok, s.concurrent, prev.clone(), s.after.clone()));
        prev = s.after.clone();
    }
    case.order = order;
    let out = format!(
        "o={};r={};{}",
        show_list(&case.order.iter().map(|(i, c)| format!("{i}.{}", *c as u8)).collect::<Vec<_>>(), ","),
        if res_s.is_empty() { "-".into() } else { res_s },
        show_identity(w, &ids, &blobs, &sigs, &traced.inner)?
    );
    Ok(Run { output: out, steps, init: Some(traced.init), docs, blobs, sigs, ids })
}

fn idx_of(ids: &[Oid], s: &str) -> String {
    match ids.iter().position(|i| i.to_string() == s) {
        Some(k) => k.to_string(),
        None => (FAKE_ID_BASE..FAKE_ID_BASE + 20)
            .find(|n| fake_oid(*n).to_string() == s)
            .map(|n| n.to_string())
            .unwrap_or(format!("?{s}")),
    }
}

fn show_identity(w: &World, ids: &[Oid], blobs: &[Oid], sigs: &[Signature], i: &Identity) -> Result<String, String> {
    let v = serde_json::to_value(i).map_err(|e| e.to_string())?;
    let actor = |s: &str| w.actor_of(s).map(|a| a.to_string()).unwrap_or(format!("?{s}"));
    let sig_tok = |x: &Value| -> String {
        for (k, s) in sigs.iter().enumerate() {
            if serde_json::to_value(s).ok().as_ref() == Some(x) {
                return k.to_string();
            }
        }
        "?".into()
    };
    let mut hd: Vec<(u64, String)> = vec![];
    if let Some(m) = v["heads"].as_object() {
        for (k, r) in m {
            let a = actor(k);
            hd.push((a.parse().unwrap_or(u64::MAX), format!("{a}.{}", idx_of(ids, r.as_str().unwrap_or("?")))));
        }
    }
    hd.sort();
    let mut rv: Vec<(u64, String)> = vec![];
    if let Some(m) = v["revisions"].as_object() {
        for (k, r) in m {
            let id = idx_of(ids, k);
            let s = if r.is_null() {
                format!("{id}~x")
            } else {
                let blob = r["blob"].as_str().unwrap_or("?");
                let doc = blobs.iter().position(|b| b.to_string() == blob).map(|d| d.to_string()).unwrap_or(format!("?{blob}"));
                let title = r["title"].as_str().map(|t| t[1..].to_string()).unwrap_or("?".into());
                let state = match r["state"].as_str().unwrap_or("?") {
                    "active" => "a",
                    "accepted" => "c",
                    "rejected" => "r",
                    "stale" => "s",
                    _ => "?",
                };
                let author = actor(r["author"]["id"].as_str().unwrap_or("?"));
                let parent = r["parent"].as_str().map(|p| idx_of(ids, p)).unwrap_or("-".into());
                let mut vs: Vec<(u64, String)> = vec![];
                if let Some(vm) = r["verdicts"].as_object() {
                    for (vk, vv) in vm {
                        let a = actor(vk);
                        let s = match vv {
                            Value::String(s) if s == "Reject" => format!("{a}.r"),
                            Value::Object(o) => format!("{a}.a{}", o.get("Accept").map(|x| sig_tok(x)).unwrap_or("?".into())),
                            _ => format!("{a}.?"),
                        };
                        vs.push((a.parse().unwrap_or(u64::MAX), s));
                    }
                }
                vs.sort();
                format!(
                    "{id}~{doc}~{title}~{state}~{author}~{parent}~{}",
                    show_list(&vs.into_iter().map(|(_, s)| s).collect::<Vec<_>>(), ",")
                )
            };
            rv.push((id.parse().unwrap_or(u64::MAX), s));
        }
    }
    rv.sort();
    Ok(format!(
        "cur={};hd={};rv={}",
        idx_of(ids, v["current"].as_str().unwrap_or("?")),
        show_list(&hd.into_iter().map(|(_, s)| s).collect::<Vec<_>>(), "+"),
        show_list(&rv.into_iter().map(|(_, s)| s).collect::<Vec<_>>(), "+"),
    ))
}

fn without_timeline(i: &Identity) -> Value {
    let mut v = serde_json::to_value(i).unwrap_or(Value::Null);
    if let Some(o) = v.as_object_mut() {
        o.remove("timeline");
    }
    v
}

fn elaborate(w: &mut World, repos: &mut Repos, input: &str) -> (String, Outcome) {
    let Some(mut case) = parse(input) else {
        return (input.to_string(), Outcome::new("bad-case").trivial().tag("bad-case"));
    };
    let run = match run_case(w, repos, &mut case) {
        Ok(r) => r,
        Err(e) => return (input.to_string(), Outcome::new(format!("harness-error:{e}")).trivial().tag("harness-error")),
    };
    let text = render(&case);
    count_ops(case.ops.len() - 1, run.steps.iter().filter(|s| s.1).count(), run.steps.iter().filter(|s| !s.1).count());
    let mut o = Outcome::new(run.output.clone());
    if run.init.is_none() {
        o.tags.push("init-err".into());
    }
    let mut adoptions = 0;
    for (k, ok, conc, before, after) in &run.steps {
        let op = &case.ops[*k];
        if *conc > 0 {
            o.tags.push("concurrent".into());
        }
        if !*ok {
            o.tags.push("op-rejected".into());
            if before != after {
                o.violations.push(("rejected-op-changed-state".into(), format!("op {k} was rejected but changed the identity")));
            }
            continue;
        }
        o.tags.push("op-applied".into());
        let (b, a) = (without_timeline(before), without_timeline(after));
        // 1. non-delegates of the current document never change the identity
        let author_did = w.did(op.author);
        let is_delegate = before.doc().is_delegate(&author_did);
        if !is_delegate {
            o.tags.push("applied-by-non-delegate".into());
            if b != a {
                o.violations.push((
                    "non-delegate-changed-identity".into(),
                    format!("op {k} by {} (not a delegate of the current document) changed the identity", op.author),
                ));
            }
        }
        if a["revisions"][after.current.to_string()]["state"].as_str() != Some("accepted") {
            // the current revision was replaced in place (two `Revision` actions in one op, fixed by
            // a66814b "reject identity operations that contain more than one revision")
            o.violations.push((
                "double-revision-overwrites-current".into(),
                format!("op {k}: the current revision is not in state accepted afterwards"),
            ));
        }
        // 2. the current revision is never redacted or edited
        let cur0 = before.current.to_string();
        if b["revisions"][&cur0].is_null() {
            o.violations.push(("current-missing".into(), format!("before op {k} the current revision does not exist")));
        } else {
            let (r0, r1) = (&b["revisions"][&cur0], &a["revisions"][&cur0]);
            if r1.is_null() {
                o.violations.push(("current-redacted".into(), format!("op {k} redacted the current revision")));
            } else if r0["blob"] != r1["blob"] || r0["title"] != r1["title"] || r0["description"] != r1["description"] || r0["doc"] != r1["doc"] || r0["parent"] != r1["parent"] {
                o.violations.push(("current-edited".into(), format!("op {k} edited / replaced the content of the current revision")));
            }
        }
        // 3. a change of `current` needs a strict majority of valid signatures of the delegates of the
        //    document it replaces, and the new revision must be its successor
        if before.current != after.current {
            adoptions += 1;
            let new = after.current.to_string();
            let r1 = &a["revisions"][&new];
            if r1["parent"].as_str() != Some(cur0.as_str()) {
                o.violations.push((
                    "current-replaced-by-non-successor".into(),
                    format!("op {k}: new current revision's parent is {} but the previous current was {cur0}", r1["parent"]),
                ));
            }
            let old_doc = before.doc();
            let blob_s = r1["blob"].as_str().unwrap_or("?").to_string();
            let blob = run.blobs.iter().find(|bb| bb.to_string() == blob_s);
            let mut valid = 0;
            if let (Some(blob), Some(new_rev)) = (blob, after.revision(&after.current)) {
                for (key, sig) in new_rev.signatures() {
                    if old_doc.is_delegate(&radicle::identity::Did::from(*key)) && key.verify(blob.as_bytes(), &sig).is_ok() {
                        valid += 1;
                    }
                }
            }
            let needed = old_doc.delegates().len() / 2 + 1;
            if valid < needed {
                o.violations.push((
                    "adopted-without-majority".into(),
                    format!("op {k}: revision became current with {valid} valid delegate signatures, {needed} required"),
                ));
            }
            if valid == needed {
                o.tags.push("adopted-at-exact-majority".into());
            }
            o.tags.push("adopted".into());
        }
    }
    for op in &case.ops {
        for a in &op.actions {
            let t = match a {
                IdAct::Revision { .. } => "act-revision",
                IdAct::Edit { .. } => "act-edit",
                IdAct::Accept { sig, rev } => {
                    // is the signature one that verifies for the author over the target's blob?
                    let _ = rev;
                    if case.vtable.iter().any(|(k, s, _)| *k == op.author && s == sig) {
                        "act-accept-valid-sig"
                    } else {
                        "act-accept-invalid-sig"
                    }
                }
                IdAct::Reject { .. } => "act-reject",
                IdAct::Redact { .. } => "act-redact",
            };
            o.tags.push(t.into());
        }
    }
    o.nontrivial = run.init.is_some() && !run.steps.is_empty();
    if adoptions > 1 {
        o.tags.push("several-adoptions".into());
    }
    o.tags.sort();
    o.tags.dedup();
    (text, o)
}

/// Signature table used by the generators: for every actor a signature over every document, plus some
/// signatures over other bytes.
fn sig_table(n_docs: usize) -> Vec<(usize, Option<usize>)> {
    let mut v = vec![];
    for a in 0..N_ACTORS {
        for d in 0..n_docs {
            v.push((a, Some(d)));
        }
        v.push((a, None));
    }
    v
}

fn sig_for(n_docs: usize, actor: usize, over: Option<usize>) -> usize {
    actor * (n_docs + 1) + over.unwrap_or(n_docs)
}

fn gen_case(rng: &mut Rng) -> String {
    // documents: doc 0 = root (1-4 delegates, founder first), further docs change the delegate set
    let n0 = rng.range(1, 4) as usize;
    let mut d0: Vec<usize> = (0..n0).collect();
    if rng.chance(1, 4) {
        d0.rotate_left(1);
    }
    let n_docs = rng.range(2, 4) as usize;
    let mut docs = vec![d0.clone()];
    for _ in 1..n_docs {
        let n = rng.range(1, 4) as usize;
        let mut ds: Vec<usize> = vec![];
        while ds.len() < n {
            let k = rng.below(5) as usize;
            if !ds.contains(&k) {
                ds.push(k);
            }
        }
        docs.push(ds);
    }
    let sigs = sig_table(n_docs);
    let founder = d0[0];
    let mut ops = vec![IdOp {
        author: founder,
        ts: 1000,
        tips: vec![],
        actions: vec![IdAct::Revision { title: 1, doc: Some(0), parent: None, sig: sig_for(n_docs, founder, Some(0)) }],
    }];
    let n = rng.range(1, 12) as usize;
    let mut dag = DagGen::new(1000 + rng.below(20));
    // generator-side estimate of the state: current revision / document, active proposals
    let mut cur: u64 = 0;
    let mut cur_doc: usize = 0;
    let mut revs: Vec<(u64, usize, usize)> = vec![(0, 0, founder)]; // (id, doc, author)
    let mut votes: BTreeMap<u64, Vec<usize>> = BTreeMap::new();
    for i in 1..=n {
        let (tips, ts, anc) = dag.next(rng);
        let delegates = docs[cur_doc].clone();
        let author = if rng.chance(5, 6) { *rng.pick(&delegates) } else { rng.below(N_ACTORS as u64) as usize };
        let mut suspect = !delegates.contains(&author);
        let n_act = if rng.chance(1, 8) { 2 } else { 1 };
        let mut actions = vec![];
        let visible: Vec<(u64, usize, usize)> = revs.iter().filter(|(r, _, _)| anc.contains(&(*r as usize)) || *r == 0).cloned().collect();
        let active: Vec<(u64, usize, usize)> = visible.iter().filter(|(r, _, _)| *r != cur && *r > cur).cloned().collect();
        for _ in 0..n_act {
            let k = rng.below(20);
            let a = match k {
                0..=5 => {
                    // propose a revision (mostly on top of the current one, with a document that differs)
                    let parent = if rng.chance(1, 10) { rng.pick(&visible).0 } else { cur };
                    let mut doc = rng.below(n_docs as u64) as usize;
                    if doc == cur_doc && rng.chance(5, 6) {
                        doc = (doc + 1) % n_docs;
                    }
                    let (doc, over) = if rng.chance(1, 25) {
                        suspect = true;
                        (None, Some(0))
                    } else {
                        (Some(doc), Some(doc))
                    };
                    let sig = match rng.below(12) {
                        0 => {
                            suspect = true;
                            sig_for(n_docs, author, None)
                        }
                        1 => {
                            suspect = true;
                            sig_for(n_docs, (author + 1) % N_ACTORS, over)
                        }
                        _ => sig_for(n_docs, author, over),
                    };
                    if parent != cur || doc == Some(cur_doc) {
                        suspect = suspect || doc == Some(cur_doc);
                    }
                    IdAct::Revision { title: rng.range(1, 9), doc, parent: if rng.chance(1, 40) { None } else { Some(parent) }, sig }
                }
                6..=13 => {
                    // vote on an active proposal
                    let target = if active.is_empty() || rng.chance(1, 15) {
                        suspect = true;
                        if rng.bool() { cur } else { FAKE_ID_BASE + rng.below(2) }
                    } else {
                        rng.pick(&active).0
                    };
                    let tdoc = revs.iter().find(|(r, _, _)| *r == target).map(|(_, d, _)| *d);
                    if votes.get(&target).map(|v| v.contains(&author)).unwrap_or(false) {
                        suspect = true; // duplicate verdict
                    }
                    if k <= 11 {
                        let sig = match rng.below(8) {
                            0 => {
                                suspect = true;
                                sig_for(n_docs, author, None)
                            }
                            1 => {
                                suspect = true;
                                sig_for(n_docs, (author + 1) % N_ACTORS, tdoc)
                            }
                            2 => {
                                // a signature by the author over ANOTHER document
                                suspect = true;
                                sig_for(n_docs, author, Some((tdoc.unwrap_or(0) + 1) % n_docs))
                            }
                            _ => sig_for(n_docs, author, tdoc.or(Some(0))),
                        };
                        IdAct::Accept { rev: target, sig }
                    } else {
                        IdAct::Reject { rev: target }
                    }
                }
                14 | 15 => {
                    let target = if active.is_empty() || rng.chance(1, 5) { rng.pick(&visible).0 } else { rng.pick(&active).0 };
                    let owner = revs.iter().find(|(r, _, _)| *r == target).map(|(_, _, a)| *a);
                    if owner != Some(author) || target == cur {
                        suspect = true;
                    }
                    IdAct::Edit { rev: target, title: rng.range(1, 9) }
                }
                _ => {
                    let target = if active.is_empty() || rng.chance(1, 5) { rng.pick(&visible).0 } else { rng.pick(&active).0 };
                    let owner = revs.iter().find(|(r, _, _)| *r == target).map(|(_, _, a)| *a);
                    if owner != Some(author) || target <= cur {
                        suspect = true;
                    }
                    IdAct::Redact { rev: target }
                }
            };
            actions.push(a);
        }
        // crude bookkeeping of the expected state (only for choosing plausible next actions)
        if !suspect {
            for a in &actions {
                match a {
                    IdAct::Revision { doc: Some(d), parent: Some(p), .. } if *p == cur => {
                        revs.push((i as u64, *d, author));
                        votes.entry(i as u64).or_default().push(author);
                    }
                    IdAct::Accept { rev, .. } => votes.entry(*rev).or_default().push(author),
                    IdAct::Reject { rev } => votes.entry(*rev).or_default().push(author),
                    _ => {}
                }
            }
            // adoption estimate
            for (r, d, _) in revs.clone() {
                if r > cur {
                    let n_acc = votes.get(&r).map(|v| v.len()).unwrap_or(0);
                    if n_acc >= docs[cur_doc].len() / 2 + 1 && actions.iter().any(|a| matches!(a, IdAct::Accept { rev, .. } if *rev == r) || matches!(a, IdAct::Revision { .. })) && r as usize <= i {
                        cur = r;
                        cur_doc = d;
                        break;
                    }
                }
            }
        }
        dag.push(&tips, anc, suspect);
        ops.push(IdOp { author, ts, tips, actions });
    }
    render(&IdCase { repo_doc: 0, docs, sigs, vtable: vec![], order: vec![], g: "?".into(), ops })
}

fn main() {
    let mut ctx = Ctx::from_args("C04");
    let mut world = World::new();
    let mut repos = Repos { repos: BTreeMap::new() };
    let (fixed, is_replay) = ctx.fixed_inputs();
    for i in fixed {
        let (text, o) = elaborate(&mut world, &mut repos, &i);
        ctx.count("corpus-or-replay");
        ctx.record(&text, o);
    }
    if !is_replay {
        let mut rng = ctx.rng();
        for _ in 0..ctx.size(400, 6000) {
            let input = gen_case(&mut rng);
            let (text, o) = elaborate(&mut world, &mut repos, &input);
            ctx.record(&text, o);
            if world.used > 400 {
                world = World::new();
                repos = Repos { repos: BTreeMap::new() };
            }
        }
    }
    {
        use std::sync::atomic::Ordering::Relaxed;
        ctx.note("entries_total_non_root", OPS_TOTAL.load(Relaxed));
        ctx.note("entries_applied", OPS_APPLIED.load(Relaxed));
        ctx.note("entries_rejected", OPS_REJECTED.load(Relaxed));
    }
    ctx.finish(
        "whole identity-COB histories on real repositories: root document with 1-4 delegates, 1-3 further \
         documents changing the delegate set, 1-12 ops by delegates and strangers: revisions (on the current \
         and on stale parents, unchanged documents, missing blobs), accepts with valid signatures, with \
         signatures by another key, over another document or over other bytes, rejects, duplicated verdicts, \
         edits and redactions (own / foreign / current revision), multi-action ops, random DAG shapes with \
         concurrent branches and equal / decreasing timestamps; non-trivial = valid root and at least one \
         evaluated entry; distinct by input text",
        false,
    );
}
