//! C14 harness (stub: not implemented yet).
fn main() {
    eprintln!("C14: harness not implemented");
    std::process::exit(3);
}
