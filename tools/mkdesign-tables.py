#!/usr/bin/env python3
"""Rewrite the generated tables of DESIGN.md (§11.4 seeded changes, §11.5 status) in place."""
import subprocess, re
p = '/verif/DESIGN.md'
s = open(p).read()
for tag, cmd in (('SEEDTABLE', 'tools/mkseedtable.py'), ('STATUSTABLE', 'tools/mkstatustable.py')):
    out = subprocess.run(['python3', '/verif/' + cmd], capture_output=True, text=True).stdout
    s = re.sub(rf'<!-- {tag}:BEGIN -->.*?<!-- {tag}:END -->', f'<!-- {tag}:BEGIN -->\n{out}<!-- {tag}:END -->', s, flags=re.S)
open(p, 'w').write(s)
