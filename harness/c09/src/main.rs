//! C09 harness (stub: not implemented yet).
fn main() {
    eprintln!("C09: harness not implemented");
    std::process::exit(3);
}
