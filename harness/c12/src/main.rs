//! C12 — repository data is served only to peers allowed to see it.
//!
//! Two kinds of cases (first token):
//!
//! * `h <stream hex> <chunk> <graph>` — the REAL `pktline::git_request` on a request header (see `header.rs`);
//! * `w <policy a|b|n> <vis p|r> <allow r|o|ro|-> <delegate 0|1>` — the decision of the REAL worker
//!   (`Worker::_process` / `is_authorized`), observed end-to-end: two real nodes (`test::environment`),
//!   the responder holds a fresh repository with the given seeding policy (`a`llow entry, `b`lock entry, `n`o
//!   entry: the node's default policy, block), visibility (`p`ublic / p`r`ivate with the allow list
//!   holding the `r`equester and/or an`o`ther node) and delegate set; the requester attempts a real fetch.
//!   `served` = the responder emitted an `UploadPack` event for that requester and repository, i.e.
//!   `upload_pack` ran and wrote to the stream. Output `served` | `refused`.
//!
//! Oracle (the property statement on what the real code did): served or fetched although the repository
//! is not seeded or not visible to the requester ⇒ `served-unauthorized`; repository present at the
//! requester after a refusal ⇒ `data-leaked`; `git_request` panicking ⇒ `git-request-panic`.

mod header;

use std::str::FromStr as _;
use std::sync::Mutex;
use std::time::{Duration, Instant};

use radicle::cob::identity::Identity;
use radicle::git;
use radicle::identity::{RepoId, Visibility};
use radicle::node::policy::{Policy, Scope};
use radicle::node::{Alias, Event, FetchResult, Handle as _, POLICIES_DB_FILE};
use radicle::storage::{ReadStorage as _, SignRepository as _, WriteRepository as _};
use radicle::test::fixtures;
use radicle_crypto::test::signer::MockSigner;
use radicle_node::service::Config;
use radicle_node::storage::git::transport;
use radicle_node::test::environment::{Node, NodeHandle};
use verif_common::*;

struct World {
    _tmp: tempfile::TempDir,
    alice: NodeHandle<MockSigner>,
    bob: NodeHandle<MockSigner>,
    other: radicle::node::NodeId,
    counter: usize,
}

static WORLD: Mutex<Option<World>> = Mutex::new(None);

fn world_init() -> World {
    // memory-backed scratch space when available: the nodes' SQLite databases and git repositories fsync a lot
    let shm = std::path::Path::new("/dev/shm");
    let tmp = if shm.is_dir() { tempfile::tempdir_in(shm).or_else(|_| tempfile::tempdir()) } else { tempfile::tempdir() }.expect("tempdir");
    let alice = Node::init(tmp.path(), Config::test(Alias::new("alice")));
    let bob = Node::init(tmp.path(), Config::test(Alias::new("bob")));
    let other = Node::init(tmp.path(), Config::test(Alias::new("carol"))).id;
    let mut alice = alice.spawn();
    let bob = bob.spawn();
    alice.connect(&bob);
    transport::local::register(alice.storage.clone());
    World { _tmp: tmp, alice, bob, other, counter: 0 }
}

/// Create a fresh repository in the responder's storage.
fn make_repo(w: &mut World, private: bool, allow_r: bool, allow_o: bool, delegate: bool) -> Result<RepoId, String> {
    w.counter += 1;
    let name = format!("repo{}", w.counter);
    let wd = w._tmp.path().join(format!("wd{}", w.counter));
    let (repo, _) = fixtures::repository(&wd);
    let mut allow = vec![];
    if allow_r {
        allow.push(w.bob.id.into());
    }
    if allow_o {
        allow.push(w.other.into());
    }
    let vis = if private { Visibility::private(allow) } else { Visibility::Public };
    let branch = git::RefString::try_from("master").map_err(|e| e.to_string())?;
    let (rid, _, _) = radicle::rad::init(
        &repo,
        name.as_str().try_into().map_err(|e| format!("{e:?}"))?,
        "c12 scenario",
        branch.clone(),
        vis,
        &w.alice.signer,
        &w.alice.storage,
    )
    .map_err(|e| format!("rad::init: {e}"))?;
    git::push(
        &repo,
        "rad",
        [(
            &git::Qualified::from(git::lit::refs_heads(&branch)),
            &git::Qualified::from(git::lit::refs_heads(&branch)),
        )],
    )
    .map_err(|e| format!("push: {e}"))?;
    let stored = w.alice.storage.repository(rid).map_err(|e| format!("repository: {e}"))?;
    if delegate {
        let mut identity = Identity::load_mut(&stored).map_err(|e| format!("identity: {e}"))?;
        let mut doc = identity.doc().clone().edit();
        doc.delegate(w.bob.id.into());
        let verified = doc.verified().map_err(|e| format!("doc: {e}"))?;
        let rev = identity
            .update("Add delegate", "", &verified, &w.alice.signer)
            .map_err(|e| format!("update: {e}"))?;
        stored.set_identity_head_to(rev.into()).map_err(|e| format!("set head: {e}"))?;
    }
    stored.sign_refs(&w.alice.signer).map_err(|e| format!("sign_refs: {e}"))?;
    Ok(rid)
}

fn ensure_connected(w: &mut World) {
    let connected = w
        .bob
        .handle
        .sessions()
        .map(|s| s.iter().any(|s| s.nid == w.alice.id && s.state.is_connected()))
        .unwrap_or(false);
    if !connected {
        let World { alice, bob, .. } = w;
        alice.connect(bob);
    }
}

enum Attempt {
    Decided { served: bool, fetched: bool, leaked: bool },
    Inconclusive(String),
}

fn attempt(w: &mut World, policy: &str, private: bool, allow_r: bool, allow_o: bool, delegate: bool) -> Attempt {
    ensure_connected(w);
    let rid = match make_repo(w, private, allow_r, allow_o, delegate) {
        Ok(rid) => rid,
        Err(e) => return Attempt::Inconclusive(format!("setup: {e}")),
    };
    // Check the fixture is what the scenario says (through the same storage the worker reads).
    match w.alice.storage.repository(rid).and_then(|r| Ok(radicle::storage::ReadRepository::identity_doc(&r))) {
        Ok(Ok(doc)) => {
            let vis_ok = doc.is_public() != private;
            let del_ok = doc.is_delegate(&w.bob.id.into()) == delegate;
            if !vis_ok || !del_ok {
                return Attempt::Inconclusive("fixture does not match the scenario".into());
            }
        }
        _ => return Attempt::Inconclusive("fixture identity document unreadable".into()),
    }
    match policy {
        "a" => {
            if let Err(e) = w.alice.handle.seed(rid, Scope::All) {
                return Attempt::Inconclusive(format!("seed: {e}"));
            }
        }
        "b" => {
            let db = w.alice.home.node().join(POLICIES_DB_FILE);
            let r = radicle::node::policy::store::Store::open(db)
                .map_err(|e| e.to_string())
                .and_then(|mut s| s.set_seed_policy(&rid, Policy::Block).map_err(|e| e.to_string()));
            if let Err(e) = r {
                return Attempt::Inconclusive(format!("block: {e}"));
            }
        }
        _ => {}
    }
    if let Err(e) = w.bob.handle.seed(rid, Scope::All) {
        return Attempt::Inconclusive(format!("requester seed: {e}"));
    }
    let events = w.alice.handle.events();
    let started = Instant::now();
    let result = w.bob.handle.fetch(rid, w.alice.id, Duration::from_secs(60));
    let fetched = match &result {
        Ok(FetchResult::Success { .. }) => true,
        Ok(FetchResult::Failed { reason }) => {
            let r = reason.to_lowercase();
            if r.contains("timed out") || r.contains("timeout") || r.contains("disconnected") {
                return Attempt::Inconclusive(format!("fetch failed for an unrelated reason: {reason}"));
            }
            false
        }
        Err(e) => return Attempt::Inconclusive(format!("fetch command: {e}")),
    };
    if started.elapsed() > Duration::from_secs(45) {
        return Attempt::Inconclusive("fetch took suspiciously long".into());
    }
    // Did the responder run upload-pack for this requester and repository?
    let mut served = false;
    let deadline = Instant::now() + Duration::from_millis(if fetched { 100 } else { 700 });
    loop {
        let left = deadline.saturating_duration_since(Instant::now());
        match events.recv_timeout(left) {
            Ok(Event::UploadPack(up)) => {
                use radicle::node::events::UploadPack::*;
                let (r, n) = match &up {
                    Done { rid, remote, .. } | Write { rid, remote, .. } | Error { rid, remote, .. } | PackProgress { rid, remote, .. } => (*rid, *remote),
                };
                if r == rid && n == w.bob.id {
                    served = true;
                    break;
                }
            }
            Ok(_) => {}
            Err(_) => break,
        }
    }
    let leaked = !served && !fetched && w.bob.storage.repository(rid).is_ok();
    Attempt::Decided { served, fetched, leaked }
}

fn run_worker(toks: &[&str]) -> Outcome {
    let bad = || Outcome::new("bad-case").trivial();
    if toks.len() != 4 {
        return bad();
    }
    let (policy, vis, allow, deleg) = (toks[0], toks[1], toks[2], toks[3]);
    if !["a", "b", "n"].contains(&policy) || !["p", "r"].contains(&vis) || !["-", "r", "o", "ro"].contains(&allow) || !["0", "1"].contains(&deleg) {
        return bad();
    }
    if vis == "p" && allow != "-" {
        return bad();
    }
    let private = vis == "r";
    let (allow_r, allow_o) = (allow.contains('r'), allow.contains('o'));
    let delegate = deleg == "1";
    let mut guard = WORLD.lock().unwrap();
    if guard.is_none() {
        match catch(world_init) {
            Ok(w) => *guard = Some(w),
            Err(e) => return Outcome::new(format!("inconclusive:world:{e}")).trivial(),
        }
    }
    let w = guard.as_mut().unwrap();
    let mut last = String::new();
    for _try in 0..3 {
        match attempt(w, policy, private, allow_r, allow_o, delegate) {
            Attempt::Inconclusive(why) => {
                last = why;
                continue;
            }
            Attempt::Decided { served, fetched, leaked } => {
                let seeded = policy == "a";
                let visible = !private || allow_r || delegate;
                let allowed = seeded && visible;
                let out = if served || fetched { "served" } else { "refused" };
                let mut o = Outcome::new(out)
                    .tag(format!("w:{out}"))
                    .tag(format!("w:policy-{policy}"))
                    .tag(if !private { "w:public" } else if visible { "w:private-visible" } else { "w:private-invisible" });
                if (served || fetched) && !allowed {
                    o = o.violation(
                        "served-unauthorized",
                        format!(
                            "responder ran upload-pack (served={served}, requester fetch succeeded={fetched}) although seeded={seeded} visible={visible}"
                        ),
                    );
                }
                if leaked {
                    o = o.violation("data-leaked", "repository present in the requester's storage after a refused fetch");
                }
                return o;
            }
        }
    }
    // Never count a timeout as "refused".
    Outcome::new(format!("inconclusive:{}", last.replace(' ', "_"))).tag("w:inconclusive").trivial()
}

fn run_case(input: &str) -> Outcome {
    let toks: Vec<&str> = input.split(' ').collect();
    match toks.first().copied() {
        Some("h") => header::run_header(&toks[1..]),
        Some("w") => run_worker(&toks[1..]),
        _ => Outcome::new("bad-case").trivial(),
    }
}

fn all_scenarios() -> Vec<String> {
    let mut v = vec![];
    for policy in ["a", "b", "n"] {
        for (vis, allow) in [("p", "-"), ("r", "-"), ("r", "r"), ("r", "o"), ("r", "ro")] {
            for d in ["0", "1"] {
                v.push(format!("w {policy} {vis} {allow} {d}"));
            }
        }
    }
    v
}

fn main() {
    // `c12 mkcase <text>…`: print the `h` case line (with the real graph) for a stream given as text with
    // C-style escapes \0 and \xNN; used to write corpus files.
    let args: Vec<String> = std::env::args().collect();
    if args.get(1).map(|s| s.as_str()) == Some("mkcase") {
        for a in &args[2..] {
            println!("{}", header::header_case(&header::unescape(a), 4));
        }
        return;
    }
    let _ = RepoId::from_str("rad:z3gqcJUoA1n9HaHKufZs5FCSGazv5");
    let mut ctx = Ctx::from_args("C12");
    if !ctx.run_fixed(run_case) {
        let mut rng = ctx.rng();
        // (a) request headers
        for _ in 0..ctx.size(2_000, 50_000) {
            let input = header::gen_header_case(&mut rng);
            let o = run_case(&input);
            ctx.record(&input, o);
        }
        // (b) decision table through the real worker
        let scenarios: Vec<String> = if ctx.quick() {
            // (the corpus already runs the six decisive ones; these add the other allow-list shapes)
            ["w a r o 0", "w a r ro 0", "w n r ro 1", "w b r r 1"].iter().map(|s| s.to_string()).collect()
        } else {
            all_scenarios()
        };
        for input in scenarios {
            let o = run_case(&input);
            ctx.record(&input, o);
        }
    }
    // Shut the nodes down and remove their directories.
    if let Some(w) = WORLD.lock().unwrap().take() {
        drop(w);
    }
    ctx.finish(
        "(a) request headers: structured git-upload-pack packet-lines (RepoId in every multibase base incl. broken ones, with/without rad:, \
         host/port/extra variants, non-UTF-8 and multi-byte text, length prefix exact/off-by-n/upper-case/+/boundary 4,1024,1025, truncated and \
         over-long streams, one-byte mutations), read in chunks of 1..4096 bytes; (b) real two-node fetch attempts over \
         policy {allow entry, block entry, none} x visibility {public, private with allow list subset of {requester, other}} x requester is delegate; \
         non-trivial = not a malformed case text and not inconclusive; distinct by input text",
        false,
    );
}
