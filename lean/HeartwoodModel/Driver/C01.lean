/-! Driver entry for property C01 (stub: not implemented yet). -/
namespace HeartwoodModel.Driver.C01

def run (_args : List String) : String := "unimplemented"

end HeartwoodModel.Driver.C01
