import HeartwoodModel.Model.ServiceInput
/-!
Invariant of the service state under which the message-handling path reaches no assertion site, and its
preservation by every step of `Model/ServiceInput.lean` (C13b).
-/
namespace HeartwoodModel.ServiceInput

/-- * `ids`: a session is stored under its own id (`sessions.insert(remote, Session::…(remote, …))`);
* `fetching`: a repository marked as being fetched in a session is recorded in `Service::fetching` as
  fetched from that session (`try_fetch` inserts both, `fetched`/`disconnected` remove both);
* `clock`: no token bucket was refilled in the future (the service clock is monotone, C17). -/
structure Inv (σ : State) : Prop where
  ids : ∀ k s, σ.sessions k = some s → s.id = k
  fetching : ∀ k s fs aw, σ.sessions k = some s → s.state = .connected fs aw →
    ∀ rid, rid ∈ fs → ∃ r, σ.fetching rid = some (k, r)
  clock : ∀ h t, σ.buckets h = some t → t ≤ σ.now

theorem upd_same {α : Type} (f : Nat → Option α) (k : Nat) (v : Option α) : upd f k v k = v := by
  simp [upd]

theorem upd_other {α : Type} (f : Nat → Option α) {k k' : Nat} (h : k' ≠ k) (v : Option α) :
    upd f k v k' = f k' := by
  simp [upd, h]

/-- Replacing a session by one with the same id whose fetch set is still justified keeps the invariant. -/
theorem Inv.updSession {σ : State} (h : Inv σ) (k : Nid) (s' : Session) (hid : s'.id = k)
    (hf : ∀ fs aw, s'.state = .connected fs aw → ∀ rid, rid ∈ fs → ∃ r, σ.fetching rid = some (k, r)) :
    Inv { σ with sessions := upd σ.sessions k (some s') } := by
  refine ⟨?_, ?_, h.clock⟩
  · intro k' s hs
    by_cases hk : k' = k
    · subst hk
      simp only [upd_same, Option.some.injEq] at hs
      subst hs; exact hid
    · simp only [upd_other _ hk] at hs
      exact h.ids k' s hs
  · intro k' s fs aw hs hst rid hrid
    by_cases hk : k' = k
    · subst hk
      simp only [upd_same, Option.some.injEq] at hs
      subst hs; exact hf fs aw hst rid hrid
    · simp only [upd_other _ hk] at hs
      exact h.fetching k' s fs aw hs hst rid hrid

theorem Inv.removeSession {σ : State} (h : Inv σ) (k : Nid) :
    Inv { σ with sessions := upd σ.sessions k none } := by
  refine ⟨?_, ?_, h.clock⟩
  · intro k' s hs
    by_cases hk : k' = k
    · subst hk; simp [upd_same] at hs
    · simp only [upd_other _ hk] at hs
      exact h.ids k' s hs
  · intro k' s fs aw hs hst rid hrid
    by_cases hk : k' = k
    · subst hk; simp [upd_same] at hs
    · simp only [upd_other _ hk] at hs
      exact h.fetching k' s fs aw hs hst rid hrid

/-! ### fetch scheduling -/

theorem queueFetch_ok {σ : State} (h : Inv σ) (rid : Rid) (frm : Nid) (r : List RefAt) :
    ∃ σ', queueFetch σ rid frm r = .ok σ' ∧ Inv σ' := by
  unfold queueFetch
  cases hs : σ.sessions frm with
  | none => exact ⟨σ, rfl, h⟩
  | some s =>
    have hid : s.id = frm := h.ids frm s hs
    have hne : ¬ (frm ≠ s.id) := by simp [hid]
    simp only [hne, if_false]
    by_cases h1 : MAX_FETCH_QUEUE_SIZE ≤ s.queue.length
    · simp only [h1, if_true]; exact ⟨σ, rfl, h⟩
    · simp only [h1, if_false]
      by_cases h2 : (rid, r) ∈ s.queue
      · simp only [h2, if_true]; exact ⟨σ, rfl, h⟩
      · simp only [h2, if_false]
        refine ⟨_, rfl, h.updSession frm _ hid ?_⟩
        intro fs aw hst rid' hrid'
        exact h.fetching frm s fs aw hs hst rid' hrid'

theorem fetch_ok {σ : State} (h : Inv σ) (rid : Rid) (frm : Nid) (r : List RefAt) :
    ∃ σ', fetch σ rid frm r = .ok σ' ∧ Inv σ' := by
  unfold fetch
  cases hs : σ.sessions frm with
  | none => exact ⟨σ, rfl, h⟩
  | some s =>
    have hid : s.id = frm := h.ids frm s hs
    cases hf : σ.fetching rid with
    | some fr =>
      obtain ⟨f, r'⟩ := fr
      simp only
      by_cases hsame : f = frm ∧ r' = r
      · simp only [hsame, and_self, if_true]; exact ⟨σ, rfl, h⟩
      · simp only [hsame, if_false]; exact queueFetch_ok h rid frm r
    | none =>
      simp only
      cases hst : s.state with
      | initial => simp [Session.isConnected, hst]; exact h
      | attempted => simp [Session.isConnected, hst]; exact h
      | disconnected => simp [Session.isConnected, hst]; exact h
      | connected fs aw =>
        simp only [Session.isConnected, hst, Bool.not_true, Bool.false_eq_true, if_false]
        by_cases hcap : s.isAtCapacity σ.fetchConcurrency = true
        · simp only [hcap, if_true]; exact queueFetch_ok h rid frm r
        · simp only [hcap, Bool.false_eq_true, if_false]
          have hnot : rid ∉ fs := by
            intro hin
            obtain ⟨r'', hr''⟩ := h.fetching frm s fs aw hs hst rid hin
            simp [hf] at hr''
          simp only [hnot, if_false]
          refine ⟨_, rfl, ?_, ?_, h.clock⟩
          · intro k' s2 hs2
            by_cases hk : k' = frm
            · subst hk
              simp only [upd_same, Option.some.injEq] at hs2
              subst hs2; exact hid
            · simp only [upd_other _ hk] at hs2
              exact h.ids k' s2 hs2
          · intro k' s2 fs2 aw2 hs2 hst2 rid' hrid'
            by_cases hk : k' = frm
            · subst hk
              simp only [upd_same, Option.some.injEq] at hs2
              subst hs2
              simp only [SessState.connected.injEq] at hst2
              obtain ⟨rfl, rfl⟩ := hst2
              by_cases hr : rid' = rid
              · subst hr; exact ⟨r, by simp [upd_same]⟩
              · have hin : rid' ∈ fs := by
                  simp only [List.mem_cons] at hrid'
                  exact hrid'.resolve_left hr
                obtain ⟨r'', hr''⟩ := h.fetching k' s fs aw hs hst rid' hin
                exact ⟨r'', by simp only [upd_other _ hr]; exact hr''⟩
            · simp only [upd_other _ hk] at hs2
              obtain ⟨r'', hr''⟩ := h.fetching k' s2 fs2 aw2 hs2 hst2 rid' hrid'
              have hr : rid' ≠ rid := by
                intro e; subst e; simp [hf] at hr''
              exact ⟨r'', by simp only [upd_other _ hr]; exact hr''⟩

theorem fetchAll_ok {σ : State} (h : Inv σ) (frm : Nid) (rids : List Rid) :
    ∃ σ', fetchAll σ frm rids = .ok σ' ∧ Inv σ' := by
  induction rids generalizing σ with
  | nil => exact ⟨σ, rfl, h⟩
  | cons rid rest ih =>
    obtain ⟨σ1, h1, hi1⟩ := fetch_ok h rid frm []
    obtain ⟨σ2, h2, hi2⟩ := ih hi1
    exact ⟨σ2, by simp [fetchAll, h1, h2], hi2⟩

/-! ### announcements -/

/-- A step result that is not a panic and keeps the invariant. -/
def Good (r : Outcome × State) : Prop := (∀ s, r.1 ≠ .panic s) ∧ Inv r.2

theorem good_ok {σ : State} (h : Inv σ) : Good (.ok, σ) := ⟨by intro s; simp, h⟩
theorem good_disc {σ : State} (h : Inv σ) (e : SessErr) : Good (.disconnect e, σ) := ⟨by intro s; simp, h⟩

theorem stored_inv {σ : State} (h : Inv σ) (a : Announcement) : Inv (stored σ a) :=
  ⟨h.ids, h.fetching, h.clock⟩

theorem processStored_ok (env : Env) {σ : State} (h : Inv σ) (a : Announcement) :
    Good (processStored env σ a) := by
  unfold processStored
  cases a.kind with
  | node seed => exact good_ok h
  | inventory rids =>
    simp only
    by_cases h7 : (!env.routingSynced) = true
    · rw [if_pos h7]; exact good_ok h
    rw [if_neg h7]
    cases σ.sessions a.announcer with
    | none => exact good_ok h
    | some sess =>
      simp only
      obtain ⟨σ', hok, hi⟩ := fetchAll_ok h a.announcer
        (env.shuffle (rids.filter fun id => env.seeded id && !env.haveLocal id))
      rw [hok]
      exact good_ok hi
  | refs rid refs =>
    simp only
    by_cases h7 : refs.isEmpty = true
    · rw [if_pos h7]; exact good_ok h
    rw [if_neg h7]
    by_cases h8 : (!env.seeded rid) = true
    · rw [if_pos h8]; exact good_ok h
    rw [if_neg h8]
    cases σ.sessions a.announcer with
    | none => exact good_ok h
    | some remote =>
      simp only
      by_cases h9 : (env.wanted rid refs).isEmpty = true
      · rw [if_pos h9]; exact good_ok h
      rw [if_neg h9]
      obtain ⟨σ', hok, hi⟩ := fetch_ok h rid remote.id (env.wanted rid refs)
      rw [hok]
      exact good_ok hi

/-- Only the first two fields of `Code` are read by the message-handling path. -/
def Code.msgLike (c : Code) : Prop := c.zeroTimestampGuard = true ∧ c.filteredAsserts = false

theorem handleAnnouncement_ok (c : Code) (hc : c.msgLike) (env : Env) {σ : State} (h : Inv σ) (a : Announcement) :
    Good (handleAnnouncement c env σ a) := by
  unfold handleAnnouncement
  by_cases h1 : (!a.sigOk) = true
  · rw [if_pos h1]; exact good_disc h _
  rw [if_neg h1]
  by_cases h2 : a.announcer = σ.self
  · rw [if_pos h2]; exact good_ok h
  rw [if_neg h2]
  by_cases h3 : (c.zeroTimestampGuard && a.timestamp == 0) = true
  · rw [if_pos h3]; exact good_disc h _
  rw [if_neg h3]
  have hts : a.timestamp ≠ 0 := by
    intro e; apply h3; simp [hc.1, e]
  by_cases h4 : MAX_TIME_DELTA < a.timestamp - σ.now
  · rw [if_pos h4]; exact good_disc h _
  rw [if_neg h4]
  by_cases h5 : unknownIgnored env σ a = true
  · rw [if_pos h5]; exact good_ok h
  rw [if_neg h5, if_neg hts]
  by_cases h6 : (!(env.announcedFresh && isNewer σ a)) = true
  · rw [if_pos h6]; exact good_ok h
  rw [if_neg h6]
  exact processStored_ok env (stored_inv h a) a

/-! ### messages -/

theorem limit_ok (env : Env) {σ : State} (h : Inv σ) (s : Session) :
    ∃ l b, limit env σ s = some (l, b) ∧ ∀ h' t, b h' = some t → t ≤ σ.now := by
  unfold limit
  by_cases hr : (!s.routable) = true
  · rw [if_pos hr]; exact ⟨false, σ.buckets, rfl, h.clock⟩
  rw [if_neg hr]
  have key : ∀ h' t, upd σ.buckets s.host (some σ.now) h' = some t → t ≤ σ.now := by
    intro h' t ht
    by_cases hh : h' = s.host
    · subst hh; simp only [upd_same, Option.some.injEq] at ht; omega
    · simp only [upd_other _ hh] at ht; exact h.clock h' t ht
  cases hb : σ.buckets s.host with
  | none => exact ⟨false, _, rfl, key⟩
  | some t =>
    simp only
    have : ¬ σ.now < t := by have := h.clock s.host t hb; omega
    rw [if_neg this]
    exact ⟨env.limited, _, rfl, key⟩

theorem dispatch_ok (c : Code) (hc : c.msgLike) (env : Env) {σ : State} (h : Inv σ) (remote : Nid) (peer : Session)
    (hp : σ.sessions remote = some peer) (m : Msg) :
    Good (dispatch c env σ remote peer m) := by
  have hid : peer.id = remote := h.ids remote peer hp
  unfold dispatch
  cases m with
  | announcement a => exact handleAnnouncement_ok c hc env h a
  | subscribe since until_ =>
    simp only [hc.2, Bool.false_and, Bool.false_eq_true, if_false]
    refine good_ok (h.updSession remote _ hid ?_)
    intro fs aw hst rid hrid
    exact h.fetching remote peer fs aw hp hst rid hrid
  | info => exact good_ok h
  | ping n => exact good_ok h
  | pong len =>
    simp only
    split
    · rename_i fs expected hst
      by_cases he : expected = len
      · rw [if_pos he]
        refine good_ok (h.updSession remote _ hid ?_)
        intro fs' aw' hst' rid hrid
        simp only [SessState.connected.injEq] at hst'
        obtain ⟨rfl, _⟩ := hst'
        exact h.fetching remote peer fs (some expected) hp hst rid hrid
      · rw [if_neg he]; exact good_ok h
    · exact good_ok h

theorem handleMessage_ok (c : Code) (hc : c.msgLike) (env : Env) {σ : State} (h : Inv σ) (remote : Nid) (m : Msg) :
    Good (handleMessage c env σ remote m) := by
  unfold handleMessage
  cases hs : σ.sessions remote with
  | none => exact good_ok h
  | some peer =>
    simp only
    obtain ⟨l, b, hl, hb⟩ := limit_ok env h peer
    rw [hl]
    simp only
    have h1 : Inv { σ with buckets := b } := ⟨h.ids, h.fetching, hb⟩
    by_cases hlim : l = true
    · rw [if_pos hlim]; exact good_ok h1
    rw [if_neg hlim]
    have hid : peer.id = remote := h.ids remote peer hs
    have toConn : Good (dispatch c env
        { ({ σ with buckets := b } : State) with sessions := upd σ.sessions remote (some peer.toConnected) }
        remote peer.toConnected m) := by
      refine dispatch_ok c hc env (h1.updSession remote peer.toConnected hid ?_) remote _ (by simp [upd_same]) m
      intro fs aw hst rid hrid
      simp only [Session.toConnected, SessState.connected.injEq] at hst
      obtain ⟨rfl, _⟩ := hst
      simp at hrid
    cases hst : peer.state with
    | disconnected => exact good_ok h1
    | connected fs aw => exact dispatch_ok c hc env h1 remote peer hs m
    | initial => exact toConn
    | attempted => exact toConn

/-! ### connection events, runs -/

/-- Pruning the fetches of `remote` keeps every other session justified. -/
theorem failFetches_other {σ : State} (h : Inv σ) (remote : Nid) :
    ∀ k s2 fs aw, k ≠ remote → σ.sessions k = some s2 → s2.state = .connected fs aw →
      ∀ rid, rid ∈ fs → ∃ r, failFetches σ remote rid = some (k, r) := by
  intro k s2 fs aw hk hs2 hst rid hrid
  obtain ⟨r, hr⟩ := h.fetching k s2 fs aw hs2 hst rid hrid
  exact ⟨r, by simp [failFetches, hr, hk]⟩

/-- Replacing the session of `remote` by one that fetches nothing, with or without pruning its fetches. -/
theorem Inv.resetSession {σ : State} (h : Inv σ) (remote : Nid) (s' : Option Session)
    (hid : ∀ s, s' = some s → s.id = remote)
    (hidle : ∀ s fs aw, s' = some s → s.state = .connected fs aw → fs = []) :
    Inv { σ with fetching := failFetches σ remote, sessions := upd σ.sessions remote s' } := by
  refine ⟨?_, ?_, h.clock⟩
  · intro k' s2 hs2
    by_cases hk : k' = remote
    · subst hk
      simp only [upd_same] at hs2
      exact hid s2 hs2
    · simp only [upd_other _ hk] at hs2
      exact h.ids k' s2 hs2
  · intro k' s2 fs aw hs2 hst rid hrid
    by_cases hk : k' = remote
    · subst hk
      simp only [upd_same] at hs2
      rw [hidle s2 fs aw hs2 hst] at hrid
      simp at hrid
    · simp only [upd_other _ hk] at hs2
      exact failFetches_other h remote k' s2 fs aw hk hs2 hst rid hrid

theorem connectedSessions_ok {σ : State} (h : Inv σ) (remote : Nid) (host : Host) (ro p : Bool) :
    Inv (connectedSessions σ remote host ro p) := by
  unfold connectedSessions
  cases hs : σ.sessions remote with
  | some s =>
    simp only
    split
    · refine h.resetSession remote (some s.toConnected) ?_ ?_
      · intro s1 e; simp only [Option.some.injEq] at e; subst e; exact h.ids remote s hs
      · intro s1 fs aw e hst
        simp only [Option.some.injEq] at e; subst e
        simp only [Session.toConnected, SessState.connected.injEq] at hst
        exact hst.1.symm
    · refine h.updSession remote _ (h.ids remote s hs) ?_
      intro fs aw hst rid hrid
      simp only [Session.toConnected, SessState.connected.injEq] at hst
      obtain ⟨rfl, _⟩ := hst
      simp at hrid
  | none =>
    refine h.updSession remote _ rfl ?_
    intro fs aw hst rid hrid
    simp only [SessState.connected.injEq] at hst
    obtain ⟨rfl, _⟩ := hst
    simp at hrid

theorem disconnected_ok {σ : State} (h : Inv σ) (remote : Nid) : Inv (disconnected σ remote) := by
  unfold disconnected
  cases hs : σ.sessions remote with
  | none => exact h
  | some s =>
    simp only
    split
    · refine h.resetSession remote (some { s with state := .disconnected }) ?_ ?_
      · intro s1 e; simp only [Option.some.injEq] at e; subst e; exact h.ids remote s hs
      · intro s1 fs aw e hst
        simp only [Option.some.injEq] at e; subst e
        simp at hst
    · refine h.resetSession remote none ?_ ?_
      · intro s1 e; simp at e
      · intro s1 fs aw e; simp at e

theorem restarted_ok (σ : State) (cfg : List (Nid × Host × Bool)) : Inv (restarted σ cfg) := by
  refine ⟨?_, ?_, ?_⟩
  · intro k s hs
    simp only [restarted] at hs
    cases hf : cfg.find? (·.1 = k) with
    | none => simp [hf] at hs
    | some e =>
      obtain ⟨p, ho, ro⟩ := e
      simp only [hf, Option.some.injEq] at hs
      subst hs
      have := List.find?_some hf
      simpa using this
  · intro k s fs aw hs hst
    simp only [restarted] at hs
    cases hf : cfg.find? (·.1 = k) with
    | none => simp [hf] at hs
    | some e =>
      obtain ⟨p, ho, ro⟩ := e
      simp only [hf, Option.some.injEq] at hs
      subst hs
      simp at hst
  · intro h t ht; simp [restarted] at ht

theorem Code.current_msgLike : Code.current.msgLike := ⟨rfl, rfl⟩
theorem Code.before192a092_msgLike : Code.before192a092.msgLike := ⟨rfl, rfl⟩

/-- With the saturating subtraction the initial Subscribe can always be built. -/
theorem initialSince_fixed (σ : State) : ∃ t, initialSince Code.current σ = some t := by
  unfold initialSince
  cases σ.lastOnline with
  | none => exact ⟨_, rfl⟩
  | some last => exact ⟨_, rfl⟩

theorem step_ok (env : Env) {σ : State} (h : Inv σ) (op : Op) : Good (step Code.current env σ op) := by
  cases op with
  | recv r m => exact handleMessage_ok Code.current Code.current_msgLike env h r m
  | connectIn r ho ro p =>
    obtain ⟨t, ht⟩ := initialSince_fixed σ
    simp only [step, connectedInbound, ht]
    exact good_ok (connectedSessions_ok h r ho ro p)
  | disconnect r => exact good_ok (disconnected_ok h r)
  | restart cfg => exact good_ok (restarted_ok σ cfg)

theorem run_ok (envs : Nat → Env) {σ : State} (h : Inv σ) (ops : List Op) (i : Nat) :
    ∀ o, o ∈ run Code.current envs σ ops i → ∀ s, o ≠ .panic s := by
  induction ops generalizing σ i with
  | nil => intro o ho; simp [run] at ho
  | cons op ops ih =>
    intro o ho s
    obtain ⟨hnp, hinv⟩ := step_ok (envs i) h op
    unfold run at ho
    split at ho
    · rename_i s' σ' heq
      exact absurd (by rw [heq]) (hnp s')
    · rename_i o' σ' hne heq
      simp only [List.mem_cons] at ho
      rcases ho with rfl | ho
      · intro e; exact hne s e
      · have : Inv σ' := by rw [heq] at hinv; exact hinv
        exact ih this (i + 1) o ho s

end HeartwoodModel.ServiceInput
