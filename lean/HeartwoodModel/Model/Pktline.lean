/-!
# Model of `radicle-node/src/worker/upload_pack.rs`, module `pktline` (C12, C13c)

`git_request` reads ONE git packet-line from the stream a remote peer opened and parses it as
`git-upload-pack /<rid>\0host=<host>[:<port>]\0[\0<key>[=<value>]\0…]`.

Every slice / index expression of the Rust on this path is a *site* that can panic; the model computes
the bounds check of each of them explicitly (`sliceOk`) and returns `.panic site` when it fails.
Errors are the two classes the worker distinguishes: `eof` (`io::ErrorKind::UnexpectedEof`,
`UploadError::is_eof`) and `invalid` (every other error of the function: `InvalidInput`).

Opaque parameter: `ridOf : Bytes → Option Rid` is `RepoId::from_canonical` (third-party `multibase`
decoding of any of its 23 bases followed by `git2::Oid::from_bytes`); its graph on the point used is sent
with each case. The optional `rad:` prefix (`RepoId::from_urn`) is modelled.

All delimiters the parser looks for are ASCII, the input is checked to be valid UTF-8 first, and in valid
UTF-8 no ASCII byte occurs inside a multi-byte sequence: splitting on bytes is splitting on `char`s.

Import-free.
-/
namespace HeartwoodModel.Pktline

abbrev Bytes := List UInt8

/-- `pktline::HEADER_LEN` -/
def HEADER_LEN : Nat := 4
/-- `let mut pktline = [0u8; 1024]` in `read_request_pktline` -/
def BUF_LEN : Nat := 1024

/-- The slice expressions on the path, in program order. -/
inductive Site where
  /-- `&mut buf[..HEADER_LEN]` in `read_pktline` -/
  | hdr
  /-- `&mut buf[HEADER_LEN..length]` in `read_pktline` (out of bounds before commit 7f81fc9) -/
  | body
  /-- `&pktline[4..length]` in `read_request_pktline` -/
  | payload
  /-- `&pktline[..length]` in `read_request_pktline` -/
  | whole
  deriving Repr, DecidableEq

inductive ErrKind where
  | eof
  | invalid
  deriving Repr, DecidableEq

inductive Res (α : Type) where
  | ok (a : α)
  | err (k : ErrKind)
  | panic (s : Site)
  deriving Repr, DecidableEq

/-- Rust `&buf[lo..hi]` on a buffer of length `n` panics unless `lo ≤ hi ≤ n`. -/
def sliceOk (n lo hi : Nat) : Bool := decide (lo ≤ hi) && decide (hi ≤ n)

/-! ## reading the packet-line -/

def hexVal (b : UInt8) : Option Nat :=
  if 0x30 ≤ b ∧ b ≤ 0x39 then some (b.toNat - 0x30)
  else if 0x61 ≤ b ∧ b ≤ 0x66 then some (b.toNat - 0x61 + 10)
  else if 0x41 ≤ b ∧ b ≤ 0x46 then some (b.toNat - 0x41 + 10)
  else none

/-- Digits in a radix, most significant first; `none` on a non-digit. -/
def digitsVal (digit : UInt8 → Option Nat) (radix : Nat) : Bytes → Nat → Option Nat
  | [], acc => some acc
  | d :: ds, acc =>
    match digit d with
    | none => none
    | some v => digitsVal digit radix ds (acc * radix + v)

/-- Rust's unsigned `from_str_radix`: an optional `+`, then at least one digit. (A `-` is not a digit
for unsigned types.) Overflow is handled by the callers (4 hex digits cannot overflow `usize`). -/
def unsignedVal (digit : UInt8 → Option Nat) (radix : Nat) (s : Bytes) : Option Nat :=
  match s with
  | [] => none
  | b :: rest =>
    let ds := if b = 0x2B then rest else s
    match ds with
    | [] => none
    | _ => digitsVal digit radix ds 0

/-- `str::from_utf8(&buf[..4])` then `usize::from_str_radix(_, 16)`: a string that passes the second is
ASCII, so the UTF-8 check never decides. -/
def parseLen (hdr : Bytes) : Option Nat := unsignedVal hexVal 16 hdr

/-- `read_exact(k)` on what the peer has sent on the stream: `none` = `UnexpectedEof`
(the stream was closed, or the read timed out, before `k` bytes arrived). -/
def readExact (k : Nat) (s : Bytes) : Option (Bytes × Bytes) :=
  if s.length < k then none else some (s.take k, s.drop k)

/-- `Reader::read_pktline` + the slicing in `read_request_pktline`: the payload `pktline[4..length]`
and what is left on the stream. -/
def readPktline (stream : Bytes) : Res (Bytes × Bytes) :=
  if !sliceOk BUF_LEN 0 HEADER_LEN then .panic .hdr else
  match readExact HEADER_LEN stream with
  | none => .err .eof
  | some (hdr, s1) =>
    match parseLen hdr with
    | none => .err .invalid
    | some length =>
      -- the repair of 7f81fc9: `if !(HEADER_LEN..=buf.len()).contains(&length)`
      if !(decide (HEADER_LEN ≤ length) && decide (length ≤ BUF_LEN)) then .err .invalid else
      if !sliceOk BUF_LEN HEADER_LEN length then .panic .body else
      match readExact (length - HEADER_LEN) s1 with
      | none => .err .eof
      | some (body, s2) =>
        if !sliceOk BUF_LEN 4 length then .panic .payload else
        if !sliceOk BUF_LEN 0 length then .panic .whole else
        .ok (body, s2)

/-- The code as it was before 7f81fc9 (no range check): kept only to state what the repair removed
(`Props/C13.lean`, `pktline_prefix_counterexample`). -/
def readPktlineUnchecked (stream : Bytes) : Res (Bytes × Bytes) :=
  match readExact HEADER_LEN stream with
  | none => .err .eof
  | some (hdr, s1) =>
    match parseLen hdr with
    | none => .err .invalid
    | some length =>
      if !sliceOk BUF_LEN HEADER_LEN length then .panic .body else
      match readExact (length - HEADER_LEN) s1 with
      | none => .err .eof
      | some (body, s2) => .ok (body, s2)

/-! ## UTF-8 validity (`str::from_utf8`): the standard automaton -/

inductive U8State where
  | start
  /-- `n` continuation bytes `80..BF` to go -/
  | cont (n : Nat)
  /-- next byte must lie in `lo..=hi`, then `n` continuation bytes -/
  | range (lo hi : UInt8) (n : Nat)
  deriving Repr, DecidableEq

def isCont (b : UInt8) : Bool := decide (0x80 ≤ b) && decide (b ≤ 0xBF)

def u8step (st : U8State) (b : UInt8) : Option U8State :=
  match st with
  | .start =>
    if b < 0x80 then some .start
    else if 0xC2 ≤ b ∧ b ≤ 0xDF then some (.cont 1)
    else if b = 0xE0 then some (.range 0xA0 0xBF 1)
    else if b = 0xED then some (.range 0x80 0x9F 1)
    else if 0xE1 ≤ b ∧ b ≤ 0xEF then some (.cont 2)
    else if b = 0xF0 then some (.range 0x90 0xBF 2)
    else if b = 0xF4 then some (.range 0x80 0x8F 2)
    else if 0xF1 ≤ b ∧ b ≤ 0xF3 then some (.cont 3)
    else none
  | .cont n =>
    if isCont b then some (if n ≤ 1 then .start else .cont (n - 1)) else none
  | .range lo hi n =>
    if lo ≤ b ∧ b ≤ hi then some (if n = 0 then .start else .cont n) else none

def u8run : U8State → Bytes → Option U8State
  | st, [] => some st
  | st, b :: bs =>
    match u8step st b with
    | none => none
    | some st' => u8run st' bs

def utf8Valid (s : Bytes) : Bool := u8run .start s == some .start

/-! ## `GitRequest::parse` -/

/-- `strip_prefix` -/
def stripPrefix : Bytes → Bytes → Option Bytes
  | [], s => some s
  | _ :: _, [] => none
  | p :: ps, b :: bs => if p = b then stripPrefix ps bs else none

/-- `str::split(c)` as (first piece, remaining pieces): always at least one piece. -/
def splitFirst (c : UInt8) : Bytes → Bytes × List Bytes
  | [] => ([], [])
  | b :: bs =>
    let r := splitFirst c bs
    if b = c then ([], r.1 :: r.2) else (b :: r.1, r.2)

def splitOn (c : UInt8) (s : Bytes) : List Bytes := (splitFirst c s).1 :: (splitFirst c s).2

/-- Drop the last piece if it is empty. -/
def dropLastEmpty : List Bytes → List Bytes
  | [] => []
  | [p] => if p.isEmpty then [] else [p]
  | p :: q :: ps => p :: dropLastEmpty (q :: ps)

/-- `str::split_terminator(c)` -/
def splitTerminator (c : UInt8) (s : Bytes) : List Bytes := dropLastEmpty (splitOn c s)

/-- `str::split_once(c)` -/
def splitOnce (c : UInt8) : Bytes → Option (Bytes × Bytes)
  | [] => none
  | b :: bs =>
    if b = c then some ([], bs)
    else match splitOnce c bs with
      | none => none
      | some (l, r) => some (b :: l, r)

def decVal (b : UInt8) : Option Nat :=
  if 0x30 ≤ b ∧ b ≤ 0x39 then some (b.toNat - 0x30) else none

/-- `str::parse::<u16>()` -/
def parseU16 (s : Bytes) : Option Nat :=
  match unsignedVal decVal 10 s with
  | none => none
  | some v => if v ≤ 65535 then some v else none

/-- `"git-upload-pack "` -/
def cmdPrefix : Bytes :=
  [0x67, 0x69, 0x74, 0x2D, 0x75, 0x70, 0x6C, 0x6F, 0x61, 0x64, 0x2D, 0x70, 0x61, 0x63, 0x6B, 0x20]
/-- `"host="` -/
def hostPrefix : Bytes := [0x68, 0x6F, 0x73, 0x74, 0x3D]
/-- `"rad:"` (`RAD_PREFIX`) -/
def radPrefix : Bytes := [0x72, 0x61, 0x64, 0x3A]

structure GitRequest (Rid : Type) where
  repo : Rid
  path : Bytes
  host : Option (Bytes × Option Nat)
  extra : List (Bytes × Option Bytes)
  deriving Repr, DecidableEq

variable {Rid : Type}

/-- `RepoId::from_urn` = `from_str`: `s.strip_prefix("rad:").unwrap_or(s)` then `from_canonical`. -/
def fromUrn (ridOf : Bytes → Option Rid) (s : Bytes) : Option Rid :=
  match stripPrefix radPrefix s with
  | some rest => ridOf rest
  | none => ridOf s

/-- The host part. Outer `none` = the request is rejected. -/
def parseHost : Option Bytes → Option (Option (Bytes × Option Nat))
  | none => some none
  | some h =>
    if h.isEmpty then some none else
    match stripPrefix hostPrefix h with
    | none => none
    | some host =>
      match splitOnce 0x3A host with
      | none => some (some (host, none))
      | some (name, port) =>
        match parseU16 port with
        | none => none
        | some p => some (some (name, some p))

def parseExtra (parts : List Bytes) : List (Bytes × Option Bytes) :=
  (parts.dropWhile (·.isEmpty)).map fun part =>
    match splitOnce 0x3D part with
    | none => (part, none)
    | some (k, v) => (k, some v)

/-- `GitRequest::parse` -/
def parseRequest (ridOf : Bytes → Option Rid) (input : Bytes) : Option (GitRequest Rid) :=
  if !utf8Valid input then none else
  match stripPrefix cmdPrefix input with
  | none => none
  | some rest =>
    match splitTerminator 0 rest with
    | [] => none
    | path :: parts =>
      match stripPrefix [0x2F] path with
      | none => none
      | some r =>
        match fromUrn ridOf r with
        | none => none
        | some repo =>
          match parseHost parts.head? with
          | none => none
          | some host => some { repo, path, host, extra := parseExtra (parts.drop 1) }

/-- `pktline::git_request`: read one packet-line from the stream and parse it. -/
def gitRequest (ridOf : Bytes → Option Rid) (stream : Bytes) : Res (GitRequest Rid) :=
  match readPktline stream with
  | .err k => .err k
  | .panic s => .panic s
  | .ok (payload, _) =>
    match parseRequest ridOf payload with
    | none => .err .invalid
    | some req => .ok req

/-- The bytes `parseRequest` hands to `RepoId::from_canonical`, if it gets that far: used by the driver
to look the point up in the graph sent with the case. -/
def ridPoint (stream : Bytes) : Option Bytes :=
  match readPktline stream with
  | .ok (payload, _) =>
    if !utf8Valid payload then none else
    match stripPrefix cmdPrefix payload with
    | none => none
    | some rest =>
      match splitTerminator 0 rest with
      | [] => none
      | path :: _ =>
        match stripPrefix [0x2F] path with
        | none => none
        | some r =>
          match stripPrefix radPrefix r with
          | some x => some x
          | none => some r
  | _ => none

end HeartwoodModel.Pktline
