//! C12 — repository data is served only to peers allowed to see it.
//!
//! Two kinds of cases (first token):
//!
//! * `h <stream hex> <chunk> <graph>` — the REAL `pktline::git_request` on a request header (see `header.rs`);
//! * `w <policy a|b|n> <vis p|r> <allow r|o|ro|-> <delegate 0|1>` — the decision of the REAL worker
//!   (`Worker::_process` / `is_authorized`), observed end-to-end: two real nodes (`test::environment`),
//!   the responder holds a fresh repository with the given seeding policy (`a`llow entry, `b`lock entry, `n`o
//!   entry: the node's default policy, block), visibility (`p`ublic / p`r`ivate with the allow list
//!   holding the `r`equester and/or an`o`ther node) and delegate set; the requester attempts a real fetch.
//!   `served` = the responder emitted an `UploadPack` event for that requester and repository, i.e.
//!   `upload_pack` ran and wrote to the stream. Output `served` | `refused`.
//!
//! * `v <init p|e> <steps> <requester e|b>` — a HISTORY through the real worker, three real nodes: the serving node
//!   (alice) and a second delegate (bob) own a seeded repository that starts `p`ublic or private with the
//!   requester `e`ve on the allow list; every char of `steps` is a visibility change (`n` private/empty allow
//!   list, `e` private/[eve], `p` public) proposed by alice, fetched and accepted by bob on HIS node (so that
//!   the deciding vote reaches alice through a fetch from bob: for the first step via a newly created identity
//!   ref, for later steps via an updated one); then eve (`e`) or bob (`b`) attempts a fetch from alice.
//!   The oracle judges `served` against the CANONICAL identity document in alice's storage, computed by the
//!   harness with `Identity::load` (not through `refs/rad/id`, which is what the worker reads):
//!   class `served-against-current-identity`.
//!
//! Oracle (the property statement on what the real code did): served or fetched although the repository
//! is not seeded or not visible to the requester ⇒ `served-unauthorized`; repository present at the
//! requester after a refusal ⇒ `data-leaked`; `git_request` panicking ⇒ `git-request-panic`.

mod header;

use std::str::FromStr as _;
use std::sync::Mutex;
use std::time::{Duration, Instant};

use radicle::cob::identity::Identity;
use radicle::git;
use radicle::identity::{RepoId, Visibility};
use radicle::node::policy::{Policy, Scope};
use radicle::node::{Alias, Event, FetchResult, Handle as _, POLICIES_DB_FILE};
use radicle::storage::{ReadStorage as _, SignRepository as _, WriteRepository as _};
use radicle::test::fixtures;
use radicle_crypto::test::signer::MockSigner;
use radicle_node::service::Config;
use radicle_node::storage::git::transport;
use radicle_node::test::environment::{Node, NodeHandle};
use verif_common::*;

struct World {
    _tmp: tempfile::TempDir,
    alice: NodeHandle<MockSigner>,
    bob: NodeHandle<MockSigner>,
    other: radicle::node::NodeId,
    /// third node, spawned for the first history scenario
    eve: Option<NodeHandle<MockSigner>>,
    counter: usize,
}

static WORLD: Mutex<Option<World>> = Mutex::new(None);

fn world_init() -> World {
    // memory-backed scratch space when available: the nodes' SQLite databases and git repositories fsync a lot
    let shm = std::path::Path::new("/dev/shm");
    let tmp = if shm.is_dir() { tempfile::tempdir_in(shm).or_else(|_| tempfile::tempdir()) } else { tempfile::tempdir() }.expect("tempdir");
    let alice = Node::init(tmp.path(), Config::test(Alias::new("alice")));
    let bob = Node::init(tmp.path(), Config::test(Alias::new("bob")));
    let other = Node::init(tmp.path(), Config::test(Alias::new("carol"))).id;
    let mut alice = alice.spawn();
    let bob = bob.spawn();
    alice.connect(&bob);
    transport::local::register(alice.storage.clone());
    World { _tmp: tmp, alice, bob, other, eve: None, counter: 0 }
}

/// Create a fresh repository in the responder's storage.
fn make_repo(w: &mut World, private: bool, allow_r: bool, allow_o: bool, delegate: bool) -> Result<RepoId, String> {
    let mut allow = vec![];
    if allow_r {
        allow.push(w.bob.id.into());
    }
    if allow_o {
        allow.push(w.other.into());
    }
    let vis = if private { Visibility::private(allow) } else { Visibility::Public };
    make_repo_with(w, vis, delegate)
}

/// Create a fresh repository in the responder's storage, with the given visibility; `delegate`: bob is a delegate too.
fn make_repo_with(w: &mut World, vis: Visibility, delegate: bool) -> Result<RepoId, String> {
    w.counter += 1;
    let name = format!("repo{}", w.counter);
    let wd = w._tmp.path().join(format!("wd{}", w.counter));
    let (repo, _) = fixtures::repository(&wd);
    let branch = git::RefString::try_from("master").map_err(|e| e.to_string())?;
    let (rid, _, _) = radicle::rad::init(
        &repo,
        name.as_str().try_into().map_err(|e| format!("{e:?}"))?,
        "c12 scenario",
        branch.clone(),
        vis,
        &w.alice.signer,
        &w.alice.storage,
    )
    .map_err(|e| format!("rad::init: {e}"))?;
    git::push(
        &repo,
        "rad",
        [(
            &git::Qualified::from(git::lit::refs_heads(&branch)),
            &git::Qualified::from(git::lit::refs_heads(&branch)),
        )],
    )
    .map_err(|e| format!("push: {e}"))?;
    let stored = w.alice.storage.repository(rid).map_err(|e| format!("repository: {e}"))?;
    if delegate {
        let mut identity = Identity::load_mut(&stored).map_err(|e| format!("identity: {e}"))?;
        let mut doc = identity.doc().clone().edit();
        doc.delegate(w.bob.id.into());
        let verified = doc.verified().map_err(|e| format!("doc: {e}"))?;
        let rev = identity
            .update("Add delegate", "", &verified, &w.alice.signer)
            .map_err(|e| format!("update: {e}"))?;
        stored.set_identity_head_to(rev.into()).map_err(|e| format!("set head: {e}"))?;
    }
    stored.sign_refs(&w.alice.signer).map_err(|e| format!("sign_refs: {e}"))?;
    Ok(rid)
}

fn ensure_connected(w: &mut World) {
    let connected = w
        .bob
        .handle
        .sessions()
        .map(|s| s.iter().any(|s| s.nid == w.alice.id && s.state.is_connected()))
        .unwrap_or(false);
    if !connected {
        let World { alice, bob, .. } = w;
        alice.connect(bob);
    }
}

enum Attempt {
    Decided { served: bool, fetched: bool, leaked: bool },
    Inconclusive(String),
}

fn attempt(w: &mut World, policy: &str, private: bool, allow_r: bool, allow_o: bool, delegate: bool) -> Attempt {
    ensure_connected(w);
    let rid = match make_repo(w, private, allow_r, allow_o, delegate) {
        Ok(rid) => rid,
        Err(e) => return Attempt::Inconclusive(format!("setup: {e}")),
    };
    // Check the fixture is what the scenario says (through the same storage the worker reads).
    match w.alice.storage.repository(rid).and_then(|r| Ok(radicle::storage::ReadRepository::identity_doc(&r))) {
        Ok(Ok(doc)) => {
            let vis_ok = doc.is_public() != private;
            let del_ok = doc.is_delegate(&w.bob.id.into()) == delegate;
            if !vis_ok || !del_ok {
                return Attempt::Inconclusive("fixture does not match the scenario".into());
            }
        }
        _ => return Attempt::Inconclusive("fixture identity document unreadable".into()),
    }
    match policy {
        "a" => {
            if let Err(e) = w.alice.handle.seed(rid, Scope::All) {
                return Attempt::Inconclusive(format!("seed: {e}"));
            }
        }
        "b" => {
            let db = w.alice.home.node().join(POLICIES_DB_FILE);
            let r = radicle::node::policy::store::Store::open(db)
                .map_err(|e| e.to_string())
                .and_then(|mut s| s.set_seed_policy(&rid, Policy::Block).map_err(|e| e.to_string()));
            if let Err(e) = r {
                return Attempt::Inconclusive(format!("block: {e}"));
            }
        }
        _ => {}
    }
    if let Err(e) = w.bob.handle.seed(rid, Scope::All) {
        return Attempt::Inconclusive(format!("requester seed: {e}"));
    }
    let events = w.alice.handle.events();
    let started = Instant::now();
    let result = w.bob.handle.fetch(rid, w.alice.id, Duration::from_secs(60));
    let fetched = match &result {
        Ok(FetchResult::Success { .. }) => true,
        Ok(FetchResult::Failed { reason }) => {
            let r = reason.to_lowercase();
            if r.contains("timed out") || r.contains("timeout") || r.contains("disconnected") {
                return Attempt::Inconclusive(format!("fetch failed for an unrelated reason: {reason}"));
            }
            false
        }
        Err(e) => return Attempt::Inconclusive(format!("fetch command: {e}")),
    };
    if started.elapsed() > Duration::from_secs(45) {
        return Attempt::Inconclusive("fetch took suspiciously long".into());
    }
    // Did the responder run upload-pack for this requester and repository?
    let mut served = false;
    let deadline = Instant::now() + Duration::from_millis(if fetched { 100 } else { 700 });
    loop {
        let left = deadline.saturating_duration_since(Instant::now());
        match events.recv_timeout(left) {
            Ok(Event::UploadPack(up)) => {
                use radicle::node::events::UploadPack::*;
                let (r, n) = match &up {
                    Done { rid, remote, .. } | Write { rid, remote, .. } | Error { rid, remote, .. } | PackProgress { rid, remote, .. } => (*rid, *remote),
                };
                if r == rid && n == w.bob.id {
                    served = true;
                    break;
                }
            }
            Ok(_) => {}
            Err(_) => break,
        }
    }
    let leaked = !served && !fetched && w.bob.storage.repository(rid).is_ok();
    Attempt::Decided { served, fetched, leaked }
}

fn run_worker(toks: &[&str]) -> Outcome {
    let bad = || Outcome::new("bad-case").trivial();
    if toks.len() != 4 {
        return bad();
    }
    let (policy, vis, allow, deleg) = (toks[0], toks[1], toks[2], toks[3]);
    if !["a", "b", "n"].contains(&policy) || !["p", "r"].contains(&vis) || !["-", "r", "o", "ro"].contains(&allow) || !["0", "1"].contains(&deleg) {
        return bad();
    }
    if vis == "p" && allow != "-" {
        return bad();
    }
    let private = vis == "r";
    let (allow_r, allow_o) = (allow.contains('r'), allow.contains('o'));
    let delegate = deleg == "1";
    let mut guard = WORLD.lock().unwrap();
    if guard.is_none() {
        match catch(world_init) {
            Ok(w) => *guard = Some(w),
            Err(e) => return Outcome::new(format!("inconclusive:world:{e}")).trivial(),
        }
    }
    let w = guard.as_mut().unwrap();
    let mut last = String::new();
    for _try in 0..3 {
        match attempt(w, policy, private, allow_r, allow_o, delegate) {
            Attempt::Inconclusive(why) => {
                last = why;
                continue;
            }
            Attempt::Decided { served, fetched, leaked } => {
                let seeded = policy == "a";
                let visible = !private || allow_r || delegate;
                let allowed = seeded && visible;
                let out = if served || fetched { "served" } else { "refused" };
                let mut o = Outcome::new(out)
                    .tag(format!("w:{out}"))
                    .tag(format!("w:policy-{policy}"))
                    .tag(if !private { "w:public" } else if visible { "w:private-visible" } else { "w:private-invisible" });
                if (served || fetched) && !allowed {
                    o = o.violation(
                        "served-unauthorized",
                        format!(
                            "responder ran upload-pack (served={served}, requester fetch succeeded={fetched}) although seeded={seeded} visible={visible}"
                        ),
                    );
                }
                if leaked {
                    o = o.violation("data-leaked", "repository present in the requester's storage after a refused fetch");
                }
                return o;
            }
        }
    }
    // Never count a timeout as "refused".
    Outcome::new(format!("inconclusive:{}", last.replace(' ', "_"))).tag("w:inconclusive").trivial()
}

// ---- histories -------------------------------------------------------------------------------------

fn vis_of(c: char, eve: radicle::node::NodeId) -> Option<Visibility> {
    match c {
        'p' => Some(Visibility::Public),
        'n' => Some(Visibility::private([])),
        'e' => Some(Visibility::private([eve.into()])),
        _ => None,
    }
}

/// A fetch that must succeed for the scenario to be set up (retried: fetch timeouts are short and the
/// machine may be loaded).
fn fetch_ok(node: &mut NodeHandle<MockSigner>, rid: RepoId, from: radicle::node::NodeId) -> Result<(), String> {
    let mut last = String::new();
    for i in 0..10 {
        match node.handle.fetch(rid, from, Duration::from_secs(60)) {
            Ok(FetchResult::Success { .. }) => return Ok(()),
            Ok(FetchResult::Failed { reason }) => last = reason,
            Err(e) => last = e.to_string(),
        }
        std::thread::sleep(Duration::from_secs(1 + i / 3));
    }
    Err(format!("set-up fetch failed: {last}"))
}

struct HistoryResult {
    served: bool,
    fetched: bool,
    leaked: bool,
    /// the requester may see the repository according to the canonical identity document in alice's storage
    visible_canonical: bool,
    /// ... and according to the document the worker reads (`refs/rad/id`)
    visible_cached: bool,
}

fn history_attempt(w: &mut World, init: char, steps: &[char], requester_is_eve: bool) -> Result<HistoryResult, String> {
    ensure_connected(w);
    if w.eve.is_none() {
        let eve = Node::init(w._tmp.path(), Config::test(Alias::new("eve")));
        let mut eve = eve.spawn();
        eve.connect(&w.alice);
        w.eve = Some(eve);
    }
    let eve_id = w.eve.as_ref().unwrap().id;
    let (alice_id, bob_id) = (w.alice.id, w.bob.id);
    let vis0 = vis_of(init, eve_id).ok_or("bad init")?;
    let rid = make_repo_with(w, vis0, true)?;
    w.alice.handle.seed(rid, Scope::All).map_err(|e| format!("seed: {e}"))?;
    w.bob.handle.seed(rid, Scope::All).map_err(|e| format!("seed: {e}"))?;
    fetch_ok(&mut w.bob, rid, alice_id)?;
    let mut expected = vis_of(init, eve_id).unwrap();
    for c in steps {
        let vis = vis_of(*c, eve_id).ok_or("bad step")?;
        // alice proposes; with two delegates this needs bob's vote
        let rev = {
            let repo = w.alice.storage.repository(rid).map_err(|e| e.to_string())?;
            let mut identity = Identity::load_mut(&repo).map_err(|e| e.to_string())?;
            let mut doc = identity.doc().clone().edit();
            doc.visibility = vis.clone();
            let verified = doc.verified().map_err(|e| e.to_string())?;
            let rev = identity.update("Change visibility", "", &verified, &w.alice.signer).map_err(|e| format!("propose: {e}"))?;
            if identity.revision(&rev).map(|r| r.is_accepted()).unwrap_or(true) {
                return Err("proposal was accepted without the second delegate".into());
            }
            rev
        };
        fetch_ok(&mut w.bob, rid, alice_id)?;
        // bob accepts on his own node
        {
            let repo = w.bob.storage.repository(rid).map_err(|e| e.to_string())?;
            let mut identity = Identity::load_mut(&repo).map_err(|e| e.to_string())?;
            identity.accept(&rev, &w.bob.signer).map_err(|e| format!("accept: {e}"))?;
            identity.reload().map_err(|e| e.to_string())?;
            if !identity.revision(&rev).map(|r| r.is_accepted()).unwrap_or(false) {
                return Err("revision not accepted after the second vote".into());
            }
            repo.set_identity_head_to(rev.into()).map_err(|e| e.to_string())?;
        }
        // the deciding vote reaches alice through a fetch
        fetch_ok(&mut w.alice, rid, bob_id)?;
        expected = vis;
    }
    let requester = if requester_is_eve { eve_id } else { bob_id };
    // the CURRENT identity in alice's storage, independently of refs/rad/id
    let (visible_canonical, visible_cached) = {
        let repo = w.alice.storage.repository(rid).map_err(|e| e.to_string())?;
        let identity = Identity::load(&repo).map_err(|e| format!("canonical identity: {e}"))?;
        let canonical = identity.doc();
        if canonical.visibility() != &expected {
            return Err("canonical identity in the responder's storage is not the one the history produces".into());
        }
        let cached = radicle::storage::ReadRepository::identity_doc(&repo).map_err(|e| e.to_string())?;
        (canonical.is_visible_to(&requester.into()), cached.is_visible_to(&requester.into()))
    };
    let node = if requester_is_eve { w.eve.as_mut().unwrap() } else { &mut w.bob };
    node.handle.seed(rid, Scope::All).map_err(|e| format!("requester seed: {e}"))?;
    let had_repo = node.storage.repository(rid).is_ok();
    let events = w.alice.handle.events();
    let started = Instant::now();
    let fetched = match node.handle.fetch(rid, alice_id, Duration::from_secs(60)) {
        Ok(FetchResult::Success { .. }) => true,
        Ok(FetchResult::Failed { reason }) => {
            let r = reason.to_lowercase();
            if r.contains("timed out") || r.contains("timeout") || r.contains("disconnected") {
                return Err(format!("fetch failed for an unrelated reason: {reason}"));
            }
            false
        }
        Err(e) => return Err(format!("fetch command: {e}")),
    };
    if started.elapsed() > Duration::from_secs(45) {
        return Err("fetch took suspiciously long".into());
    }
    let mut served = false;
    let deadline = Instant::now() + Duration::from_millis(if fetched { 100 } else { 700 });
    loop {
        let left = deadline.saturating_duration_since(Instant::now());
        match events.recv_timeout(left) {
            Ok(Event::UploadPack(up)) => {
                use radicle::node::events::UploadPack::*;
                let (r, n) = match &up {
                    Done { rid, remote, .. } | Write { rid, remote, .. } | Error { rid, remote, .. } | PackProgress { rid, remote, .. } => (*rid, *remote),
                };
                if r == rid && n == requester {
                    served = true;
                    break;
                }
            }
            Ok(_) => {}
            Err(_) => break,
        }
    }
    let leaked = !had_repo && !served && !fetched && node.storage.repository(rid).is_ok();
    Ok(HistoryResult { served, fetched, leaked, visible_canonical, visible_cached })
}

fn run_history(toks: &[&str]) -> Outcome {
    let bad = || Outcome::new("bad-case").trivial();
    if toks.len() != 3 {
        return bad();
    }
    let init: Vec<char> = toks[0].chars().collect();
    if init.len() != 1 || !['p', 'e'].contains(&init[0]) {
        return bad();
    }
    let steps: Vec<char> = if toks[1] == "-" { vec![] } else { toks[1].chars().collect() };
    if steps.len() > 4 || steps.iter().any(|c| !['p', 'n', 'e'].contains(c)) {
        return bad();
    }
    let requester_is_eve = match toks[2] {
        "e" => true,
        "b" => false,
        _ => return bad(),
    };
    let mut guard = WORLD.lock().unwrap();
    if guard.is_none() {
        match catch(world_init) {
            Ok(w) => *guard = Some(w),
            Err(e) => return Outcome::new(format!("inconclusive:world:{e}")).trivial(),
        }
    }
    let w = guard.as_mut().unwrap();
    let mut last = String::new();
    for _try in 0..2 {
        match catch(|| history_attempt(w, init[0], &steps, requester_is_eve)) {
            Err(p) => last = format!("panic: {p}"),
            Ok(Err(why)) => last = why,
            Ok(Ok(r)) => {
                let out = if r.served || r.fetched { "served" } else { "refused" };
                let mut o = Outcome::new(out)
                    .tag(format!("v:{out}"))
                    .tag(format!("v:steps-{}", steps.len()))
                    .tag(if r.visible_canonical { "v:visible-now" } else { "v:invisible-now" });
                if r.visible_canonical != r.visible_cached {
                    o = o.tag("v:cached-head-stale");
                }
                // the repository is seeded in every history: allowed = visible according to the CURRENT identity
                if (r.served || r.fetched) && !r.visible_canonical {
                    o = o.violation(
                        "served-against-current-identity",
                        format!(
                            "responder ran upload-pack (served={}, requester fetch succeeded={}) although the canonical identity document \
                             in its storage hides the repository from the requester (document at refs/rad/id says visible={})",
                            r.served, r.fetched, r.visible_cached
                        ),
                    );
                }
                if r.leaked {
                    o = o.violation("data-leaked", "repository present in the requester's storage after a refused fetch");
                }
                return o;
            }
        }
    }
    Outcome::new(format!("inconclusive:{}", last.replace(' ', "_"))).tag("v:inconclusive").trivial()
}

fn run_case(input: &str) -> Outcome {
    let toks: Vec<&str> = input.split(' ').collect();
    match toks.first().copied() {
        Some("h") => header::run_header(&toks[1..]),
        Some("w") => run_worker(&toks[1..]),
        Some("v") => run_history(&toks[1..]),
        _ => Outcome::new("bad-case").trivial(),
    }
}

fn all_scenarios() -> Vec<String> {
    let mut v = vec![];
    for policy in ["a", "b", "n"] {
        for (vis, allow) in [("p", "-"), ("r", "-"), ("r", "r"), ("r", "o"), ("r", "ro")] {
            for d in ["0", "1"] {
                v.push(format!("w {policy} {vis} {allow} {d}"));
            }
        }
    }
    v
}

fn main() {
    // `c12 mkcase <text>…`: print the `h` case line (with the real graph) for a stream given as text with
    // C-style escapes \0 and \xNN; used to write corpus files.
    let args: Vec<String> = std::env::args().collect();
    if args.get(1).map(|s| s.as_str()) == Some("mkcase") {
        for a in &args[2..] {
            println!("{}", header::header_case(&header::unescape(a), 4));
        }
        return;
    }
    let _ = RepoId::from_str("rad:z3gqcJUoA1n9HaHKufZs5FCSGazv5");
    let mut ctx = Ctx::from_args("C12");
    if !ctx.run_fixed(run_case) {
        let mut rng = ctx.rng();
        // (a) request headers
        for _ in 0..ctx.size(2_000, 50_000) {
            let input = header::gen_header_case(&mut rng);
            let o = run_case(&input);
            ctx.record(&input, o);
        }
        // (b) decision table through the real worker
        // End-to-end scenarios are built in (not corpus files): a scenario that stays inconclusive after its
        // retries (fetch time-outs on an overloaded machine) is NOT recorded — it is neither a pass nor a
        // failure — and is counted in the evidence (`e2e-inconclusive-skipped`, note `skipped`).
        let decisive = ["w a p - 0", "w a r r 0", "w a r - 1", "w a r - 0", "w b p - 0", "w n p - 0"];
        let mut scenarios: Vec<String> = if ctx.quick() {
            decisive.iter().map(|s| s.to_string()).collect()
        } else {
            all_scenarios()
        };
        // (c) histories: visibility changes that reach the serving node through a fetch
        // `v p n e`: made private by the other delegate's first identity operation, then a stranger fetches
        scenarios.push("v p n e".to_string());
        if !ctx.quick() {
            for h in ["v p e e", "v p en e", "v e n e", "v p n b", "v p ne e", "v e np e", "v p - e", "v e - e", "v p nen e"] {
                scenarios.push(h.to_string());
            }
        }
        let mut skipped: Vec<String> = vec![];
        for input in scenarios {
            let o = run_case(&input);
            if o.output.starts_with("inconclusive") {
                ctx.count("e2e-inconclusive-skipped");
                skipped.push(format!("{input} ({})", o.output));
                continue;
            }
            ctx.record(&input, o);
        }
        if !skipped.is_empty() {
            eprintln!("C12: {} end-to-end scenario(s) inconclusive and skipped: {}", skipped.len(), skipped.join("; "));
            ctx.note("skipped", skipped.join("; "));
        }
    }
    // Shut the nodes down and remove their directories.
    if let Some(w) = WORLD.lock().unwrap().take() {
        drop(w);
    }
    ctx.finish(
        "(a) request headers: structured git-upload-pack packet-lines (RepoId in every multibase base incl. broken ones, with/without rad:, \
         host/port/extra variants, non-UTF-8 and multi-byte text, length prefix exact/off-by-n/upper-case/+/boundary 4,1024,1025, truncated and \
         over-long streams, one-byte mutations), read in chunks of 1..4096 bytes; (b) real two-node fetch attempts over \
         policy {allow entry, block entry, none} x visibility {public, private with allow list subset of {requester, other}} x requester is delegate; \
         (c) histories on three real nodes: visibility changes accepted by a second delegate on his node and fetched by the serving node \
         (first identity operation of that delegate / later ones), then a stranger, allow-listed, removed or delegate peer fetches; \
         non-trivial = not a malformed case text and not inconclusive; distinct by input text",
        false,
    );
}
