//! C06 — rejected collaborative-object changes leave no trace in the state.
//!
//! Case: `<changes> <tips> ord=<ranks>` (syntax in `../c05/src/cobworld.rs` / `Driver/C05.lean`). The
//! history — valid changes mixed with multi-action changes whose later action the issue type rejects
//! (invalid title, missing comment, unauthorized action; also single bad actions) at every position of
//! the DAG — is stored as real change commits (history injector: `change::Storage::store` with explicit
//! tips and arbitrary action JSON, as a remote peer's changes would arrive) and evaluated by the real
//! `ChangeGraph::evaluate` + `Issue::apply`. Then the *surviving* sub-history is evaluated on its own:
//! survivors are closed under parents, so it is loaded simply through the tips of the pruned history.
//!
//! Oracle (the property statement on what the real code did): (1) exactly the changes the type rejects
//! and everything depending on them are dropped from the history; (2) the object (full JSON) and the
//! history of the first evaluation equal those of the evaluation of the surviving history alone.

#[path = "../../c05/src/cobworld.rs"]
mod cobworld;
mod idrun;
#[path = "../../c08/src/inject.rs"]
mod inject;

use std::collections::BTreeSet;

use cobworld::*;
use verif_common::*;

fn run_case(w: &mut World, input: &str) -> (String, Outcome) {
    let toks: Vec<&str> = input.split(' ').collect();
    let bad = |i: &str| (i.to_string(), Outcome::new("bad-case").trivial().tag("bad-case"));
    if toks.len() < 2 || toks.len() > 4 {
        return bad(input);
    }
    let Some(chs) = parse_changes(toks[0]) else { return bad(input) };
    let Some(tips) = parse_refs(toks[1], ',') else { return bad(input) };
    if tips.iter().any(|t| matches!(t, Some(i) if *i >= chs.len())) {
        return bad(input);
    }
    w.used += 1;
    let b = match build(w, &chs) {
        Ok(b) => b,
        Err(e) => return (input.to_string(), Outcome::new(format!("store-failed:{e}")).trivial()),
    };
    let canon = format!("{} {} {}", toks[0], toks[1], facts(&b));
    let mut o = Outcome::new("");
    for (i, c) in chs.iter().enumerate() {
        if c.forged == b.sig[i] {
            o.violations.push(("harness-forgery-mismatch".into(), format!("change {i}: forged={} but valid_signatures()={}", c.forged, b.sig[i])));
        }
    }
    let full = eval_issue(w, &b, &tips);
    match full {
        Ok(Some(v)) => {
            let tips2: Vec<Option<usize>> = v.tips.iter().map(|t| Some(*t)).collect();
            let (txt2, json2) = match eval_issue(w, &b, &tips2) {
                Ok(Some(v2)) => (v2.text, v2.json),
                Ok(None) => ("none".into(), String::new()),
                Err(e) => (e, String::new()),
            };
            if txt2 != v.text || json2 != v.json {
                o.violations.push((
                    "rejected-change-left-trace".into(),
                    format!("whole history: {} {} / surviving history alone: {} {}", v.text, v.json, txt2, json2),
                ));
            }
            // (1) which changes must be dropped, from the case text: rejected ones and their descendants
            let reach = closure(&chs, &tips);
            let mut dropped: BTreeSet<usize> = BTreeSet::new();
            for i in 0..chs.len() {
                let dangling = chs[i].parents.contains(&None);
                if reach.contains(&i) && (!accepted(&chs, i) || chs[i].parents.iter().flatten().any(|p| dropped.contains(p))) && !dangling {
                    dropped.insert(i);
                }
            }
            let has_dangling = chs.iter().any(|c| c.parents.contains(&None));
            if !has_dangling {
                let expect: BTreeSet<usize> = reach.iter().copied().filter(|i| !dropped.contains(i)).collect();
                if v.survivors != expect {
                    let class = if v.survivors.iter().any(|i| dropped.contains(i)) { "rejected-change-not-dropped" } else { "valid-change-dropped" };
                    o.violations.push((class.into(), format!("surviving {:?}, expected {:?}", v.survivors, expect)));
                }
            } else {
                o.tags.push("unloadable-parent".into());
            }
            let rejected: Vec<usize> = (1..chs.len()).filter(|i| reach.contains(i) && !accepted(&chs, *i)).collect();
            for i in &rejected {
                o.tags.push(if chs[*i].forged { "rejected-bad-signature".to_string() } else { format!("rejected-{}", chs[*i].kind) });
                let pos = if chs.iter().any(|c| c.parents.contains(&Some(*i))) {
                    if chs[*i].parents == vec![Some(0)] { "pos-below-root" } else { "pos-interior" }
                } else {
                    "pos-tip"
                };
                o.tags.push(pos.into());
                if chs[*i].parents.len() > 1 {
                    o.tags.push("pos-merge".into());
                }
            }
            o.tags.push(if rejected.is_empty() { "no-rejection" } else if dropped.len() > rejected.len() { "rejection-with-dependents" } else { "rejection-leaf-only" }.into());
            o.nontrivial = !rejected.is_empty() && v.survivors.len() >= 2;
            o.output = format!("{}=>{}", v.text, txt2);
        }
        Ok(None) => {
            o.output = "none=>-".into();
            o.nontrivial = false;
            o.tags.push("res-none".into());
        }
        Err(e) => {
            o.output = format!("{e}=>-");
            o.nontrivial = false;
            o.tags.push("res-error".into());
        }
    }
    (canon, o)
}

/// Identity family: `idc <order2> id <repoDoc> <docs> <sigs> <vtable> <order> <op>…` (the part from `id` on is
/// the scenario language of the C04 harness; `vtable`, `order` and `order2` — the evaluation order of the
/// surviving sub-history — are computed here by the real code and written into the recorded case).
fn run_identity(iw: &mut inject::World, repos: &mut idrun::Repos, input: &str) -> (String, Outcome) {
    let body = if input.starts_with("idc ") { input.splitn(3, ' ').nth(2).unwrap_or("") } else { input };
    let Some(mut case) = idrun::parse(body) else {
        return (input.to_string(), Outcome::new("bad-case").trivial().tag("bad-case"));
    };
    let run = match idrun::run_case(iw, repos, &mut case) {
        Ok(r) => r,
        Err(e) => return (input.to_string(), Outcome::new(format!("harness-error:{e}")).trivial().tag("harness-error")),
    };
    let mut o = Outcome::new("");
    o.tags.push("identity".into());
    if run.init.is_none() {
        o.output = format!("{}=>-", run.output);
        o.nontrivial = false;
        o.tags.push("id-init-err".into());
        return (format!("idc - {}", idrun::render(&case)), o);
    }
    let sub = match idrun::eval_sub(iw, repos, &run, &run.tips) {
        Ok(s) => s,
        Err(e) => return (input.to_string(), Outcome::new(format!("harness-error:{e}")).trivial().tag("harness-error")),
    };
    o.output = format!("{}=>{}", run.output, sub.output);
    let rejected: Vec<usize> = run.steps.iter().filter(|s| !s.1).map(|s| s.0).collect();
    o.tags.push(if rejected.is_empty() { "id-no-rejection" } else { "id-rejection" }.into());
    o.nontrivial = !rejected.is_empty();
    if run.json != sub.json || run.tips != sub.tips {
        // the recorded mechanism: an entry accepted with concurrent siblings in the whole history that, evaluated
        // without its (pruned) siblings, has no concurrent entry and is rejected
        let first_diff = sub.steps.iter().find(|(k, ok, _)| run.steps.iter().find(|s| s.0 == *k).map(|s| s.1) != Some(*ok));
        let by_mechanism = match first_diff {
            Some((k, ok, conc)) => {
                let full = run.steps.iter().find(|s| s.0 == *k);
                !*ok && *conc == 0 && matches!(full, Some(f) if f.1 && f.2 > 0)
            }
            None => false,
        };
        let class = if by_mechanism { "identity-concurrent-sibling-pruned" } else { "rejected-change-left-trace" };
        o.violations.push((
            class.into(),
            format!("whole history: {} {:?} / surviving history alone: {} {:?}", run.output, run.tips, sub.output, sub.tips),
        ));
    }
    (format!("idc {} {}", idrun::show_order(&sub.order), idrun::render(&case)), o)
}

fn show_tips(t: &[usize]) -> String {
    if t.is_empty() { "-".into() } else { t.iter().map(|x| x.to_string()).collect::<Vec<_>>().join(",") }
}

/// A valid base history with one rejected kind planted at position `pos`.
fn planted(rng: &mut Rng, n: usize, pos: usize, kind: &str) -> String {
    let mut chs = gen_changes(rng, n, 0, false);
    let root_actor = chs[0].actor;
    let c = &mut chs[pos];
    if kind == "sig" {
        // a valid change of any kind, stored with a signature that does not verify
        c.forged = true;
        return format!("{} {}", show_changes(&chs), show_tips(&heads(&chs)));
    }
    c.kind = kind.to_string();
    match kind {
        "ba" => {
            if c.actor == 0 {
                c.actor = 1 + rng.below(N_ACTORS as u64 - 1) as usize
            }
        }
        "bl" => c.actor = 0,
        "bt" => {
            if rng.chance(3, 4) {
                c.actor = root_actor
            }
        }
        _ => {}
    }
    format!("{} {}", show_changes(&chs), show_tips(&heads(&chs)))
}

fn main() {
    let mut ctx = Ctx::from_args("C06");
    let mut w = World::new();
    let mut iw = inject::World::new();
    let mut repos = idrun::Repos { repos: Default::default() };
    let (inputs, is_replay) = ctx.fixed_inputs();
    for i in inputs {
        let (canon, o) = if i.starts_with("id") { run_identity(&mut iw, &mut repos, &i) } else { run_case(&mut w, &i) };
        ctx.count("corpus-or-replay");
        ctx.record(&canon, o);
    }
    if !is_replay {
        let mut rng = ctx.rng();
        let mut inputs: Vec<String> = vec![];
        // every rejected kind at every position of small histories
        let rounds = ctx.size(1, 6);
        for _ in 0..rounds {
            for n in [2usize, 4, 6] {
                for pos in 1..=n {
                    for kind in KINDS_BAD.iter().chain(["sig"].iter()) {
                        inputs.push(planted(&mut rng, n, pos, kind));
                    }
                }
            }
        }
        // random mixes, several rejected changes per history
        for _ in 0..ctx.size(130, 1200) {
            let n = rng.range(2, ctx.size(9, 12)) as usize;
            let dangling = rng.chance(1, 10);
            let chs = gen_changes(&mut rng, n, 30, dangling);
            inputs.push(format!("{} {}", show_changes(&chs), show_tips(&heads(&chs))));
        }
        for input in inputs {
            if w.used % 60 == 59 {
                w = World::new();
            }
            let (canon, o) = run_case(&mut w, &input);
            ctx.record(&canon, o);
        }
        // identity histories (generator of the C04 harness: delegates and strangers, real signatures over
        // documents or other bytes, duplicated verdicts, redactions, edits, multi-action ops)
        for _ in 0..ctx.size(60, 500) {
            if iw.used % 50 == 49 {
                iw = inject::World::new();
                repos = idrun::Repos { repos: Default::default() };
            }
            let input = idrun::gen_case(&mut rng);
            let (canon, o) = run_identity(&mut iw, &mut repos, &input);
            ctx.record(&canon, o);
        }
    }
    ctx.finish(
        "issue histories stored as real change commits: every rejected kind (invalid second title, redact of a missing comment \
         after a comment, unauthorized assign after a comment, label then invalid title, empty comment, single invalid title) \
         planted at every position of random valid histories of 2/4/6 changes, plus random mixes (2-9, thorough 2-12 changes, ~30% \
         rejected, colliding timestamps, merges); whole-history evaluation vs evaluation of the surviving sub-history; \
         non-trivial = at least one reachable rejected change and >=2 survivors; distinct by input text",
        false,
    );
}
