//! C04 harness (stub: not implemented yet).
fn main() {
    eprintln!("C04: harness not implemented");
    std::process::exit(3);
}
