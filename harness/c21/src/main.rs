//! C21 — textual identifiers: Display / FromStr of `PublicKey`, `Did`, `RepoId`, `Alias`, `UserAgent`.
//!
//! Cases (the same tokens the Lean driver reads, see `lean/HeartwoodModel/Driver/C21.lean`):
//!
//! * `pk <hex32>` / `did <hex32>` / `rid <hex20>` — print the value with `Display`, parse the text with
//!   `FromStr`. Output `<text> <1|0>`.
//! * `pkparse <strhex> <g>` / `didparse …` / `ridparse …` — `FromStr` on an arbitrary string. `g` is the graph
//!   of `multibase::decode` (for the bases the model treats as opaque): `<strhex>=<n|b<hex>>,…` or `-`; it is
//!   checked here against the real `multibase::decode`. Output `ok <valuehex> <canonical text>` | `err`.
//! * `alias <strhex>` / `ua <strhex>` — `Alias::from_str` / `UserAgent::from_str`. Output `ok` | `err`.
//! * `cls <from>` — 256 code points from `from`: `s` ×3 for a non-character, else `0/1` for the one-character
//!   alias, the user agent `/<c>:1/`, the user agent `/a:<c>/` (exhaustive check of the character classes).
//!
//! Every call runs under `catch`: a panic is the outcome `panic` and an oracle violation.

use std::str::FromStr;

use radicle::crypto::PublicKey;
use radicle::git::Oid;
use radicle::identity::{Did, RepoId};
use radicle::node::{Alias, UserAgent};
use verif_common::*;

fn hex_in(bs: &[u8]) -> String {
    if bs.is_empty() { String::new() } else { hex(bs) }
}

fn unhex_in(s: &str) -> Option<Vec<u8>> {
    if s.is_empty() { Some(vec![]) } else if s == "-" { None } else { unhex(s) }
}

fn pk_bytes(k: &PublicKey) -> Vec<u8> {
    let b: &[u8] = k.as_ref();
    b.to_vec()
}

fn string_of(hexs: &str) -> Option<String> {
    String::from_utf8(unhex(hexs)?).ok()
}

/// print → parse for a value; `canon` is the prefix every printed text must have.
fn run_print<T: std::fmt::Display + FromStr + PartialEq>(v: T, canon: &str, what: &str) -> Outcome {
    match catch(|| {
        let t = v.to_string();
        let back = T::from_str(&t).ok();
        (t, back)
    }) {
        Err(m) => Outcome::new("panic").violation("panic", format!("{what}: print/parse panicked: {m}")),
        Ok((t, back)) => {
            let same = back.as_ref() == Some(&v);
            let mut o = Outcome::new(format!("{t} {}", same as u8)).tag(format!("{what}-print"));
            if !same {
                o = o.violation(format!("{what}-roundtrip-differs"), format!("parse(print(v)) != v for text {t}"));
            }
            if !t.starts_with(canon) {
                o = o.violation("print-not-canonical", format!("{what}: printed text {t} does not start with {canon}"));
            }
            o
        }
    }
}

fn check_graph(g: &str) -> bool {
    if g == "-" {
        return true;
    }
    for e in g.split(',') {
        let Some((k, v)) = e.split_once('=') else { return false };
        let Some(k) = unhex_in(k).and_then(|b| String::from_utf8(b).ok()) else { return false };
        let real = multibase::decode(&k).ok().map(|(_, b)| b);
        let claimed = if v == "n" {
            None
        } else if let Some(h) = v.strip_prefix('b') {
            match unhex_in(h) {
                Some(b) => Some(b),
                None => return false,
            }
        } else {
            return false;
        };
        if real != claimed {
            return false;
        }
    }
    true
}

/// parse an arbitrary string; on success print, re-parse, compare.
fn run_parse<T: std::fmt::Display + FromStr + PartialEq>(s: &str, g: &str, canon: &str, what: &str, bytes: impl Fn(&T) -> Vec<u8>) -> Outcome {
    if !check_graph(g) {
        return Outcome::new("bad-case").trivial();
    }
    match catch(|| T::from_str(s).ok().map(|v| {
        let t = v.to_string();
        let back = T::from_str(&t).ok();
        (v, t, back)
    })) {
        Err(m) => Outcome::new("panic").violation("panic", format!("{what}: from_str panicked on {s:?}: {m}")),
        Ok(None) => Outcome::new("err").tag(format!("{what}-parse-err")),
        Ok(Some((v, t, back))) => {
            let mut o = Outcome::new(format!("ok {} {t}", hex(&bytes(&v)))).tag(format!("{what}-parse-ok"));
            if back.as_ref() != Some(&v) {
                o = o.violation("reprint-does-not-parse-back", format!("{what}: parse({s:?}) prints as {t}, which does not parse to the same value"));
            }
            if !t.starts_with(canon) {
                o = o.violation("print-not-canonical", format!("{what}: printed text {t} does not start with {canon}"));
            }
            if s.starts_with(canon) {
                if t != s {
                    o = o.violation("canonical-text-not-unique", format!("{what}: {s:?} is in canonical form but prints as {t}"));
                }
                o = o.tag(format!("{what}-parse-ok-canonical-input"));
            } else {
                o = o.tag(format!("{what}-parse-ok-other-form"));
            }
            o
        }
    }
}

fn run_validated<T: std::fmt::Display + FromStr + PartialEq>(s: &str, what: &str) -> Outcome {
    match catch(|| T::from_str(s).ok().map(|v| {
        let t = v.to_string();
        let back = T::from_str(&t).ok();
        (v, t, back)
    })) {
        Err(m) => Outcome::new("panic").violation("panic", format!("{what}: from_str panicked on {s:?}: {m}")),
        Ok(None) => Outcome::new("err").tag(format!("{what}-err")),
        Ok(Some((v, t, back))) => {
            let mut o = Outcome::new("ok").tag(format!("{what}-ok"));
            if t != s {
                o = o.violation(format!("{what}-print-differs"), format!("parse({s:?}) prints as {t:?}"));
            }
            if back.as_ref() != Some(&v) {
                o = o.violation(format!("{what}-roundtrip-differs"), format!("print(parse({s:?})) does not parse back to the same value"));
            }
            o
        }
    }
}

fn run_cls(from: u32) -> Outcome {
    let mut out = String::new();
    let mut viol = None;
    for cp in from..from + 256 {
        match char::from_u32(cp) {
            None => out.push_str("sss"),
            Some(c) => {
                for s in [c.to_string(), format!("/{c}:1/"), format!("/a:{c}/")].iter().enumerate() {
                    let r = catch(|| if s.0 == 0 { Alias::from_str(s.1).is_ok() } else { UserAgent::from_str(s.1).is_ok() });
                    match r {
                        Ok(b) => out.push(if b { '1' } else { '0' }),
                        Err(m) => {
                            out.push('P');
                            viol = Some(format!("from_str panicked on {:?}: {m}", s.1));
                        }
                    }
                }
            }
        }
    }
    let mut o = Outcome::new(out).tag("cls");
    if let Some(m) = viol {
        o = o.violation("panic", m);
    }
    o
}

fn run_case(input: &str) -> Outcome {
    let bad = || Outcome::new("bad-case").trivial();
    let t: Vec<&str> = input.split(' ').collect();
    match t.as_slice() {
        ["pk", k] | ["did", k] => {
            let Some(k) = unhex(k) else { return bad() };
            let Ok(k) = <[u8; 32]>::try_from(k.as_slice()) else { return bad() };
            let key = PublicKey::from(k);
            if t[0] == "pk" { run_print(key, "z", "pk") } else { run_print(Did::from(key), "did:key:z", "did") }
        }
        ["rid", o] => {
            let Some(o) = unhex(o) else { return bad() };
            if o.len() != 20 {
                return bad();
            }
            let Ok(oid) = Oid::try_from(o.as_slice()) else { return bad() };
            run_print(RepoId::from(oid), "rad:z", "rid")
        }
        ["pkparse", s, g] => {
            let Some(s) = string_of(s) else { return bad() };
            run_parse::<PublicKey>(&s, g, "z", "pk", pk_bytes)
        }
        ["didparse", s, g] => {
            let Some(s) = string_of(s) else { return bad() };
            run_parse::<Did>(&s, g, "did:key:z", "did", |d| pk_bytes(d))
        }
        ["ridparse", s, g] => {
            let Some(s) = string_of(s) else { return bad() };
            run_parse::<RepoId>(&s, g, "rad:z", "rid", |r| { let b: &[u8] = (**r).as_ref(); b.to_vec() })
        }
        ["alias", s] => {
            let Some(s) = string_of(s) else { return bad() };
            let o = run_validated::<Alias>(&s, "alias");
            let n = s.len();
            if (31..=33).contains(&n) { o.tag(format!("alias-len-{n}")) } else { o }
        }
        ["ua", s] => {
            let Some(s) = string_of(s) else { return bad() };
            let o = run_validated::<UserAgent>(&s, "ua");
            let n = s.len();
            if (63..=65).contains(&n) { o.tag(format!("ua-len-{n}")) } else { o }
        }
        ["cls", f] => {
            let Ok(f) = f.parse::<u32>() else { return bad() };
            if f > 0x110000 {
                return bad();
            }
            run_cls(f)
        }
        _ => bad(),
    }
}

// ---------------------------------------------------------------------------------------------
// generation

fn gen_value(rng: &mut Rng, n: usize) -> Vec<u8> {
    let mut v = rng.bytes(n);
    match rng.below(12) {
        0 => v = vec![0; n],
        1 => v = vec![0xff; n],
        2 => {
            // leading zero bytes
            let z = rng.range(1, n as u64 - 1) as usize;
            v[..z].fill(0);
        }
        3 => {
            v = vec![0; n];
            v[n - 1] = rng.range(1, 255) as u8;
        }
        4 => v[0] = 0,
        5 => v[0] = 1,
        _ => {}
    }
    v
}

const BASES: &[multibase::Base] = &[
    multibase::Base::Base58Btc,
    multibase::Base::Base58Flickr,
    multibase::Base::Base16Lower,
    multibase::Base::Base16Upper,
    multibase::Base::Base32Lower,
    multibase::Base::Base32Z,
    multibase::Base::Base36Lower,
    multibase::Base::Base64,
    multibase::Base::Base64UrlPad,
    multibase::Base::Base10,
    multibase::Base::Base2,
    multibase::Base::Base8,
];

const ODD: &[&str] = &["0", "I", "O", "l", " ", "é", "z", "1", "Z", "\u{0}", "日", "/", ":", "=", "+"];

fn mutate_str(rng: &mut Rng, s: &str) -> String {
    let mut cs: Vec<char> = s.chars().collect();
    match rng.below(8) {
        0 if !cs.is_empty() => {
            let i = rng.below(cs.len() as u64) as usize;
            cs.remove(i);
        }
        1 => {
            let i = rng.below(cs.len() as u64 + 1) as usize;
            for (k, c) in rng.pick(ODD).chars().enumerate() {
                cs.insert(i + k, c);
            }
        }
        2 if !cs.is_empty() => {
            let i = rng.below(cs.len() as u64) as usize;
            cs[i] = rng.pick(ODD).chars().next().unwrap();
        }
        3 => cs.truncate(rng.below(cs.len() as u64 + 1) as usize),
        4 if !cs.is_empty() => {
            // another base-58 character at one position
            let i = rng.below(cs.len() as u64) as usize;
            cs[i] = *rng.pick(&['2', '9', 'A', 'H', 'J', 'N', 'P', 'Z', 'a', 'k', 'm', 'z']);
        }
        5 => {
            let k = rng.range(1, 3);
            cs = cs.into_iter().skip(k as usize).collect();
        }
        6 if cs.len() > 2 => {
            let i = rng.below(cs.len() as u64 - 1) as usize;
            cs.swap(i, i + 1);
        }
        _ => cs.extend(rng.pick(ODD).chars()),
    }
    cs.into_iter().collect()
}

/// The graph of `multibase::decode` on the strings the model may hand to it.
fn graph(cands: &[&str]) -> String {
    let mut es: Vec<String> = vec![];
    for c in cands {
        if c.is_empty() || c.starts_with('z') {
            continue;
        }
        let e = match multibase::decode(c) {
            Ok((_, b)) => format!("{}=b{}", hex_in(c.as_bytes()), hex_in(&b)),
            Err(_) => format!("{}=n", hex_in(c.as_bytes())),
        };
        if !es.contains(&e) {
            es.push(e);
        }
    }
    if es.is_empty() { "-".into() } else { es.join(",") }
}

fn parse_case(kind: &str, s: &str) -> String {
    let cands: Vec<&str> = vec![s, s.strip_prefix("did:key:").unwrap_or(s), s.strip_prefix("rad:").unwrap_or(s)];
    format!("{kind} {} {}", hex(s.as_bytes()), graph(&cands))
}

fn gen_parse(rng: &mut Rng) -> String {
    let which = rng.below(3); // 0 pk, 1 did, 2 rid
    let n = if which == 2 { 20 } else { 32 };
    // payload bytes: right / wrong multicodec / wrong length
    let mut val = gen_value(rng, n);
    match rng.below(30) {
        0 => {
            val.pop();
        }
        1 => val.push(rng.next() as u8),
        2 => val.clear(),
        _ => {}
    }
    let mut payload = vec![];
    if which != 2 {
        match rng.below(30) {
            0 => payload.extend([0xec, 0x01]),
            1 => payload.extend([0xed, 0x02]),
            2 => payload.extend([0xed]),
            3 => {}
            _ => payload.extend([0xed, 0x01]),
        }
    }
    payload.extend(&val);
    let base = if rng.chance(2, 3) { multibase::Base::Base58Btc } else { *rng.pick(BASES) };
    let mut s = multibase::encode(base, &payload);
    match (which, rng.below(24)) {
        (1, 0) => {}                                   // did without prefix
        (1, 1) => s = format!("did:key{s}"),
        (1, 2) => s = format!("DID:KEY:{s}"),
        (1, 3) => s = format!("did:key:did:key:{s}"),
        (1, _) => s = format!("did:key:{s}"),
        (2, 0) | (2, 1) => {}                          // rid without prefix (accepted)
        (2, 2) => s = format!("rad:rad:{s}"),
        (2, 3) => s = format!("RAD:{s}"),
        (2, _) => s = format!("rad:{s}"),
        (_, 0) => s = format!("did:key:{s}"),          // pk with a did prefix
        (_, 1) => s = format!("rad:{s}"),
        _ => {}
    }
    for _ in 0..(if rng.chance(1, 7) { rng.range(1, 2) } else { 0 }) {
        s = mutate_str(rng, &s);
    }
    if rng.chance(1, 40) {
        s = (*rng.pick(&["", "z", "did:key:", "rad:", "rad:z", "did:key:z", "é", "\u{0}", "f", "z1", "z11111111111111111111", "m", "🦀z"])).to_string();
    }
    if rng.chance(1, 40) {
        let n = rng.below(12);
        s = (0..n).map(|_| char::from_u32(rng.range(0x20, 0x2ff) as u32).unwrap_or('?')).collect();
    }
    parse_case(["pkparse", "didparse", "ridparse"][which as usize], &s)
}

const ALIAS_CHARS: &[char] = &['a', 'Z', '0', '-', '_', '.', '$', 'é', '©', 'ß', '日', '本', '🦀', '\u{10348}', '~', '!', '/', ':'];
const ALIAS_BAD: &[char] = &[' ', '\n', '\t', '\0', '\u{7f}', '\u{85}', '\u{a0}', '\u{9f}', '\u{80}', '\u{1680}', '\u{2003}', '\u{2028}', '\u{3000}', '\u{200b}', '\u{feff}', '\u{ad}'];

fn gen_alias(rng: &mut Rng) -> String {
    // target byte length around the limit half of the time
    let target = if rng.bool() { rng.range(28, 36) } else { rng.below(40) } as usize;
    let mut s = String::new();
    loop {
        let c = if rng.chance(1, 3) { *rng.pick(ALIAS_CHARS) } else { (b'a' + rng.below(26) as u8) as char };
        if s.len() + c.len_utf8() > target {
            break;
        }
        s.push(c);
    }
    // fill up with ASCII to hit the target exactly when possible
    while s.len() < target && rng.chance(3, 4) {
        s.push('x');
    }
    if rng.chance(1, 5) {
        let c = *rng.pick(ALIAS_BAD);
        let mut cs: Vec<char> = s.chars().collect();
        let i = rng.below(cs.len() as u64 + 1) as usize;
        cs.insert(i, c);
        s = cs.into_iter().collect();
    }
    s
}

fn gen_ua(rng: &mut Rng) -> String {
    let nseg = rng.range(1, 4);
    let word = |rng: &mut Rng, max: u64| -> String {
        let n = rng.range(1, max);
        (0..n).map(|_| *rng.pick(&['r', 'a', 'd', '1', '.', '-', '_', '+', '~', '!', 'Z'])).collect()
    };
    let mut segs: Vec<String> = vec![];
    for _ in 0..nseg {
        let seg = match rng.below(40) {
            0..=7 | 16..=30 => format!("{}:{}", word(rng, 10), word(rng, 10)),
            8..=10 | 31..=39 => word(rng, 12),
            11 => format!(":{}", word(rng, 5)),                 // empty client
            12 => format!("{}:", word(rng, 5)),                 // empty version
            13 => format!("{}:{}", word(rng, 4), rng.pick(&["1 0", "1:0", "é", "1\n", "\u{7f}", "a::b"])), // odd version
            14 => format!("{}:1", rng.pick(&["a b", "é", "a\tb", "\u{7f}", "日本"])),    // odd client
            _ => rng.pick(&["", " ", "é", "a b"]).to_string(),  // odd plain segment
        };
        segs.push(seg);
    }
    let mut s = format!("/{}/", segs.join("/"));
    // pad to the length limit
    if rng.chance(1, 3) {
        let target = rng.range(62, 66) as usize;
        if s.len() < target {
            let pad = "x".repeat(target - s.len());
            s = format!("/{}{}/", pad, &s[1..s.len() - 1]);
        }
    }
    match rng.below(40) {
        0 if !s.is_empty() => {
            s.remove(0);
        }
        1 => {
            s.pop();
        }
        2 => s = "/".into(),
        3 => s = "//".into(),
        4 => s = String::new(),
        5 => s = format!("{s}/"),
        6 => s = "/radicle/".into(),
        _ => {}
    }
    s
}

fn main() {
    let mut ctx = Ctx::from_args("C21");
    if !ctx.run_fixed(run_case) {
        let mut rng = ctx.rng();
        // exhaustive: the character classes of Alias / UserAgent over every code point
        for f in (0..0x110000u32).step_by(256) {
            let input = format!("cls {f}");
            let o = run_case(&input);
            ctx.record(&input, o);
        }
        let n = ctx.size(20_000, 400_000);
        for _ in 0..n {
            let input = match rng.below(20) {
                0..=2 => format!("pk {}", hex(&gen_value(&mut rng, 32))),
                3 => format!("did {}", hex(&gen_value(&mut rng, 32))),
                4..=5 => format!("rid {}", hex(&gen_value(&mut rng, 20))),
                6..=12 => gen_parse(&mut rng),
                13..=15 => format!("alias {}", hex(gen_alias(&mut rng).as_bytes())),
                _ => format!("ua {}", hex(gen_ua(&mut rng).as_bytes())),
            };
            let o = run_case(&input);
            ctx.record(&input, o);
        }
        // observation (not part of the correspondence): `Alias::from(&NodeId)` builds an alias that
        // `Alias::from_str` rejects (48 bytes > 32)
        let nid = PublicKey::from([7u8; 32]);
        let a = Alias::from(&nid);
        ctx.note(
            "alias-from-nodeid",
            format!("Alias::from(&NodeId) = {:?} ({} bytes); Alias::from_str of its text is_ok = {}", a.as_str(), a.as_str().len(), Alias::from_str(a.as_str()).is_ok()),
        );
    }
    ctx.finish(
        "exhaustive over all code points for the Alias / UserAgent character classes (cls, 256 per case); random and extreme \
         32-byte keys / DIDs and 20-byte repository ids (all-zero, all-0xff, leading zero bytes) printed and parsed back; parse \
         stream = canonical texts re-encoded in 12 multibase bases, wrong multicodec prefix, wrong length, missing / doubled / \
         upper-case `did:key:` and `rad:` prefixes, character-level mutations (non-alphabet characters 0 I O l, multi-byte, \
         truncation to short inputs, empty), arbitrary strings; aliases and user agents built around their 32 / 64 byte limits \
         with multi-byte characters, whitespace / control characters, empty client / version, missing slashes. non-trivial = \
         every case; distinct by input text",
        false,
    );
}
