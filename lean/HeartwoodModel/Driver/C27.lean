import HeartwoodModel.Model.Ssh
import HeartwoodModel.Driver.Util
/-! Driver entry for C27. Cases (`<op> <arg>…`, bytes in hex):

* `ident <resp>`   — `request_identities::<PublicKey>` on the response → `ok:<key>,<key>…` | `err` | `panic`
* `sign <resp>`    — `sign` → `ok:<sig>` | `err` | `panic`
* `ext <resp>`     — `query_extension` → `ok:0|1` | `err` | `panic`
* `pkread|sigread|skread <bytes>` — `K::read` on a reader at 0 → `ok:<value>` | `err` | `panic`
* `rtsig <sig64>` / `rtsk <sk64>` — `write`, then `read` → `<written> <result>`
* `rtpk <pk32>`    — `write`, `read_string`, `PublicKey::read` on the blob → `<written> <result>`
* `rtids <pk>,<pk>… <comment>,<comment>…` — identities answer built with the writers, then
  `request_identities` → `<answer> <result>`
-/
namespace HeartwoodModel.Driver.C27
open HeartwoodModel.Ssh HeartwoodModel.Driver.Util

def bytes? (s : String) : Option Bytes := (hexBytes? s).map (·.map UInt8.ofNat)

def hex (b : Bytes) : String := toHex (b.map (·.toNat))

def hexList (bs : List Bytes) : String :=
  if bs.isEmpty then "-" else joinWith "," (bs.map hex)

/-- Comma-separated list of hex byte strings; `-` is the empty list, `_` an empty element. -/
def bytesList? (s : String) : Option (List Bytes) :=
  if s == "-" then some [] else
  (splitOn s ',').mapM fun t => if t == "_" then some [] else bytes? t

def showRes {α : Type} (f : α → String) : Res α → String
  | .ok a => "ok:" ++ f a
  | .err _ => "err"
  | .panic _ => "panic"

def run (args : List String) : String :=
  match args with
  | ["ident", r] =>
    match bytes? r with
    | some r => showRes hexList (requestIdentities r)
    | none => "bad-op"
  | ["sign", r] =>
    match bytes? r with
    | some r => showRes hex (sign r)
    | none => "bad-op"
  | ["ext", r] =>
    match bytes? r with
    | some r => showRes showBool (queryExtension r)
    | none => "bad-op"
  | ["pkread", r] =>
    match bytes? r with
    | some r => showRes (fun p => hex p.1) (pkRead (reader r 0))
    | none => "bad-op"
  | ["sigread", r] =>
    match bytes? r with
    | some r => showRes (fun p => hex p.1) (sigRead (reader r 0))
    | none => "bad-op"
  | ["skread", r] =>
    match bytes? r with
    | some r => showRes (fun p => hex p.1) (skRead (reader r 0))
    | none => "bad-op"
  | ["rtsig", v] =>
    match bytes? v with
    | some v =>
      if v.length = 64 then
        let w := sigWrite v
        hex w ++ " " ++ showRes (fun p => hex p.1) (sigRead (reader w 0))
      else "bad-op"
    | none => "bad-op"
  | ["rtsk", v] =>
    match bytes? v with
    | some v =>
      if v.length = 64 then
        let w := skWrite v
        hex w ++ " " ++ showRes (fun p => hex p.1) (skRead (reader w 0))
      else "bad-op"
    | none => "bad-op"
  | ["rtpk", v] =>
    match bytes? v with
    | some v =>
      if v.length = 32 then
        let w := pkWrite v
        let r : Res Bytes := do
          let (blob, _) ← (reader w 0).readString
          let (pk, _) ← pkRead (reader blob 0)
          pure pk
        hex w ++ " " ++ showRes hex r
      else "bad-op"
    | none => "bad-op"
  | ["rtids", pks, cms] =>
    match bytesList? pks, bytesList? cms with
    | some pks, some cms =>
      if pks.length = cms.length ∧ pks.all (·.length = 32) then
        let w := identitiesAnswer (pks.zip cms)
        hex w ++ " " ++ showRes hexList (requestIdentities w)
      else "bad-op"
    | _, _ => "bad-op"
  | _ => "bad-op"

end HeartwoodModel.Driver.C27
