import HeartwoodModel.Model.Diff
import HeartwoodModel.Lemmas.Diff
/-!
# C30 — Unified diffs round-trip through their text encoding

Property theorems about `Model/Diff.lean` (hunk header, diff line and hunk level of
`crates/radicle-cli/src/git/unified_diff.rs`, as on `/repo` main with the two `fix: cli:` commits
60c76fb and 050b476).
The decoder of a whole `Diff` is libgit2's patch parser: it is exercised by the harness on diffs git
computes between random trees and is *not* covered by these theorems.

* `hunk_header_decode_encode` — every header (numbers in `u32`, one-line text) decodes to itself;
* `mod_decode_encode`, `line_encode_injective` — a newline-terminated diff line decodes to its kind and
  exact content (trailing whitespace included), so the encoding is injective on such lines;
* `hunk_decode_encode` — a hunk as git produces them (header of the form the encoder writes, lines
  newline-terminated, counts and line numbers consistent with the header), followed by any text, is
  decoded by the in-file decoder into the same header and the same lines (same kinds, contents and line
  numbers), consuming exactly its own text;
* `hunk_encode_injective` — two such hunks with the same text have the same header and lines.
-/
set_option linter.unusedSimpArgs false
set_option linter.unusedVariables false
namespace HeartwoodModel.Diff

/-! ## hunk headers -/

/-- The numbers are `u32`s and the trailing text is a single line. -/
structure HunkHeader.Valid (h : HunkHeader) : Prop where
  oldNo : h.oldNo < 4294967296
  oldSize : h.oldSize < 4294967296
  newNo : h.newNo < 4294967296
  newSize : h.newSize < 4294967296
  text : '\n' ∉ h.text

/-- The header line without its final newline. -/
def HunkHeader.encodeBody (h : HunkHeader) : Text :=
  ['@', '@', ' ', '-'] ++ showRange h.oldNo h.oldSize ++ [' ', '+'] ++ showRange h.newNo h.newSize ++
    [' ', '@', '@'] ++ (if h.text.isEmpty then [] else ' ' :: h.text)

theorem HunkHeader.encode_eq (h : HunkHeader) : h.encode = h.encodeBody ++ ['\n'] := rfl

theorem HunkHeader.newline_not_mem_encodeBody (h : HunkHeader) (ht : '\n' ∉ h.text) :
    '\n' ∉ h.encodeBody := by
  have r1 := not_mem_showRange h.oldNo h.oldSize '\n' (by decide) (by decide)
  have r2 := not_mem_showRange h.newNo h.newSize '\n' (by decide) (by decide)
  unfold HunkHeader.encodeBody
  simp only [List.mem_append, not_or]
  refine ⟨⟨⟨⟨⟨by decide, r1⟩, by decide⟩, r2⟩, by decide⟩, ?_⟩
  split
  · simp
  · simp [ht]

theorem decodeHeaderLine_encode (h : HunkHeader) (hv : h.Valid) : decodeHeaderLine h.encode = .ok h := by
  have s1 := not_mem_showRange h.oldNo h.oldSize ' ' (by decide) (by decide)
  have s2 := not_mem_showRange h.newNo h.newSize ' ' (by decide) (by decide)
  have e1 : stripPrefix ['@', '@', ' ', '-'] h.encode =
      some (showRange h.oldNo h.oldSize ++ [' ', '+'] ++
        (showRange h.newNo h.newSize ++ [' ', '@', '@'] ++
          ((if h.text.isEmpty then [] else ' ' :: h.text) ++ ['\n']))) := by
    have := stripPrefix_append ['@', '@', ' ', '-']
      (showRange h.oldNo h.oldSize ++ [' ', '+'] ++
        (showRange h.newNo h.newSize ++ [' ', '@', '@'] ++
          ((if h.text.isEmpty then [] else ' ' :: h.text) ++ ['\n'])))
    rw [← this]
    simp [HunkHeader.encode, List.append_assoc]
  have e2 := splitOnce_of_head_not_mem ' ' ['+'] (showRange h.oldNo h.oldSize)
    (showRange h.newNo h.newSize ++ [' ', '@', '@'] ++
      ((if h.text.isEmpty then [] else ' ' :: h.text) ++ ['\n'])) s1
  have e3 := splitOnce_of_head_not_mem ' ' ['@', '@'] (showRange h.newNo h.newSize)
    ((if h.text.isEmpty then [] else ' ' :: h.text) ++ ['\n']) s2
  have p1 := parseRange_showRange h.oldNo h.oldSize hv.oldNo hv.oldSize
  have p2 := parseRange_showRange h.newNo h.newSize hv.newNo hv.newSize
  unfold decodeHeaderLine
  rw [e1]
  simp only [e2, p1, e3, p2]
  cases ht : h.text with
  | nil =>
    have : stripSuffixNl ['\n'] = [] := rfl
    simp [this]
    cases h
    simp_all
  | cons c t =>
    have : stripSuffixNl (c :: t ++ ['\n']) = c :: t := stripSuffixNl_line (c :: t)
    simp [this]
    cases h
    simp_all

/-- **C30, hunk headers.** Decoding an encoded header gives the header back (and consumes one line). -/
theorem hunk_header_decode_encode (h : HunkHeader) (hv : h.Valid) (rest : Reader) :
    decodeHeader (some h.encode :: rest) = .ok (h, rest) := by
  simp [decodeHeader, decodeHeaderLine_encode h hv]

/-! ## diff lines -/

/-- A line as git hands it over: its content, then exactly one `'\n'`. -/
def LineWF (l : Text) : Prop := ∃ body, l = body ++ ['\n'] ∧ '\n' ∉ body

/-- The line numbers are assigned by the hunk decoder; `Modification::decode` leaves them `0`. -/
def Mod.unnumbered : Mod → Mod
  | .addition l _ => .addition l 0
  | .deletion l _ => .deletion l 0
  | .context l _ _ => .context l 0 0

theorem Mod.encode_of_wf (m : Mod) (hm : LineWF m.line) : m.encode = m.indicator :: m.line := by
  obtain ⟨body, hb, hn⟩ := hm
  unfold Mod.encode
  rw [hb, trimEndNl_line body hn]
  rfl

theorem decodeModLine_encode (m : Mod) (hm : LineWF m.line) : decodeModLine m.encode = .ok m.unnumbered := by
  rw [Mod.encode_of_wf m hm]
  cases m <;> rfl

/-- **C30, diff lines.** An encoded line decodes to the same kind and the same content. -/
theorem mod_decode_encode (m : Mod) (hm : LineWF m.line) (rest : Reader) :
    decodeMod (some m.encode :: rest) = .ok (m.unnumbered, rest) := by
  simp [decodeMod, decodeModLine_encode m hm]

/-- **C30, diff lines.** The encoding is injective on newline-terminated lines: kind and content
(every byte of it, trailing whitespace included) are determined by the text. -/
theorem line_encode_injective (m₁ m₂ : Mod) (h₁ : LineWF m₁.line) (h₂ : LineWF m₂.line)
    (he : m₁.encode = m₂.encode) : m₁.indicator = m₂.indicator ∧ m₁.line = m₂.line := by
  rw [Mod.encode_of_wf m₁ h₁, Mod.encode_of_wf m₂ h₂] at he
  exact List.cons.inj he

/-! ## hunks -/

/-- The lines of a hunk as git produces them for header `h`, from counters `(ol, nl)` on: every line
is newline-terminated, additions are numbered `newNo + nl`, deletions `oldNo + ol`, context lines
both, and at the end the counters equal the sizes announced by the header. -/
def Numbered (h : HunkHeader) : Nat → Nat → List Mod → Prop
  | ol, nl, [] => ol = h.oldSize ∧ nl = h.newSize
  | ol, nl, .addition l n :: ms => LineWF l ∧ n = h.newNo + nl ∧ Numbered h ol (nl + 1) ms
  | ol, nl, .deletion l n :: ms => LineWF l ∧ n = h.oldNo + ol ∧ Numbered h (ol + 1) nl ms
  | ol, nl, .context l o n :: ms =>
    LineWF l ∧ o = h.oldNo + ol ∧ n = h.newNo + nl ∧ Numbered h (ol + 1) (nl + 1) ms

theorem Numbered.le {h : HunkHeader} {ol nl : Nat} {ms : List Mod} (hn : Numbered h ol nl ms) :
    ol ≤ h.oldSize ∧ nl ≤ h.newSize := by
  induction ms generalizing ol nl with
  | nil => obtain ⟨a, b⟩ := hn; omega
  | cons m ms ih =>
    cases m with
    | addition l n => obtain ⟨_, _, h3⟩ := hn; have := ih h3; omega
    | deletion l n => obtain ⟨_, _, h3⟩ := hn; have := ih h3; omega
    | context l o n => obtain ⟨_, _, _, h3⟩ := hn; have := ih h3; omega

theorem Numbered.wf {h : HunkHeader} {ol nl : Nat} {ms : List Mod} (hn : Numbered h ol nl ms) :
    ∀ m ∈ ms, LineWF m.line := by
  induction ms generalizing ol nl with
  | nil => simp
  | cons m ms ih =>
    intro m' hm'
    cases m with
    | addition l n =>
      obtain ⟨h1, _, h3⟩ := hn
      rcases List.mem_cons.mp hm' with rfl | hm'
      · exact h1
      · exact ih h3 m' hm'
    | deletion l n =>
      obtain ⟨h1, _, h3⟩ := hn
      rcases List.mem_cons.mp hm' with rfl | hm'
      · exact h1
      · exact ih h3 m' hm'
    | context l o n =>
      obtain ⟨h1, _, _, h3⟩ := hn
      rcases List.mem_cons.mp hm' with rfl | hm'
      · exact h1
      · exact ih h3 m' hm'

theorem decodeLines_done (h : HunkHeader) (r : Reader) (acc : List Mod) :
    decodeLines h r h.oldSize h.newSize acc = .ok (acc, r) := by
  have hc : ¬ (h.oldSize < h.oldSize ∨ h.newSize < h.newSize) := by omega
  match r with
  | [] => simp [decodeLines, hc]
  | none :: _ => simp [decodeLines, hc]
  | some _ :: _ => simp [decodeLines, hc]

/-- The line loop of `Hunk::decode` reads back the encoded lines of a hunk, numbers included. -/
theorem decodeLines_encoded (h : HunkHeader) (ho : h.oldNo + h.oldSize < 4294967296)
    (hn : h.newNo + h.newSize < 4294967296) (ms : List Mod) (ol nl : Nat) (acc : List Mod) (r : Reader)
    (hnum : Numbered h ol nl ms) :
    decodeLines h (ms.map (fun m => some m.encode) ++ r) ol nl acc = .ok (acc ++ ms, r) := by
  induction ms generalizing ol nl acc with
  | nil =>
    obtain ⟨rfl, rfl⟩ := hnum
    simpa using decodeLines_done h r acc
  | cons m ms ih =>
    have hwf : LineWF m.line := hnum.wf m (by simp)
    have hdec := decodeModLine_encode m hwf
    cases m with
    | addition l n =>
      obtain ⟨_, rfl, h3⟩ := hnum
      have hle := h3.le
      have hcond : ol < h.oldSize ∨ nl < h.newSize := by omega
      have h1 : ¬ (ol > h.oldSize) := by omega
      have h2 : ¬ (nl > h.newSize) := by omega
      have hadd : addU32 h.newNo nl = .ok (h.newNo + nl) := by
        simp [addU32]; omega
      simp only [List.map_cons, List.cons_append, decodeLines, hcond, if_true, h1, h2, if_false, hdec,
        Mod.unnumbered, hadd]
      rw [ih ol (nl + 1) _ h3]
      simp
    | deletion l n =>
      obtain ⟨_, rfl, h3⟩ := hnum
      have hle := h3.le
      have hcond : ol < h.oldSize ∨ nl < h.newSize := by omega
      have h1 : ¬ (ol > h.oldSize) := by omega
      have h2 : ¬ (nl > h.newSize) := by omega
      have hadd : addU32 h.oldNo ol = .ok (h.oldNo + ol) := by
        simp [addU32]; omega
      simp only [List.map_cons, List.cons_append, decodeLines, hcond, if_true, h1, h2, if_false, hdec,
        Mod.unnumbered, hadd]
      rw [ih (ol + 1) nl _ h3]
      simp
    | context l o n =>
      obtain ⟨_, rfl, rfl, h3⟩ := hnum
      have hle := h3.le
      have hcond : ol < h.oldSize ∨ nl < h.newSize := by omega
      have h1 : ¬ (ol > h.oldSize) := by omega
      have h2 : ¬ (nl > h.newSize) := by omega
      have hadd1 : addU32 h.oldNo ol = .ok (h.oldNo + ol) := by
        simp [addU32]; omega
      have hadd2 : addU32 h.newNo nl = .ok (h.newNo + nl) := by
        simp [addU32]; omega
      simp only [List.map_cons, List.cons_append, decodeLines, hcond, if_true, h1, h2, if_false, hdec,
        Mod.unnumbered, hadd1, hadd2]
      rw [ih (ol + 1) (nl + 1) _ h3]
      simp

/-- `read_line` over the encoded lines of a hunk yields them one by one. -/
theorem ofText_lines (ms : List Mod) (hwf : ∀ m ∈ ms, LineWF m.line) (rest : Text) :
    Reader.ofText ((ms.map Mod.encode).flatten ++ rest) =
      ms.map (fun m => some m.encode) ++ Reader.ofText rest := by
  induction ms with
  | nil => simp
  | cons m ms ih =>
    obtain ⟨body, hb, hnl⟩ := hwf m (by simp)
    have hind : m.indicator ≠ '\n' := by cases m <;> simp [Mod.indicator]
    have hnot : '\n' ∉ m.indicator :: body := by
      simp only [List.mem_cons, not_or]
      exact ⟨fun e => hind e.symm, hnl⟩
    have henc : m.encode = (m.indicator :: body) ++ ['\n'] := by
      rw [Mod.encode_of_wf m ⟨body, hb, hnl⟩, hb]; simp
    have := ofText_line (m.indicator :: body) ((ms.map Mod.encode).flatten ++ rest) hnot
    simp only [List.map_cons, List.flatten_cons, henc, List.append_assoc, List.cons_append,
      List.nil_append] at this ⊢
    rw [this, ih (fun m' hm' => hwf m' (by simp [hm']))]

/-- **C30, hunks.** Encode a hunk as git produces them — header `h.encode`, lines `ms` numbered
consistently with `h` — followed by any text; the in-file decoder returns the same header and the same
lines and leaves exactly the following text. (The `old`/`new` ranges it computes are
`no .. no + size + 1`; they are not part of the text and not compared by the property.) -/
theorem hunk_decode_encode (h : HunkHeader) (ms : List Mod) (o n : Nat × Nat) (rest : Text)
    (hv : h.Valid) (ho : h.oldNo + h.oldSize + 1 < 4294967296)
    (hn : h.newNo + h.newSize + 1 < 4294967296) (hnum : Numbered h 0 0 ms) :
    decodeHunk (Reader.ofText (Hunk.encode ⟨h.encode, ms, o, n⟩ ++ rest)) =
      .ok (⟨h.encode, ms, (h.oldNo, h.oldNo + h.oldSize + 1), (h.newNo, h.newNo + h.newSize + 1)⟩,
        Reader.ofText rest) := by
  have hbody := h.newline_not_mem_encodeBody hv.text
  have htrim : trimEndNl h.encode = h.encodeBody := by
    rw [h.encode_eq]; exact trimEndNl_line _ hbody
  have hreader : Reader.ofText (Hunk.encode ⟨h.encode, ms, o, n⟩ ++ rest) =
      some h.encode :: (ms.map (fun m => some m.encode) ++ Reader.ofText rest) := by
    have := ofText_line h.encodeBody ((ms.map Mod.encode).flatten ++ rest) hbody
    simp only [Hunk.encode, htrim, List.append_assoc, List.cons_append, List.nil_append] at this ⊢
    rw [this, ofText_lines ms hnum.wf rest, h.encode_eq]
  have hlines := decodeLines_encoded h (by omega) (by omega) ms 0 0 [] (Reader.ofText rest) hnum
  have hr1 : lineRange h.oldNo h.oldSize = .ok (h.oldNo, h.oldNo + h.oldSize + 1) := by
    have a : h.oldNo + h.oldSize < 4294967296 := by omega
    simp [lineRange, addU32, a, ho]
  have hr2 : lineRange h.newNo h.newSize = .ok (h.newNo, h.newNo + h.newSize + 1) := by
    have a : h.newNo + h.newSize < 4294967296 := by omega
    simp [lineRange, addU32, a, hn]
  rw [hreader]
  unfold decodeHunk
  rw [hunk_header_decode_encode h hv]
  simp only [hlines, List.nil_append, hr1, hr2]

/-- **C30, hunks.** The text determines header and lines: two hunks as git produces them that encode
to the same text have the same header and the same lines. -/
theorem hunk_encode_injective (h₁ h₂ : HunkHeader) (ms₁ ms₂ : List Mod) (o₁ n₁ o₂ n₂ : Nat × Nat)
    (hv₁ : h₁.Valid) (hv₂ : h₂.Valid)
    (ho₁ : h₁.oldNo + h₁.oldSize + 1 < 4294967296) (hn₁ : h₁.newNo + h₁.newSize + 1 < 4294967296)
    (ho₂ : h₂.oldNo + h₂.oldSize + 1 < 4294967296) (hn₂ : h₂.newNo + h₂.newSize + 1 < 4294967296)
    (hnum₁ : Numbered h₁ 0 0 ms₁) (hnum₂ : Numbered h₂ 0 0 ms₂)
    (he : Hunk.encode ⟨h₁.encode, ms₁, o₁, n₁⟩ = Hunk.encode ⟨h₂.encode, ms₂, o₂, n₂⟩) :
    h₁.encode = h₂.encode ∧ ms₁ = ms₂ := by
  have d₁ := hunk_decode_encode h₁ ms₁ o₁ n₁ [] hv₁ ho₁ hn₁ hnum₁
  have d₂ := hunk_decode_encode h₂ ms₂ o₂ n₂ [] hv₂ ho₂ hn₂ hnum₂
  rw [he, d₂] at d₁
  simp only [Res.ok.injEq, Prod.mk.injEq, Hunk.mk.injEq] at d₁
  exact ⟨d₁.1.1.symm, d₁.1.2.1.symm⟩

/-! ## non-vacuity and the pre-fix witnesses -/

def exHeader : HunkHeader := ⟨4, 4, 4, 4, ['x', ' ', '　']⟩
def exLines : List Mod :=
  [.context ['3', '\n'] 4 4, .context ['k', ' ', ' ', '\n'] 5 5, .context ['5', '\n'] 6 6,
   .deletion ['o', 'l', 'd', ' ', '\t', '\n'] 7, .addition ['n', 'e', 'w', '\n'] 7]

example : exHeader.Valid := ⟨by decide, by decide, by decide, by decide, by decide⟩
example : Numbered exHeader 0 0 exLines := by
  simp [Numbered, exLines, exHeader, LineWF]
  refine ⟨⟨['3'], by simp⟩, ⟨['k', ' ', ' '], by simp⟩, ⟨['5'], by simp⟩,
    ⟨['o', 'l', 'd', ' ', '\t'], by simp⟩, ⟨['n', 'e', 'w'], by simp⟩⟩

/-- The header keeps its trailing U+3000, the lines keep their trailing blanks (the two pre-fix
witnesses). -/
example : exHeader.encode = "@@ -4,4 +4,4 @@ x 　\n".toList := by decide
example : (Mod.deletion ['o', 'l', 'd', ' ', '\t', '\n'] 7).encode = "-old \t\n".toList := by decide
/-- What the pre-fix encoders did: `trim_end` makes different lines / headers collide. -/
example : trimEnd "old \t\n".toList = trimEnd "old\n".toList := by decide
example : trimEnd "@@ -4,4 +4,4 @@ x 　\n".toList = trimEnd "@@ -4,4 +4,4 @@ x\n".toList := by decide
/-- Headers with size 1 and without text, decoding of malformed headers. -/
example : (HunkHeader.mk 1 1 0 0 []).encode = "@@ -1 +0,0 @@\n".toList := by decide
example : decodeHeaderLine "@@ -1 +0,0 @@\n".toList = .ok ⟨1, 1, 0, 0, []⟩ := by decide
example : decodeHeaderLine "@@ -1,2 +3,4 @@ fn main() {\n".toList = .ok ⟨1, 2, 3, 4, "fn main() {".toList⟩ := by
  decide
example : decodeHeaderLine "@@ -1,2 +3 @\n".toList = .err .syntax := by decide
example : decodeHeaderLine "@@ -1,x +3 @@\n".toList = .err .parseInt := by decide
example : decodeHeaderLine "@@ -4294967296 +3 @@\n".toList = .err .parseInt := by decide
example : decodeModLine "\\ No newline at end of file\n".toList = .err .syntax := by decide

end HeartwoodModel.Diff
