#!/bin/sh
# Build the framework from files on disk only (offline): Lean models + theorems + per-property
# drivers, then every harness binary against /repo's current working tree.
# A property whose model or harness does not build must not prevent the others from being set up
# (its own check will report the failure), so every step continues on error.
cd "$(dirname "$0")"
export CARGO_NET_OFFLINE=true
rc=0
cd lean
for p in HeartwoodModel/Props/C*.lean; do
  id=$(basename "$p" .lean)
  low=$(echo "$id" | tr 'C' 'c')
  lake build "HeartwoodModel.Props.$id" "driver-$low" >/tmp/setup-lean-$id.log 2>&1 \
    || { echo "setup: lean targets of $id failed (see its check)"; tail -5 /tmp/setup-lean-$id.log; rc=1; }
done
cd ../harness
cargo build --release --workspace --keep-going 2>&1 | tail -3 || rc=1
# per-crate fallback so that one broken crate does not leave the others unbuilt
for d in c[0-9][0-9]; do
  [ -x "../.cache/harness-target/release/$d" ] || cargo build --release -p "$d" >/dev/null 2>&1 \
    || echo "setup: harness $d does not build (see its check)"
done
echo "setup finished (rc=$rc; failures above are reported again by the individual checks)"
exit 0
