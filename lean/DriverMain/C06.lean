import HeartwoodModel.Driver.Loop
import HeartwoodModel.Driver.C06
def main : IO Unit := HeartwoodModel.Driver.driverMain "C06" HeartwoodModel.Driver.C06.run
