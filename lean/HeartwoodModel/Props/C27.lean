import HeartwoodModel.Model.Ssh
import HeartwoodModel.Lemmas.Ssh
/-!
# C27 — SSH agent client never panics and key encodings round-trip

Property theorems about `Model/Ssh.lean` (the code as it is on `/repo` main, with
`fix: ssh: don't panic on malformed agent responses`).

* **never panics**: for *every* response byte string, `request_identities`, `read_signature`/`sign`,
  `query_extension`, and for every cursor (any buffer, any position) the three `Encodable::read`
  implementations, return `.ok _` or `.err _`: no input reaches any of the modelled panic sites
  (slice start/end/order, index, `BigEndian::read_u32` on a short slice, `copy_from_slice`).
* **round trip**: what the writers write reads back unchanged, in any framing context (any bytes
  before and after): `Signature` and `SecretKey` directly; `PublicKey` through the agent framing
  (`read_string`, then `PublicKey::read` on the blob), which is the reading fixed in DESIGN.md §6 C27;
  and a whole `SSH_AGENT_IDENTITIES_ANSWER` listing any number of keys and comments.
-/
set_option linter.unusedSimpArgs false
set_option linter.unusedVariables false
namespace HeartwoodModel.Ssh

/-! ## never panics -/

/-- `PublicKey::read` on any cursor. -/
theorem pk_read_no_panic (c : Cursor) : NoPanic (pkRead c) := by
  unfold pkRead
  refine (readString_noPanic c).bind ?_
  rintro ⟨t, c1⟩ _
  dsimp only
  split
  · refine (readString_noPanic c1).bind ?_
    rintro ⟨s, c2⟩ _
    refine (fromSlice_noPanic 32 s).bind ?_
    intro p _
    simp
  · simp

/-- `Signature::read` on any cursor. -/
theorem sig_read_no_panic (c : Cursor) : NoPanic (sigRead c) := by
  unfold sigRead
  refine (readString_noPanic c).bind ?_
  rintro ⟨buf, c1⟩ _
  dsimp only
  refine (readString_noPanic _).bind ?_
  rintro ⟨t, c2⟩ _
  dsimp only
  split
  · simp
  · refine (readString_noPanic c2).bind ?_
    rintro ⟨s, c3⟩ _
    refine (fromSlice_noPanic 64 s).bind ?_
    intro p _
    simp

/-- `SecretKey::read` on any cursor. -/
theorem sk_read_no_panic (c : Cursor) : NoPanic (skRead c) := by
  unfold skRead
  refine (readString_noPanic c).bind ?_
  rintro ⟨t, c1⟩ _
  dsimp only
  split
  · refine (readString_noPanic c1).bind ?_
    rintro ⟨pub, c2⟩ _
    refine (readString_noPanic c2).bind ?_
    rintro ⟨pair, c3⟩ _
    refine (readString_noPanic c3).bind ?_
    rintro ⟨cm, c4⟩ _
    refine (fromSlice_noPanic 64 pair).bind ?_
    intro key _
    dsimp only
    split <;> simp
  · simp

theorem identLoop_no_panic (n : Nat) (r : Cursor) (keys : List Bytes) :
    NoPanic (identLoop n r keys) := by
  induction n generalizing r keys with
  | zero => simp [identLoop]
  | succ n ih =>
    unfold identLoop
    refine (readString_noPanic r).bind ?_
    rintro ⟨key, r1⟩ _
    refine (readString_noPanic r1).bind ?_
    rintro ⟨cm, r2⟩ _
    dsimp only
    have hp := pk_read_no_panic (reader key 0)
    cases h : pkRead (reader key 0) with
    | ok p => exact ih _ _
    | err e => exact ih _ _
    | panic s => exact absurd h (hp s)

/-- **C27 (a).** Parsing *any* response to `request_identities` yields a list of keys or an error. -/
theorem parse_identities_no_panic (resp : Bytes) : NoPanic (requestIdentities resp) := by
  unfold requestIdentities
  split
  · refine (readU32_noPanic _).bind ?_
    rintro ⟨n, r⟩ _
    exact identLoop_no_panic n r []
  · simp

/-- **C27 (b).** `read_signature` on *any* response (signature blob of any length) yields 64 bytes or
an error. -/
theorem read_signature_no_panic (resp : Bytes) : NoPanic (readSignature resp) := by
  unfold readSignature
  refine (readString_noPanic _).bind ?_
  rintro ⟨body, c1⟩ _
  dsimp only
  refine (readString_noPanic _).bind ?_
  rintro ⟨t, c2⟩ _
  dsimp only
  refine (readString_noPanic _).bind ?_
  rintro ⟨sig, c3⟩ _
  dsimp only
  split
  · simp
  · rename_i h
    have : sig.length = 64 := by simpa using h
    simp [copyFromSlice, this]

/-- `AgentClient::sign`: message-type dispatch plus `read_signature`. -/
theorem sign_no_panic (resp : Bytes) : NoPanic (sign resp) := by
  unfold sign
  split
  · simp
  · rename_i h
    have hne : resp.isEmpty = false := by simpa using h
    obtain ⟨b, hb⟩ := index_zero_of_nonempty hne
    rw [hb]
    simp only [ok_bind]
    split
    · exact read_signature_no_panic resp
    · split <;> simp

/-- `AgentClient::query_extension`. -/
theorem query_extension_no_panic (resp : Bytes) : NoPanic (queryExtension resp) := by
  unfold queryExtension
  refine (readString_noPanic _).bind ?_
  rintro ⟨x, c1⟩ _
  dsimp only
  split
  · simp
  · rename_i h
    have hne : resp.isEmpty = false := by simpa using h
    obtain ⟨b, hb⟩ := index_zero_of_nonempty hne
    rw [hb]
    simp

/-- The statement's wording: every parser "yields a value or an error". -/
theorem agent_response_value_or_error (resp : Bytes) :
    ((∃ ks, requestIdentities resp = .ok ks) ∨ ∃ e, requestIdentities resp = .err e) ∧
    ((∃ sg, sign resp = .ok sg) ∨ ∃ e, sign resp = .err e) ∧
    ((∃ b, queryExtension resp = .ok b) ∨ ∃ e, queryExtension resp = .err e) :=
  ⟨noPanic_cases (parse_identities_no_panic resp), noPanic_cases (sign_no_panic resp),
   noPanic_cases (query_extension_no_panic resp)⟩

/-- A value returned by `sign` is always exactly 64 bytes (it is a `[u8; 64]` in Rust). -/
theorem read_signature_length {resp sg : Bytes} (h : readSignature resp = .ok sg) : sg.length = 64 := by
  unfold readSignature at h
  simp only [reader] at h
  rcases readString_cases ⟨resp, 1⟩ with ⟨l1, h1, _⟩ | h1 <;> rw [h1] at h
  · simp only [ok_bind] at h
    rcases readString_cases ⟨(resp.drop (1 + 4)).take l1, 0⟩ with ⟨l2, h2, _⟩ | h2 <;> rw [h2] at h
    · simp only [ok_bind] at h
      rcases readString_cases ⟨(resp.drop (1 + 4)).take l1, 0 + 4 + l2⟩ with ⟨l3, h3, _⟩ | h3 <;>
        rw [h3] at h
      · simp only [ok_bind] at h
        split at h
        · cases h
        · unfold copyFromSlice at h
          split at h
          · cases h; assumption
          · cases h
      · cases h
    · cases h
  · cases h

/-! ## round trips -/

/-- **C27 (c), signatures.** `Signature::write` then `Signature::read`, anywhere in a buffer. -/
theorem sig_read_write (sig pre rest : Bytes) (hsig : sig.length = 64) :
    sigRead ⟨pre ++ (sigWrite sig ++ rest), pre.length⟩ =
      .ok (sig, ⟨pre ++ (sigWrite sig ++ rest), pre.length + (sigWrite sig).length⟩) := by
  have hinner : (sshString sshEd25519 ++ sshString sig).length = 83 := by
    simp [sshString_length, sshEd25519_length, hsig]
  have e1 := readString_sshString (pre ++ (sigWrite sig ++ rest)) pre.length (pre := pre) (rest := rest)
    (s := sshString sshEd25519 ++ sshString sig) (by omega) rfl rfl
  have e2 := readString_sshString (sshString sshEd25519 ++ sshString sig) 0 (pre := [])
    (rest := sshString sig) (s := sshEd25519) (by decide) rfl rfl
  have e3 := readString_sshString (sshString sshEd25519 ++ sshString sig) (0 + 4 + sshEd25519.length)
    (pre := sshString sshEd25519) (rest := []) (s := sig) (by omega) (by simp)
    (by simp [sshString_length])
  have hf : fromSlice 64 sig = .ok sig := by simp [fromSlice, copyFromSlice, hsig]
  have hl : (sigWrite sig).length = 4 + (sshString sshEd25519 ++ sshString sig).length := by
    simp [sigWrite, sshString_length]
  unfold sigRead
  rw [e1, ok_bind]
  dsimp only [reader]
  rw [e2, ok_bind]
  dsimp only
  rw [if_neg (by simp), e3, ok_bind]
  dsimp only
  rw [hf, ok_bind, hl, Nat.add_assoc]
  rfl

/-- Reading the blob of a public key (what `read_string` hands to `PublicKey::read`). -/
theorem pk_read_blob (pk : Bytes) (hpk : pk.length = 32) :
    ∃ c, pkRead (reader (sshString sshEd25519 ++ sshString pk) 0) = .ok (pk, c) := by
  have e2 := readString_sshString (sshString sshEd25519 ++ sshString pk) 0 (pre := [])
    (rest := sshString pk) (s := sshEd25519) (by decide) rfl rfl
  have e3 := readString_sshString (sshString sshEd25519 ++ sshString pk) (0 + 4 + sshEd25519.length)
    (pre := sshString sshEd25519) (rest := []) (s := pk) (by omega) (by simp)
    (by simp [sshString_length])
  have hf : fromSlice 32 pk = .ok pk := by simp [fromSlice, copyFromSlice, hpk]
  unfold pkRead reader
  rw [e2, ok_bind]
  dsimp only
  rw [if_pos rfl, e3, ok_bind]
  dsimp only
  rw [hf, ok_bind]
  exact ⟨_, rfl⟩

/-- **C27 (c), public keys** (reading fixed in DESIGN.md: through the agent framing).
`PublicKey::write` anywhere in a buffer; `read_string` yields the key blob and advances past it;
`PublicKey::read` on a reader over the blob yields the key. -/
theorem pk_read_write (pk pre rest : Bytes) (hpk : pk.length = 32) :
    ∃ blob c', (Cursor.mk (pre ++ (pkWrite pk ++ rest)) pre.length).readString =
        .ok (blob, ⟨pre ++ (pkWrite pk ++ rest), pre.length + (pkWrite pk).length⟩) ∧
      pkRead (reader blob 0) = .ok (pk, c') := by
  obtain ⟨c', hc'⟩ := pk_read_blob pk hpk
  refine ⟨sshString sshEd25519 ++ sshString pk, c', ?_, hc'⟩
  have hinner : (sshString sshEd25519 ++ sshString pk).length = 51 := by
    simp [sshString_length, sshEd25519_length, hpk]
  have e1 := readString_sshString (pre ++ (pkWrite pk ++ rest)) pre.length (pre := pre) (rest := rest)
    (s := sshString sshEd25519 ++ sshString pk) (by omega) rfl rfl
  rw [e1]
  have : (pkWrite pk).length = 4 + (sshString sshEd25519 ++ sshString pk).length := by
    simp [pkWrite, sshString_length]
  rw [this, Nat.add_assoc]

/-- **C27 (c), secret keys.** `SecretKey::write` then `SecretKey::read`, anywhere in a buffer. -/
theorem sk_read_write (sk pre rest : Bytes) (hsk : sk.length = 64) :
    skRead ⟨pre ++ (skWrite sk ++ rest), pre.length⟩ =
      .ok (sk, ⟨pre ++ (skWrite sk ++ rest), pre.length + (skWrite sk).length⟩) := by
  have hpub : (skPublic sk).length = 32 := by simp [skPublic, hsk]
  have e1 := readString_sshString (pre ++ (skWrite sk ++ rest)) pre.length (pre := pre)
    (rest := sshString (skPublic sk) ++ sshString sk ++ sshString radicleComment ++ rest)
    (s := sshEd25519) (by decide) (by simp [skWrite]) rfl
  have e2 := readString_sshString (pre ++ (skWrite sk ++ rest)) (pre.length + 4 + sshEd25519.length)
    (pre := pre ++ sshString sshEd25519)
    (rest := sshString sk ++ sshString radicleComment ++ rest)
    (s := skPublic sk) (by omega) (by simp [skWrite]) (by simp [sshString_length]; omega)
  have e3 := readString_sshString (pre ++ (skWrite sk ++ rest))
    (pre.length + 4 + sshEd25519.length + 4 + (skPublic sk).length)
    (pre := pre ++ sshString sshEd25519 ++ sshString (skPublic sk))
    (rest := sshString radicleComment ++ rest)
    (s := sk) (by omega) (by simp [skWrite]) (by simp [sshString_length]; omega)
  have e4 := readString_sshString (pre ++ (skWrite sk ++ rest))
    (pre.length + 4 + sshEd25519.length + 4 + (skPublic sk).length + 4 + sk.length)
    (pre := pre ++ sshString sshEd25519 ++ sshString (skPublic sk) ++ sshString sk)
    (rest := rest)
    (s := radicleComment) (by decide) (by simp [skWrite]) (by simp [sshString_length]; omega)
  have hf : fromSlice 64 sk = .ok sk := by simp [fromSlice, copyFromSlice, hsk]
  have hl : pre.length + 4 + sshEd25519.length + 4 + (skPublic sk).length + 4 + sk.length + 4 +
      radicleComment.length = pre.length + (skWrite sk).length := by
    simp [skWrite, sshString_length]; omega
  unfold skRead
  rw [e1, ok_bind]
  dsimp only
  rw [if_pos rfl, e2, ok_bind]
  dsimp only
  rw [e3, ok_bind]
  dsimp only
  rw [e4, ok_bind]
  dsimp only
  rw [hf, ok_bind]
  try dsimp only
  rw [if_neg (by simp), hl]
  rfl

/-- One iteration of the identities loop on a well-formed entry. -/
theorem identLoop_succ_ok {n : Nat} {r r1 r2 c' : Cursor} {keys : List Bytes} {key cm pk : Bytes}
    (h1 : r.readString = .ok (key, r1)) (h2 : r1.readString = .ok (cm, r2))
    (h3 : pkRead (reader key 0) = .ok (pk, c')) :
    identLoop (n + 1) r keys = identLoop n r2 (keys ++ [pk]) := by
  rw [identLoop, h1, ok_bind]
  dsimp only
  rw [h2, ok_bind]
  dsimp only
  rw [h3]

/-- The identities loop reads back a written list of `(key, comment)` entries. -/
theorem identLoop_written (ids : List (Bytes × Bytes)) (pre rest : Bytes) (keys : List Bytes)
    (buf : Bytes)
    (hbuf : buf = pre ++ ((ids.map fun (pk, cm) => pkWrite pk ++ sshString cm).flatten ++ rest))
    (hids : ∀ p ∈ ids, p.1.length = 32 ∧ p.2.length < 4294967296) :
    identLoop ids.length ⟨buf, pre.length⟩ keys = .ok (keys ++ ids.map (·.1)) := by
  induction ids generalizing pre keys with
  | nil => simp [identLoop]
  | cons id ids ih =>
    obtain ⟨pk, cm⟩ := id
    have hpk : pk.length = 32 := (hids (pk, cm) (by simp)).1
    have hcm : cm.length < 4294967296 := (hids (pk, cm) (by simp)).2
    have hinner : (sshString sshEd25519 ++ sshString pk).length = 51 := by
      simp [sshString_length, sshEd25519_length, hpk]
    have hw : (pkWrite pk).length = 55 := by
      simp [pkWrite, sshString_length, sshEd25519_length, hpk]
    obtain ⟨c', hc'⟩ := pk_read_blob pk hpk
    have e1 := readString_sshString buf pre.length (pre := pre)
      (rest := sshString cm ++ ((ids.map fun (pk, cm) => pkWrite pk ++ sshString cm).flatten ++ rest))
      (s := sshString sshEd25519 ++ sshString pk) (by omega)
      (by simp [hbuf, pkWrite]) rfl
    have e2 := readString_sshString buf
      (pre.length + 4 + (sshString sshEd25519 ++ sshString pk).length) (pre := pre ++ pkWrite pk)
      (rest := (ids.map fun (pk, cm) => pkWrite pk ++ sshString cm).flatten ++ rest)
      (s := cm) hcm (by simp [hbuf])
      (by simp only [List.length_append, hw, hinner])
    have ih' := ih (pre ++ pkWrite pk ++ sshString cm) (keys ++ [pk]) (by simp [hbuf])
      (fun p hp => hids p (by simp [hp]))
    have hpos : pre.length + 4 + (sshString sshEd25519 ++ sshString pk).length + 4 + cm.length
        = (pre ++ pkWrite pk ++ sshString cm).length := by
      rw [hinner]
      simp only [List.length_append, hw, sshString_length]; omega
    rw [hpos] at e2
    rw [List.length_cons, identLoop_succ_ok e1 e2 hc', ih']
    simp

/-- **C27 (c), identity lists.** An `SSH_AGENT_IDENTITIES_ANSWER` written with the code's writers for
any list of keys and comments is parsed by `request_identities` into exactly those keys, in order. -/
theorem identities_read_write (ids : List (Bytes × Bytes))
    (hn : ids.length < 4294967296)
    (hids : ∀ p ∈ ids, p.1.length = 32 ∧ p.2.length < 4294967296) :
    requestIdentities (identitiesAnswer ids) = .ok (ids.map (·.1)) := by
  have e1 := readU32_u32be (identitiesAnswer ids) 1 (pre := [msgIdentitiesAnswer])
    (rest := (ids.map fun (pk, cm) => pkWrite pk ++ sshString cm).flatten) (n := ids.length) hn
    (by simp [identitiesAnswer]) rfl
  have e2 := identLoop_written ids (msgIdentitiesAnswer :: u32be ids.length) [] []
    (identitiesAnswer ids) (by simp [identitiesAnswer]) hids
  have hl : (msgIdentitiesAnswer :: u32be ids.length).length = 1 + 4 := rfl
  rw [hl] at e2
  unfold requestIdentities
  have hh : (identitiesAnswer ids).head? = some msgIdentitiesAnswer := rfl
  rw [if_pos hh]
  dsimp only [reader]
  rw [e1, ok_bind]
  dsimp only
  rw [e2]
  simp

/-- A sign response written by an agent (`byte 14, string(string type, string sig)`) with a 64-byte
signature yields that signature, whatever the type string. -/
theorem sign_response_read_write (t sig : Bytes) (ht : t.length < 4294967296 - 200)
    (hsig : sig.length = 64) :
    sign (msgSignResponse :: sshString (sshString t ++ sshString sig)) = .ok sig := by
  have e1 := readString_sshString (msgSignResponse :: sshString (sshString t ++ sshString sig)) 1
    (pre := [msgSignResponse]) (rest := []) (s := sshString t ++ sshString sig)
    (by simp [sshString_length, hsig]; omega) (by simp) rfl
  have e2 := readString_sshString (sshString t ++ sshString sig) 0 (pre := [])
    (rest := sshString sig) (s := t) (by omega) rfl rfl
  have e3 := readString_sshString (sshString t ++ sshString sig) (0 + 4 + t.length)
    (pre := sshString t) (rest := []) (s := sig) (by omega) (by simp)
    (by simp [sshString_length])
  have hi : index (msgSignResponse :: sshString (sshString t ++ sshString sig)) 0 = .ok msgSignResponse :=
    rfl
  have hc : copyFromSlice 64 sig = .ok sig := by simp [copyFromSlice, hsig]
  unfold sign
  rw [if_neg (by simp), hi, ok_bind, if_pos rfl]
  unfold readSignature
  dsimp only [reader]
  rw [e1, ok_bind]
  dsimp only
  rw [e2, ok_bind]
  dsimp only
  rw [e3, ok_bind]
  dsimp only
  rw [if_neg (by simp [hsig]), hc]

/-! ## non-vacuity and the pre-fix witnesses -/

/-- A concrete 32-byte key, and 64-byte signature / secret key. -/
def exPk : Bytes := List.replicate 32 7
def exSig : Bytes := List.replicate 64 9

example : exPk.length = 32 ∧ exSig.length = 64 := by decide
example : sigRead ⟨sigWrite exSig, 0⟩ = .ok (exSig, ⟨sigWrite exSig, 87⟩) := by decide
set_option maxRecDepth 8192 in
example : skRead ⟨skWrite exSig, 0⟩ = .ok (exSig, ⟨skWrite exSig, 130⟩) := by decide
set_option maxRecDepth 8192 in
example : requestIdentities (identitiesAnswer [(exPk, [1, 2]), (exPk, [])]) = .ok [exPk, exPk] := by
  decide
/-- The reading fixed in advance: `PublicKey::write` frames the blob as one SSH string, so a *direct*
`PublicKey::read` of it fails (with an error, not a panic); through `read_string` it succeeds. -/
example : pkRead ⟨pkWrite exPk, 0⟩ = .err .unknownAlg := by decide
/-- The two pre-fix panic witnesses now yield a value / an error: the empty identities response, and a
sign response whose signature blob is 3 bytes long. -/
example : requestIdentities [] = .ok [] := by decide
example : sign (msgSignResponse :: sshString (sshString sshEd25519 ++ sshString [7, 7, 7])) =
    .err .protocol := by decide
/-- A key blob that does not parse is skipped, a truncated list is an error. -/
example : requestIdentities (msgIdentitiesAnswer :: u32be 1 ++ sshString [1] ++ sshString []) = .ok [] := by
  decide
example : requestIdentities (msgIdentitiesAnswer :: u32be 2 ++ pkWrite exPk ++ sshString []) =
    .err .oob := by decide

end HeartwoodModel.Ssh
