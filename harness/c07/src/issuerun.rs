//! Issue cases: text form ⇄ real issue COB history, real evaluation, canonical output.
//! Case syntax: see `lean/HeartwoodModel/Driver/C07.lean`.
#![allow(dead_code)]

use nonempty::NonEmpty;
use radicle::cob;
use radicle::cob::issue::{Action, CloseReason, Issue, State};
use radicle::cob::store::CobWithType as _;
use radicle::cob::Label;
use radicle::git::Oid;
use radicle::identity::doc::Doc;
use radicle::storage::ReadRepository;
use serde_json::Value;

use crate::inject::*;
use crate::patchrun::{id_of, parse_docs, parse_op_generic, show_docs, show_thread, store_history, FAKE_ID_BASE};

#[derive(Clone, Debug, PartialEq)]
pub enum IAct {
    Assign(Vec<u64>),
    Edit(u64, u64),
    Lifecycle(char),
    Label(Vec<u64>),
    Comment(u64, Option<u64>),
    CommentEdit(u64, u64),
    CommentRedact(u64),
    CommentReact(u64),
}

#[derive(Clone, Debug)]
pub struct IOp {
    pub author: usize,
    pub doc: Option<usize>,
    pub ts: u64,
    pub tips: Vec<usize>,
    pub actions: Vec<IAct>,
}

#[derive(Clone, Debug)]
pub struct ICase {
    pub docs: Vec<(Vec<usize>, usize)>,
    pub order: Vec<usize>,
    pub g: String,
    pub ops: Vec<IOp>,
}

fn opt(s: &str) -> Option<Option<u64>> {
    if s == "-" {
        Some(None)
    } else {
        nat(s).map(Some)
    }
}

pub fn parse_action(s: &str) -> Option<IAct> {
    let f = split(s, ',');
    Some(match f.as_slice() {
        ["as", l] => {
            let v = nat_list(l, '+')?;
            if v.iter().any(|a| *a >= N_ACTORS as u64) {
                return None;
            }
            IAct::Assign(v)
        }
        ["ed", t, k] if nat(k)? <= 2 => IAct::Edit(nat(t)?, nat(k)?),
        ["lc", l] if ["o", "s", "c"].contains(l) => IAct::Lifecycle(l.chars().next()?),
        ["lb", l] => IAct::Label(nat_list(l, '+')?),
        ["cm", b, rt] => IAct::Comment(nat(b)?, opt(rt)?),
        ["ce", c, b] => IAct::CommentEdit(nat(c)?, nat(b)?),
        ["cr", c] => IAct::CommentRedact(nat(c)?),
        ["ca", c] => IAct::CommentReact(nat(c)?),
        _ => return None,
    })
}

pub fn show_action(a: &IAct) -> String {
    let plus = |xs: &[u64]| show_list(&xs.iter().map(|x| x.to_string()).collect::<Vec<_>>(), "+");
    let o = |x: &Option<u64>| x.map(|v| v.to_string()).unwrap_or("-".into());
    match a {
        IAct::Assign(l) => format!("as,{}", plus(l)),
        IAct::Edit(t, k) => format!("ed,{t},{k}"),
        IAct::Lifecycle(c) => format!("lc,{c}"),
        IAct::Label(l) => format!("lb,{}", plus(l)),
        IAct::Comment(b, rt) => format!("cm,{b},{}", o(rt)),
        IAct::CommentEdit(c, b) => format!("ce,{c},{b}"),
        IAct::CommentRedact(c) => format!("cr,{c}"),
        IAct::CommentReact(c) => format!("ca,{c}"),
    }
}

fn refs_of(a: &IAct) -> Vec<u64> {
    match a {
        IAct::Comment(_, Some(r)) => vec![*r],
        IAct::CommentEdit(c, _) | IAct::CommentRedact(c) | IAct::CommentReact(c) => vec![*c],
        _ => vec![],
    }
}

pub fn parse(input: &str) -> Option<ICase> {
    let toks: Vec<&str> = input.split(' ').collect();
    if toks.len() < 4 || toks[0] != "issue" {
        return None;
    }
    let docs = parse_docs(toks[1])?;
    let order: Vec<usize> = vec![];
    let mut ops = vec![];
    for (i, t) in toks[3..].iter().enumerate() {
        let (author, doc, ts, tips, actions) = parse_op_generic(t, docs.len(), i, parse_action)?;
        for a in &actions {
            for r in refs_of(a) {
                if r >= i as u64 && r < FAKE_ID_BASE {
                    return None;
                }
            }
        }
        ops.push(IOp { author, doc, ts, tips, actions });
    }
    Some(ICase { docs, order, g: "?".into(), ops })
}

pub fn render(c: &ICase) -> String {
    let mut s = format!(
        "issue {} {}",
        show_docs(&c.docs),
        c.g
    );
    for o in &c.ops {
        s.push_str(&format!(
            " {}:{}:{}:{}:{}",
            o.author,
            o.doc.map(|d| d.to_string()).unwrap_or("x".into()),
            o.ts,
            show_list(&o.tips.iter().map(|x| x.to_string()).collect::<Vec<_>>(), ","),
            o.actions.iter().map(show_action).collect::<Vec<_>>().join("|")
        ));
    }
    s
}

fn body(k: u64) -> String {
    if k == 0 {
        String::new()
    } else {
        format!("b{k}")
    }
}

fn title(t: u64, kind: u64) -> String {
    let base = if t == 0 { String::new() } else { format!("t{t}") };
    match kind {
        0 => base,
        1 => format!("{base}\nx"),
        _ => format!("{base}\rx"),
    }
}

fn to_action(w: &World, ids: &[Oid], a: &IAct) -> Action {
    match a {
        IAct::Assign(l) => Action::Assign { assignees: l.iter().map(|a| w.did(*a as usize)).collect() },
        IAct::Edit(t, k) => Action::Edit { title: title(*t, *k) },
        IAct::Lifecycle(c) => Action::Lifecycle {
            state: match c {
                'o' => State::Open,
                's' => State::Closed { reason: CloseReason::Solved },
                _ => State::Closed { reason: CloseReason::Other },
            },
        },
        IAct::Label(l) => Action::Label { labels: l.iter().map(|k| Label::new(format!("l{k}")).unwrap()).collect() },
        IAct::Comment(b, rt) => Action::Comment { body: body(*b), reply_to: rt.map(|r| id_of(ids, r)), embeds: vec![] },
        IAct::CommentEdit(c, b) => Action::CommentEdit { id: id_of(ids, *c), body: body(*b), embeds: vec![] },
        IAct::CommentRedact(c) => Action::CommentRedact { id: id_of(ids, *c) },
        IAct::CommentReact(c) => Action::CommentReact {
            id: id_of(ids, *c),
            reaction: cob::Reaction::new('👍').unwrap(),
            active: true,
        },
    }
}

pub struct IStep {
    pub op: usize,
    pub ok: bool,
    pub before: Issue,
    pub after: Issue,
}

pub struct IRun {
    pub output: String,
    pub steps: Vec<IStep>,
    pub init: Option<Issue>,
    pub last: Option<Issue>,
    pub docs: Vec<Doc>,
    pub ids: Vec<Oid>,
    pub tags: Vec<String>,
}

pub fn run(w: &mut World, case: &mut ICase) -> Result<IRun, String> {
    w.used += 1;
    let type_name = Issue::type_name().clone();
    let mut doc_commits = vec![];
    let mut docs = vec![];
    for (ds, t) in &case.docs {
        let c = w.doc_commit(ds, *t)?;
        doc_commits.push(c);
        docs.push(w.repo.identity_doc_at(c).map_err(|e| e.to_string())?.doc);
    }
    let meta: Vec<(usize, Option<usize>, u64, Vec<usize>)> =
        case.ops.iter().map(|o| (o.author, o.doc, o.ts, o.tips.clone())).collect();
    let ops = case.ops.clone();
    let (ids, holders) = store_history(
        w,
        &type_name,
        &doc_commits,
        &meta,
        |w, ids, i| {
            let v: Vec<Vec<u8>> =
                ops[i].actions.iter().map(|a| cob::store::encoding::encode(to_action(w, ids, a)).unwrap()).collect();
            NonEmpty::from_vec(v).unwrap()
        },
        |_, _| vec![],
    )?;
    let object = cob::ObjectId::from(ids[0]);
    case.g = graph_token(&w.repo, &ids);
    let res = verif_common::catch(|| cob::get::<Traced<Issue>, _>(&w.repo, &type_name, &object));
    for h in &holders {
        w.remove_ref(h, &type_name, &object);
    }
    let mut tags = vec![];
    let traced = match res {
        Err(_) => {
            case.order = vec![];
            return Ok(IRun { output: "init-panic".into(), steps: vec![], init: None, last: None, docs, ids, tags });
        }
        Ok(Err(_)) | Ok(Ok(None)) => {
            case.order = vec![];
            tags.push("init-err".into());
            return Ok(IRun { output: "init-err".into(), steps: vec![], init: None, last: None, docs, ids, tags });
        }
        Ok(Ok(Some(c))) => c.object,
    };
    let mut order = vec![];
    let mut steps = vec![];
    let mut res_s = String::new();
    let mut prev = traced.init.clone();
    for s in &traced.trace {
        let k = ids.iter().position(|i| *i == s.id).ok_or("unknown entry in trace")?;
        order.push(k);
        res_s.push(if s.ok { 'o' } else { 'e' });
        steps.push(IStep { op: k, ok: s.ok, before: prev.clone(), after: s.after.clone() });
        prev = s.after.clone();
    }
    case.order = order;
    let out = format!(
        "o={};r={};{}",
        show_list(&case.order.iter().map(|x| x.to_string()).collect::<Vec<_>>(), ","),
        if res_s.is_empty() { "-".into() } else { res_s },
        show_issue(w, &ids, &traced.inner)?
    );
    Ok(IRun { output: out, steps, init: Some(traced.init), last: Some(traced.inner), docs, ids, tags })
}

pub fn show_issue(w: &World, ids: &[Oid], i: &Issue) -> Result<String, String> {
    let v = serde_json::to_value(i).map_err(|e| e.to_string())?;
    let t = v["title"].as_str().unwrap_or("??");
    let title = if t.is_empty() { "0".to_string() } else { t[1..].to_string() };
    let st = match v["state"]["status"].as_str().unwrap_or("?") {
        "open" => "open".to_string(),
        "closed" => match v["state"]["reason"].as_str().unwrap_or("?") {
            "solved" => "closed.s".to_string(),
            _ => "closed.o".to_string(),
        },
        o => format!("?{o}"),
    };
    let mut lb: Vec<u64> = v["labels"]
        .as_array()
        .map(|a| a.iter().filter_map(|l| l.as_str().and_then(|s| s[1..].parse().ok())).collect())
        .unwrap_or_default();
    lb.sort();
    let mut asg: Vec<u64> = v["assignees"]
        .as_array()
        .map(|a| a.iter().filter_map(|x| x.as_str().and_then(|s| w.actor_of(s)).map(|a| a as u64)).collect())
        .unwrap_or_default();
    asg.sort();
    Ok(format!(
        "t={title};st={st};lb={};as={};cm={}",
        show_list(&lb.iter().map(|x| x.to_string()).collect::<Vec<_>>(), "+"),
        show_list(&asg.iter().map(|x| x.to_string()).collect::<Vec<_>>(), "+"),
        show_thread(w, ids, &v["thread"], "+", "~")
    ))
}

pub fn to_json(i: &Issue) -> Value {
    serde_json::to_value(i).unwrap_or(Value::Null)
}
