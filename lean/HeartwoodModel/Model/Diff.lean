/-!
# Model of the unified-diff text encoding (C30)

Source modelled: `crates/radicle-cli/src/git/unified_diff.rs` as on `/repo` main, i.e. *with*
`fix: cli: keep trailing whitespace of diff lines when encoding` (60c76fb) and
`fix: cli: keep trailing whitespace of the hunk header when encoding` (050b476):

* `Encode`/`Decode` for `HunkHeader`;
* `Encode`/`Decode` for `Modification` (a diff line);
* `Encode`/`Decode` for `Hunk<Modification>` (the in-file decoder, used by `DiffContent::decode`).

The decoder of a whole `Diff` is libgit2's patch parser (`git2::Diff::from_buffer`); it is exercised by
the harness, not modelled. File headers have an encoder only (libgit2 reads them back).

Text is a list of Unicode scalar values: the code goes through `String` (`from_utf8_lossy` on the way
out, `read_line` into a `String` on the way in), which is the identity on valid UTF-8. A reader is the
list of the lines `BufRead::read_line` yields (each including its `'\n'`, except possibly the last);
a line that is not valid UTF-8 is `none` (`read_line` fails with `InvalidData`).

`u32` arithmetic on line numbers panics on overflow in debug builds: explicit `panic` outcome.
-/
namespace HeartwoodModel.Diff

abbrev Text := List Char

/-- Rust's `char::is_whitespace` (Unicode `White_Space`). -/
def isWs (c : Char) : Bool :=
  let n := c.toNat
  (9 ≤ n && n ≤ 13) || n == 32 || n == 0x85 || n == 0xA0 || n == 0x1680 ||
  (0x2000 ≤ n && n ≤ 0x200A) || n == 0x2028 || n == 0x2029 || n == 0x202F || n == 0x205F ||
  n == 0x3000

def dropEndWhile (p : Char → Bool) (t : Text) : Text := (t.reverse.dropWhile p).reverse

/-- `str::trim_end` -/
def trimEnd (t : Text) : Text := dropEndWhile isWs t

/-- `str::trim_end_matches('\n')` -/
def trimEndNl (t : Text) : Text := dropEndWhile (· == '\n') t

/-- `s.strip_suffix('\n').unwrap_or(s)` -/
def stripSuffixNl (t : Text) : Text :=
  match t.reverse with
  | '\n' :: r => r.reverse
  | _ => t

/-- `str::strip_prefix` -/
def stripPrefix : Text → Text → Option Text
  | [], t => some t
  | _ :: _, [] => none
  | p :: ps, c :: cs => if p = c then stripPrefix ps cs else none

/-- `str::split_once(pat)`: split around the first (leftmost) occurrence of `pat`. -/
def splitOnce (pat : Text) : Text → Option (Text × Text)
  | [] => (stripPrefix pat []).map fun r => ([], r)
  | c :: cs =>
    match stripPrefix pat (c :: cs) with
    | some r => some ([], r)
    | none => (splitOnce pat cs).map fun (a, b) => (c :: a, b)

/-- `format!("{}", n)` for an unsigned integer. -/
def showNat (n : Nat) : Text := Nat.toDigits 10 n

/-- `u32::from_str`: an optional `+`, then one or more ASCII digits, value below `2^32`. -/
def parseU32 (t : Text) : Option Nat :=
  let ds := match t with
    | '+' :: r => r
    | _ => t
  if ds.isEmpty then none
  else if ds.all Char.isDigit then
    let v := Nat.ofDigitChars 10 ds 0
    if v < 4294967296 then some v else none
  else none

inductive Err where
  | eof | syntax | parseInt | io
  deriving Repr, DecidableEq

inductive Res (α : Type) where
  | ok (a : α)
  | err (e : Err)
  | panic (site : String)
  deriving Repr, DecidableEq

/-- Lines still to be read. -/
abbrev Reader := List (Option Text)

/-- The lines `read_line` yields on this text. -/
def splitLines : Text → List Text
  | [] => []
  | c :: cs =>
    if c = '\n' then [c] :: splitLines cs
    else
      match splitLines cs with
      | [] => [[c]]
      | l :: ls => (c :: l) :: ls

def Reader.ofText (t : Text) : Reader := (splitLines t).map some

/-! ## `HunkHeader` -/

structure HunkHeader where
  oldNo : Nat
  oldSize : Nat
  newNo : Nat
  newSize : Nat
  text : Text
  deriving Repr, DecidableEq

def showRange (no size : Nat) : Text :=
  if size = 1 then showNat no else showNat no ++ ',' :: showNat size

/-- `<HunkHeader as Encode>::encode`: one `writeln!`. -/
def HunkHeader.encode (h : HunkHeader) : Text :=
  ['@', '@', ' ', '-'] ++ showRange h.oldNo h.oldSize ++ [' ', '+'] ++ showRange h.newNo h.newSize ++
    [' ', '@', '@'] ++ (if h.text.isEmpty then [] else ' ' :: h.text) ++ ['\n']

/-- `"a,b"` or `"a"` (size 1): `split_once(',').unwrap_or((s, "1"))`, then two `parse()?`. -/
def parseRange (t : Text) : Option (Nat × Nat) :=
  let (no, size) := match splitOnce [','] t with
    | some (a, b) => (a, b)
    | none => (t, ['1'])
  match parseU32 no with
  | none => none
  | some n =>
    match parseU32 size with
    | none => none
    | some s => some (n, s)

/-- `<HunkHeader as Decode>::decode` on the line just read. -/
def decodeHeaderLine (line : Text) : Res HunkHeader :=
  match stripPrefix ['@', '@', ' ', '-'] line with
  | none => .err .syntax
  | some s =>
    match splitOnce [' ', '+'] s with
    | none => .err .syntax
    | some (old, s) =>
      match parseRange old with
      | none => .err .parseInt
      | some (oldNo, oldSize) =>
        match splitOnce [' ', '@', '@'] s with
        | none => .err .syntax
        | some (new, s) =>
          match parseRange new with
          | none => .err .parseInt
          | some (newNo, newSize) =>
            let s := match s with
              | ' ' :: r => r
              | _ => s
            .ok { oldNo, oldSize, newNo, newSize, text := stripSuffixNl s }

/-- `<HunkHeader as Decode>::decode` -/
def decodeHeader : Reader → Res (HunkHeader × Reader)
  | [] => .err .eof
  | none :: _ => .err .io
  | some line :: rest =>
    match decodeHeaderLine line with
    | .ok h => .ok (h, rest)
    | .err e => .err e
    | .panic s => .panic s

/-! ## `Modification` -/

inductive Mod where
  | addition (line : Text) (lineNo : Nat)
  | deletion (line : Text) (lineNo : Nat)
  | context (line : Text) (lineNoOld lineNoNew : Nat)
  deriving Repr, DecidableEq

def Mod.line : Mod → Text
  | .addition l _ => l
  | .deletion l _ => l
  | .context l _ _ => l

/-- The indicator character. -/
def Mod.indicator : Mod → Char
  | .addition _ _ => '+'
  | .deletion _ _ => '-'
  | .context _ _ _ => ' '

/-- `<Modification as Encode>::encode`: the indicator, the line without its trailing newlines, and
the newline `writeln!` adds. -/
def Mod.encode (m : Mod) : Text := m.indicator :: trimEndNl m.line ++ ['\n']

/-- `<Modification as Decode>::decode` on the line just read (line numbers are set by the caller). -/
def decodeModLine : Text → Res Mod
  | [] => .err .eof
  | '+' :: r => .ok (.addition r 0)
  | '-' :: r => .ok (.deletion r 0)
  | ' ' :: r => .ok (.context r 0 0)
  | _ :: _ => .err .syntax

/-- `<Modification as Decode>::decode` -/
def decodeMod : Reader → Res (Mod × Reader)
  | [] => .err .eof
  | none :: _ => .err .io
  | some line :: rest =>
    match decodeModLine line with
    | .ok m => .ok (m, rest)
    | .err e => .err e
    | .panic s => .panic s

/-! ## `Hunk<Modification>` -/

structure Hunk where
  header : Text
  lines : List Mod
  old : Nat × Nat
  new : Nat × Nat
  deriving Repr, DecidableEq

/-- `u32` addition (panics on overflow in debug builds). -/
def addU32 (a b : Nat) : Res Nat :=
  if a + b < 4294967296 then .ok (a + b) else .panic "attempt to add with overflow"

/-- The `while old_line < old_size || new_line < new_size` loop of `Hunk::decode`; one line of input
per iteration. `Modification::try_decode` maps end of input to `None`, which is a syntax error here. -/
def decodeLines (h : HunkHeader) : Reader → Nat → Nat → List Mod → Res (List Mod × Reader)
  | [], oldLine, newLine, acc =>
    if oldLine < h.oldSize ∨ newLine < h.newSize then .err .syntax
    else .ok (acc, [])
  | none :: rest, oldLine, newLine, acc =>
    if oldLine < h.oldSize ∨ newLine < h.newSize then
      if oldLine > h.oldSize then .err .syntax
      else if newLine > h.newSize then .err .syntax
      else .err .io
    else .ok (acc, none :: rest)
  | some line :: rest, oldLine, newLine, acc =>
    if oldLine < h.oldSize ∨ newLine < h.newSize then
      if oldLine > h.oldSize then .err .syntax
      else if newLine > h.newSize then .err .syntax
      else
        match decodeModLine line with
        | .err .eof => .err .syntax
        | .err e => .err e
        | .panic s => .panic s
        | .ok (.addition l _) =>
          match addU32 h.newNo newLine with
          | .ok n => decodeLines h rest oldLine (newLine + 1) (acc ++ [.addition l n])
          | .err e => .err e
          | .panic s => .panic s
        | .ok (.deletion l _) =>
          match addU32 h.oldNo oldLine with
          | .ok n => decodeLines h rest (oldLine + 1) newLine (acc ++ [.deletion l n])
          | .err e => .err e
          | .panic s => .panic s
        | .ok (.context l _ _) =>
          match addU32 h.oldNo oldLine with
          | .ok o =>
            match addU32 h.newNo newLine with
            | .ok n => decodeLines h rest (oldLine + 1) (newLine + 1) (acc ++ [.context l o n])
            | .err e => .err e
            | .panic s => .panic s
          | .err e => .err e
          | .panic s => .panic s
    else .ok (acc, some line :: rest)

/-- `HunkHeader::old_line_range` / `new_line_range`: `no .. no + size + 1`. -/
def lineRange (no size : Nat) : Res (Nat × Nat) :=
  match addU32 no size with
  | .ok e =>
    match addU32 e 1 with
    | .ok e1 => .ok (no, e1)
    | .err x => .err x
    | .panic s => .panic s
  | .err x => .err x
  | .panic s => .panic s

/-- `<Hunk<Modification> as Decode>::decode` -/
def decodeHunk (r : Reader) : Res (Hunk × Reader) :=
  match decodeHeader r with
  | .err e => .err e
  | .panic s => .panic s
  | .ok (h, r) =>
    match decodeLines h r 0 0 [] with
    | .err e => .err e
    | .panic s => .panic s
    | .ok (lines, r) =>
      match lineRange h.oldNo h.oldSize, lineRange h.newNo h.newSize with
      | .ok o, .ok n => .ok ({ header := h.encode, lines, old := o, new := n }, r)
      | .panic s, _ => .panic s
      | _, .panic s => .panic s
      | .err e, _ => .err e
      | _, .err e => .err e

/-- `<Hunk<Modification> as Encode>::encode`: the header without its trailing newlines, then the lines. -/
def Hunk.encode (h : Hunk) : Text :=
  trimEndNl h.header ++ ['\n'] ++ (h.lines.map Mod.encode).flatten

end HeartwoodModel.Diff
