//! C23 — radicle-dag. Drives the real `Dag<u64, u64>` with a construction script and one query.
//!
//! Case: `<script> <query> <arg>…` (the same tokens the Lean driver reads)
//!   script  = comma list of `n<k>:<v>` (node), `d<a>:<b>` (dependency a→b), `x<k>` (remove); `-` = empty
//!   queries = `dump` | `orders <k>` (same graph with the edges inserted in up to k orders) | `sorted <ranks>` | `fold <roots> <brk>` | `prune <roots> <brk> <mode>` |
//!             `remove <k>` | `merge <script2>`
//!   ranks   = comma list `k:r` (default rank 0) — `sorted_by` compares ranks only (ties exercise stability)
//!   brk     = keys at which the filter answers `Break`
//!   mode    = ordering of `prune_by`: 0 key, 1 value only, 2 (value, key), 3 key descending
//! Output: `ok <…>` / `panic`. Dump = `k:v:deps:dependents;…|tips|roots` through the public API
//! (`get` over every key mentioned in the case, `tips()`, `roots()`).
//!
//! Oracle: the property statement evaluated on what the real code did, for *clean* scripts (fresh
//! `n`, then `d` between existing nodes: a closed graph) that are acyclic.

use std::collections::{BTreeMap, BTreeSet};
use std::ops::ControlFlow;

use radicle_dag::Dag;
use verif_common::*;

type G = Dag<u64, u64>;

#[derive(Clone, Debug)]
enum Op {
    Node(u64, u64),
    Dep(u64, u64),
    Remove(u64),
}

fn pair(s: &str) -> Option<(u64, u64)> {
    let (a, b) = s.split_once(':')?;
    if b.contains(':') {
        return None;
    }
    Some((a.parse().ok()?, b.parse().ok()?))
}

fn parse_script(s: &str) -> Option<Vec<Op>> {
    if s == "-" {
        return Some(vec![]);
    }
    s.split(',')
        .map(|t| {
            let (h, r) = t.split_at(t.chars().next()?.len_utf8());
            match h {
                "n" => pair(r).map(|(k, v)| Op::Node(k, v)),
                "d" => pair(r).map(|(a, b)| Op::Dep(a, b)),
                "x" => r.parse().ok().map(Op::Remove),
                _ => None,
            }
        })
        .collect()
}

fn list(s: &str) -> Option<Vec<u64>> {
    if s == "-" || s.is_empty() {
        return Some(vec![]);
    }
    s.split(',').map(|x| x.parse().ok()).collect()
}

fn build(ops: &[Op]) -> G {
    let mut g = G::new();
    for op in ops {
        match op {
            Op::Node(k, v) => {
                g.node(*k, *v);
            }
            Op::Dep(a, b) => g.dependency(*a, *b),
            Op::Remove(k) => {
                g.remove(k);
            }
        }
    }
    g
}

fn keys_of(ops: &[Op], uni: &mut BTreeSet<u64>) {
    for op in ops {
        match op {
            Op::Node(k, _) | Op::Remove(k) => {
                uni.insert(*k);
            }
            Op::Dep(a, b) => {
                uni.insert(*a);
                uni.insert(*b);
            }
        }
    }
}

fn show(xs: impl IntoIterator<Item = u64>) -> String {
    let v: Vec<String> = xs.into_iter().map(|x| x.to_string()).collect();
    if v.is_empty() {
        "_".into()
    } else {
        v.join("+")
    }
}

/// (nodes: key -> (value, deps, dependents), tips, roots) as seen through the public API.
type View = (BTreeMap<u64, (u64, Vec<u64>, Vec<u64>)>, Vec<u64>, Vec<u64>);

fn view(g: &G, uni: &BTreeSet<u64>) -> View {
    let mut nodes = BTreeMap::new();
    for k in uni {
        if let Some(n) = g.get(k) {
            nodes.insert(*k, (n.value, n.dependencies.iter().copied().collect(), n.dependents.iter().copied().collect()));
        }
    }
    (nodes, g.tips().map(|(k, _)| *k).collect(), g.roots().map(|(k, _)| *k).collect())
}

fn dump(v: &View) -> String {
    let nodes: Vec<String> =
        v.0.iter().map(|(k, (val, d, t))| format!("{k}:{val}:{}:{}", show(d.iter().copied()), show(t.iter().copied()))).collect();
    format!("{}|{}|{}", nodes.join(";"), show(v.1.iter().copied()), show(v.2.iter().copied()))
}

/// The abstract graph of a clean script: nodes with values, edges `a depends on b`.
struct Abs {
    val: BTreeMap<u64, u64>,
    deps: BTreeMap<u64, BTreeSet<u64>>,
    dependents: BTreeMap<u64, BTreeSet<u64>>,
}

impl Abs {
    /// `None` if the script is not clean (re-inserted node, edge with a missing end, remove).
    fn of(ops: &[Op]) -> Option<Abs> {
        let mut a = Abs { val: BTreeMap::new(), deps: BTreeMap::new(), dependents: BTreeMap::new() };
        for op in ops {
            match op {
                Op::Node(k, v) => {
                    if a.val.insert(*k, *v).is_some() {
                        return None;
                    }
                    a.deps.insert(*k, BTreeSet::new());
                    a.dependents.insert(*k, BTreeSet::new());
                }
                Op::Dep(x, y) => {
                    if !a.val.contains_key(x) || !a.val.contains_key(y) {
                        return None;
                    }
                    a.deps.get_mut(x).unwrap().insert(*y);
                    a.dependents.get_mut(y).unwrap().insert(*x);
                }
                Op::Remove(_) => return None,
            }
        }
        Some(a)
    }
    /// strict descendants (transitive dependents)
    fn desc(&self, k: u64) -> BTreeSet<u64> {
        let mut out = BTreeSet::new();
        let mut st: Vec<u64> = self.dependents.get(&k).map(|s| s.iter().copied().collect()).unwrap_or_default();
        while let Some(x) = st.pop() {
            if out.insert(x) {
                st.extend(self.dependents[&x].iter().copied());
            }
        }
        out
    }
    fn anc(&self, k: u64) -> BTreeSet<u64> {
        let mut out = BTreeSet::new();
        let mut st: Vec<u64> = self.deps.get(&k).map(|s| s.iter().copied().collect()).unwrap_or_default();
        while let Some(x) = st.pop() {
            if out.insert(x) {
                st.extend(self.deps[&x].iter().copied());
            }
        }
        out
    }
    fn acyclic(&self) -> bool {
        self.val.keys().all(|k| !self.desc(*k).contains(k))
    }
    /// the view the real graph must have when only the nodes of `keep` survive
    fn restricted(&self, keep: &BTreeSet<u64>) -> View {
        let mut nodes = BTreeMap::new();
        let (mut tips, mut roots) = (vec![], vec![]);
        for k in keep {
            let d: Vec<u64> = self.deps[k].iter().copied().collect();
            let t: Vec<u64> = self.dependents[k].iter().copied().filter(|x| keep.contains(x)).collect();
            if t.is_empty() {
                tips.push(*k);
            }
            if d.is_empty() {
                roots.push(*k);
            }
            nodes.insert(*k, (self.val[k], d, t));
        }
        (nodes, tips, roots)
    }
    fn reach(&self, roots: &[u64]) -> BTreeSet<u64> {
        let mut out = BTreeSet::new();
        for r in roots {
            if self.val.contains_key(r) {
                out.insert(*r);
                out.extend(self.desc(*r));
            }
        }
        out
    }
}

/// The calls a fold/prune must make: reachable nodes that are not strict descendants of a node that was
/// itself called and answered Break. Returns (called set, broken set).
fn expected_calls(a: &Abs, roots: &[u64], brk: &[u64]) -> (BTreeSet<u64>, BTreeSet<u64>) {
    let reach = a.reach(roots);
    // process in an order where ancestors come first: repeatedly take nodes whose ancestors are decided
    let mut called: BTreeMap<u64, bool> = BTreeMap::new();
    let mut todo: Vec<u64> = reach.iter().copied().collect();
    while !todo.is_empty() {
        let before = todo.len();
        todo.retain(|x| {
            let anc: Vec<u64> = a.anc(*x).into_iter().filter(|y| reach.contains(y)).collect();
            if anc.iter().all(|y| called.contains_key(y)) {
                let c = !anc.iter().any(|b| brk.contains(b) && called[b]);
                called.insert(*x, c);
                false
            } else {
                true
            }
        });
        if todo.len() == before {
            break;
        }
    }
    let c: BTreeSet<u64> = called.iter().filter(|(_, v)| **v).map(|(k, _)| *k).collect();
    let b = c.iter().copied().filter(|k| brk.contains(k)).collect();
    (c, b)
}

fn check_order(a: &Abs, order: &[u64], class: &str, o: &mut Outcome) {
    let pos: BTreeMap<u64, usize> = order.iter().enumerate().map(|(i, k)| (*k, i)).collect();
    if pos.len() != order.len() {
        o.violations.push((class.into(), format!("a key is visited twice: {order:?}")));
        return;
    }
    for (v, i) in &pos {
        for u in a.anc(*v) {
            if let Some(j) = pos.get(&u) {
                if j > i {
                    o.violations.push((class.into(), format!("{v} visited before its dependency {u}: {order:?}")));
                    return;
                }
            }
        }
    }
}

fn run_case(input: &str) -> Outcome {
    let toks: Vec<&str> = input.split(' ').collect();
    if toks.len() < 2 {
        return Outcome::new("bad-case").trivial();
    }
    let Some(ops) = parse_script(toks[0]) else { return Outcome::new("bad-case").trivial() };
    let mut uni = BTreeSet::new();
    keys_of(&ops, &mut uni);
    let abs = Abs::of(&ops).filter(|a| a.acyclic());
    let mut o = Outcome::new("");
    o.tags.push(format!("q-{}", toks[1]));
    o.tags.push(if abs.is_some() { "graph-clean-acyclic" } else { "graph-irregular" }.into());
    let n_nodes = abs.as_ref().map(|a| a.val.len()).unwrap_or(0);
    o.tags.push(format!("nodes-{}", match n_nodes { 0 => "0", 1..=3 => "1-3", 4..=5 => "4-5", 6..=12 => "6-12", _ => "13+" }));
    let res: Result<String, String> = match (toks[1], &toks[2..]) {
        ("dump", []) => catch(|| {
            let g = build(&ops);
            let v = view(&g, &uni);
            if let Some(a) = &abs {
                let keep: BTreeSet<u64> = a.val.keys().copied().collect();
                if v != a.restricted(&keep) {
                    o.violations.push(("build-inconsistent".into(), format!("built graph {} differs from its script", dump(&v))));
                }
            }
            format!("ok {}", dump(&v))
        }),
        ("orders", [k]) => {
            // the same nodes and edges, with the `dependency` calls in (up to) k different orders: the graph built
            // must not depend on the insertion order
            let Ok(k) = k.parse::<usize>() else { return Outcome::new("bad-case").trivial() };
            let nodes: Vec<Op> = ops.iter().filter(|o| matches!(o, Op::Node(..))).cloned().collect();
            let deps: Vec<Op> = ops.iter().filter(|o| matches!(o, Op::Dep(..))).cloned().collect();
            if nodes.len() + deps.len() != ops.len() {
                return Outcome::new("bad-case").trivial();
            }
            catch(|| {
                let g0 = build(&ops);
                let v0 = view(&g0, &uni);
                let mut idx: Vec<usize> = (0..deps.len()).collect();
                let mut n = 0;
                // lexicographic permutations of the edge list
                loop {
                    let mut ops2 = nodes.clone();
                    ops2.extend(idx.iter().map(|i| deps[*i].clone()));
                    let v = view(&build(&ops2), &uni);
                    if v != v0 {
                        o.violations.push(("build-order-dependent".into(), format!("edge order {idx:?} builds {} instead of {}", dump(&v), dump(&v0))));
                        break;
                    }
                    n += 1;
                    if n >= k {
                        break;
                    }
                    // next permutation
                    let Some(i) = (0..idx.len().saturating_sub(1)).rev().find(|i| idx[*i] < idx[*i + 1]) else { break };
                    let j = (i + 1..idx.len()).rev().find(|j| idx[*j] > idx[i]).unwrap();
                    idx.swap(i, j);
                    idx[i + 1..].reverse();
                }
                o.tags.push(format!("orders-tried-{}", match n { 0..=1 => "1", 2..=6 => "2-6", 7..=24 => "7-24", _ => "25+" }));
                format!("ok {}", dump(&v0))
            })
        }
        ("sorted", [rk]) => {
            let Some(rk) = (if *rk == "-" { Some(vec![]) } else { rk.split(',').map(pair).collect::<Option<Vec<_>>>() }) else {
                return Outcome::new("bad-case").trivial();
            };
            let rank = |k: &u64| rk.iter().find(|p| p.0 == *k).map(|p| p.1).unwrap_or(0);
            catch(|| {
                let g = build(&ops);
                let order: Vec<u64> = g.sorted_by(|a, b| rank(a).cmp(&rank(b))).into_iter().collect();
                if let Some(a) = &abs {
                    let set: BTreeSet<u64> = order.iter().copied().collect();
                    if set.len() != order.len() || set != a.val.keys().copied().collect() {
                        o.violations.push(("sorted-not-each-node-once".into(), format!("order {order:?}")));
                    }
                    check_order(a, &order, "sorted-not-topological", &mut o);
                }
                if rk.iter().any(|p| p.1 != 0) {
                    o.tags.push("sorted-custom-compare".into());
                }
                format!("ok {}", show(order))
            })
        }
        ("fold", [roots, brk]) => {
            let (Some(roots), Some(brk)) = (list(roots), list(brk)) else { return Outcome::new("bad-case").trivial() };
            uni.extend(roots.iter().copied());
            let asc = roots.windows(2).all(|w| w[0] < w[1]);
            let r = catch(|| {
                let g = build(&ops);
                g.fold(&roots, Vec::new(), |mut acc: Vec<u64>, k, _| {
                    acc.push(*k);
                    if brk.contains(k) { ControlFlow::Break(acc) } else { ControlFlow::Continue(acc) }
                })
            });
            match r {
                Ok(acc) => {
                    if !asc {
                        o.violations.push(("fold-unsorted-roots-accepted".into(), format!("roots {roots:?}")));
                    }
                    if let Some(a) = &abs {
                        let (exp, broken) = expected_calls(a, &roots, &brk);
                        let got: BTreeSet<u64> = acc.iter().copied().collect();
                        if got != exp {
                            o.violations.push(("fold-skip-set".into(), format!("visited {acc:?}, expected set {exp:?}")));
                        }
                        check_order(a, &acc, "fold-order", &mut o);
                        o.tags.push(if broken.is_empty() { "fold-no-break" } else { "fold-break" }.into());
                        if got.len() < a.reach(&roots).len() {
                            o.tags.push("fold-skipped-some".into());
                        }
                    }
                    Ok(format!("ok {}", show(acc)))
                }
                Err(_) => {
                    o.tags.push("fold-panic".into());
                    if asc {
                        o.violations.push(("fold-panic".into(), format!("fold panicked on ascending roots {roots:?}")));
                    }
                    Ok("panic".into())
                }
            }
        }
        ("prune", [roots, brk, mode]) => {
            let (Some(roots), Some(brk), Ok(mode)) = (list(roots), list(brk), mode.parse::<u64>()) else {
                return Outcome::new("bad-case").trivial();
            };
            uni.extend(roots.iter().copied());
            o.tags.push(format!("prune-mode-{}", mode.min(3)));
            catch(|| {
                let mut g = build(&ops);
                let mut calls: Vec<(u64, Vec<u64>)> = vec![];
                g.prune_by(
                    &roots,
                    |k, _, sibs| {
                        calls.push((*k, sibs.map(|(k, _)| *k).collect()));
                        if brk.contains(k) { ControlFlow::Break(()) } else { ControlFlow::Continue(()) }
                    },
                    |(k1, v1), (k2, v2)| match mode {
                        0 => k1.cmp(k2),
                        1 => v1.cmp(v2),
                        2 => v1.cmp(v2).then(k1.cmp(k2)),
                        _ => k2.cmp(k1),
                    },
                );
                let v = view(&g, &uni);
                if let Some(a) = &abs {
                    let (exp, broken) = expected_calls(a, &roots, &brk);
                    let order: Vec<u64> = calls.iter().map(|c| c.0).collect();
                    let got: BTreeSet<u64> = order.iter().copied().collect();
                    if got != exp {
                        o.violations.push(("prune-call-set".into(), format!("called {order:?}, expected set {exp:?}")));
                    }
                    check_order(a, &order, "prune-order", &mut o);
                    let mut gone: BTreeSet<u64> = broken.clone();
                    for b in &broken {
                        gone.extend(a.desc(*b));
                    }
                    let keep: BTreeSet<u64> = a.val.keys().copied().filter(|k| !gone.contains(k)).collect();
                    if v != a.restricted(&keep) {
                        o.violations.push(("prune-not-exact".into(), format!("after prune {}, expected nodes {keep:?}", dump(&v))));
                    }
                    // siblings at each call: nodes still present that are neither ancestors nor descendants
                    let mut removed: BTreeSet<u64> = BTreeSet::new();
                    for (k, sibs) in &calls {
                        let (an, de) = (a.anc(*k), a.desc(*k));
                        let exp_s: Vec<u64> =
                            a.val.keys().copied().filter(|x| x != k && !removed.contains(x) && !an.contains(x) && !de.contains(x)).collect();
                        if &exp_s != sibs {
                            o.violations.push(("prune-siblings".into(), format!("siblings of {k}: {sibs:?}, expected {exp_s:?}")));
                            break;
                        }
                        if brk.contains(k) {
                            removed.insert(*k);
                            removed.extend(de);
                        }
                    }
                    o.tags.push(if broken.is_empty() { "prune-no-break" } else { "prune-break" }.into());
                    if !gone.is_empty() && gone.len() > broken.len() {
                        o.tags.push("prune-removed-descendants".into());
                    }
                }
                let cs: Vec<String> = calls.iter().map(|(k, s)| format!("{k}[{}]", show(s.iter().copied()))).collect();
                format!("ok {}#{}", cs.join(","), dump(&v))
            })
        }
        ("remove", [k]) => {
            let Ok(k) = k.parse::<u64>() else { return Outcome::new("bad-case").trivial() };
            uni.insert(k);
            catch(|| {
                let mut g = build(&ops);
                g.remove(&k);
                let v = view(&g, &uni);
                if let Some(a) = &abs {
                    let mut gone = BTreeSet::new();
                    if a.val.contains_key(&k) {
                        gone.insert(k);
                        gone.extend(a.desc(k));
                        o.tags.push(if gone.len() > 1 { "remove-with-descendants" } else { "remove-leaf" }.into());
                    } else {
                        o.tags.push("remove-absent".into());
                    }
                    let keep: BTreeSet<u64> = a.val.keys().copied().filter(|x| !gone.contains(x)).collect();
                    if v != a.restricted(&keep) {
                        o.violations.push(("remove-not-exact".into(), format!("after remove({k}) {}, expected nodes {keep:?}", dump(&v))));
                    }
                }
                format!("ok {}", dump(&v))
            })
        }
        ("merge", [s2]) => {
            let Some(ops2) = parse_script(s2) else { return Outcome::new("bad-case").trivial() };
            keys_of(&ops2, &mut uni);
            let abs2 = Abs::of(&ops2).filter(|a| a.acyclic());
            o.tags.push(if abs2.is_some() { "merge-other-closed" } else { "merge-other-irregular" }.into());
            catch(|| {
                let mut g = build(&ops);
                let other = build(&ops2);
                g.merge(other);
                let v = view(&g, &uni);
                if let (Some(a), Some(b)) = (&abs, &abs2) {
                    // union of nodes (self's value wins) and edges
                    let mut u = Abs { val: b.val.clone(), deps: b.deps.clone(), dependents: b.dependents.clone() };
                    for (k, val) in &a.val {
                        u.val.insert(*k, *val);
                        u.deps.entry(*k).or_default().extend(a.deps[k].iter().copied());
                        u.dependents.entry(*k).or_default().extend(a.dependents[k].iter().copied());
                    }
                    let keep: BTreeSet<u64> = u.val.keys().copied().collect();
                    if v != u.restricted(&keep) {
                        o.violations.push(("merge-not-union".into(), format!("after merge {}, expected nodes {keep:?}", dump(&v))));
                    }
                    let nroots = b.val.keys().filter(|k| b.deps[k].is_empty()).count();
                    o.tags.push(format!("merge-other-roots-{}", nroots.min(3)));
                    if a.val.keys().any(|k| b.val.contains_key(k)) {
                        o.tags.push("merge-overlap".into());
                    }
                }
                format!("ok {}", dump(&v))
            })
        }
        _ => return Outcome::new("bad-case").trivial(),
    };
    match res {
        Ok(s) => o.output = s,
        Err(m) => {
            o.output = "panic".into();
            o.violations.push(("unexpected-panic".into(), m));
        }
    }
    o.nontrivial = n_nodes >= 2;
    o
}

// ---------------------------------------------------------------------------------------------------
// generation

/// Script of a DAG on `labels` (node i gets key labels[i]); `edges` = (i, j): node j depends on node i, i < j.
fn script(labels: &[u64], vals: &[u64], edges: &[(usize, usize)], rng: &mut Rng, shuffle: bool) -> String {
    let mut ns: Vec<String> = labels.iter().zip(vals).map(|(k, v)| format!("n{k}:{v}")).collect();
    let mut ds: Vec<String> = edges.iter().map(|(i, j)| format!("d{}:{}", labels[*j], labels[*i])).collect();
    if shuffle {
        for i in (1..ns.len()).rev() {
            ns.swap(i, rng.below(i as u64 + 1) as usize);
        }
        for i in (1..ds.len()).rev() {
            ds.swap(i, rng.below(i as u64 + 1) as usize);
        }
    }
    ns.extend(ds);
    if ns.is_empty() { "-".into() } else { ns.join(",") }
}

fn subset(labels: &[u64], mask: u64) -> String {
    let v: Vec<u64> = labels.iter().enumerate().filter(|(i, _)| mask >> i & 1 == 1).map(|(_, k)| *k).collect();
    nats(&v)
}

fn perm(n: usize, rng: &mut Rng) -> Vec<u64> {
    let mut p: Vec<u64> = (1..=n as u64).collect();
    for i in (1..n).rev() {
        p.swap(i, rng.below(i as u64 + 1) as usize);
    }
    p
}

fn roots_of(labels: &[u64], edges: &[(usize, usize)]) -> Vec<u64> {
    let mut r: Vec<u64> = (0..labels.len()).filter(|j| !edges.iter().any(|e| e.1 == *j)).map(|j| labels[j]).collect();
    r.sort();
    r
}

fn ranks(labels: &[u64], rng: &mut Rng) -> String {
    if labels.is_empty() {
        return "-".into();
    }
    match rng.below(3) {
        0 => "-".into(),
        1 => labels.iter().map(|k| format!("{k}:{}", rng.below(2))).collect::<Vec<_>>().join(","),
        _ => labels.iter().map(|k| format!("{k}:{}", rng.below(labels.len() as u64 + 1))).collect::<Vec<_>>().join(","),
    }
}

/// Every query on one DAG; `all_masks`: enumerate every Break set, else `k` random ones.
fn queries(labels: &[u64], vals: &[u64], edges: &[(usize, usize)], rng: &mut Rng, all_masks: bool, out: &mut Vec<String>) {
    let n = labels.len();
    let s = script(labels, vals, edges, rng, true);
    out.push(format!("{s} dump"));
    if !edges.is_empty() {
        out.push(format!("{s} orders {}", if edges.len() <= 4 { 24 } else { 60 }));
    }
    out.push(format!("{s} sorted -"));
    out.push(format!("{s} sorted {}", ranks(labels, rng)));
    let roots = roots_of(labels, edges);
    let masks: Vec<u64> = if all_masks { (0..1u64 << n).collect() } else { (0..6).map(|_| rng.next() & rng.next() & ((1u64 << n.min(63)) - 1)).collect() };
    for m in &masks {
        let brk = subset(labels, *m);
        out.push(format!("{s} fold {} {brk}", nats(&roots)));
        out.push(format!("{s} prune {} {brk} {}", nats(&roots), rng.below(4)));
    }
    // fold / prune from a sub-set of the nodes as roots (prune: any order, also non-nodes)
    let mut sub: Vec<u64> = labels.iter().copied().filter(|_| rng.bool()).collect();
    sub.sort();
    out.push(format!("{s} fold {} {}", nats(&sub), subset(labels, rng.next())));
    let mut any: Vec<u64> = labels.iter().copied().filter(|_| rng.bool()).collect();
    if rng.chance(1, 3) {
        any.push(99);
    }
    for i in (1..any.len()).rev() {
        any.swap(i, rng.below(i as u64 + 1) as usize);
    }
    out.push(format!("{s} prune {} {} {}", nats(&any), subset(labels, rng.next()), rng.below(4)));
    for k in labels {
        out.push(format!("{s} remove {k}"));
    }
    out.push(format!("{s} remove 99"));
    // merge: split the edge set / node set in two overlapping closed graphs, and merge a disjoint copy
    if n > 0 {
        let cut = rng.below(n as u64 + 1) as usize;
        let in_a = |i: usize| i < cut || rng_bit(labels[i], cut as u64);
        let (mut ea, mut eb) = (vec![], vec![]);
        for e in edges {
            if rng.bool() { ea.push(*e) } else { eb.push(*e) }
        }
        let part = |es: &[(usize, usize)], extra: &dyn Fn(usize) -> bool| -> (Vec<u64>, Vec<u64>, Vec<(usize, usize)>) {
            let idx: Vec<usize> = (0..n).filter(|i| extra(*i) || es.iter().any(|e| e.0 == *i || e.1 == *i)).collect();
            let l: Vec<u64> = idx.iter().map(|i| labels[*i]).collect();
            let v: Vec<u64> = idx.iter().map(|i| vals[*i]).collect();
            let es2 = es.iter().map(|e| (idx.iter().position(|x| *x == e.0).unwrap(), idx.iter().position(|x| *x == e.1).unwrap())).collect();
            (l, v, es2)
        };
        let (la, va, ea2) = part(&ea, &in_a);
        let (lb, vb, eb2) = part(&eb, &|i| !in_a(i));
        let vb: Vec<u64> = vb.iter().map(|v| v + 100).collect(); // other's values differ: self must win
        out.push(format!("{} merge {}", script(&la, &va, &ea2, rng, true), script(&lb, &vb, &eb2, rng, true)));
        out.push(format!("- merge {s}"));
        out.push(format!("{s} merge -"));
    }
}

fn rng_bit(k: u64, salt: u64) -> bool {
    (k.wrapping_mul(0x9e3779b97f4a7c15) ^ salt.wrapping_mul(0xbf58476d1ce4e5b9)) >> 17 & 1 == 1
}

fn random_dag(rng: &mut Rng, max_n: u64) -> (Vec<u64>, Vec<u64>, Vec<(usize, usize)>) {
    let n = rng.range(2, max_n) as usize;
    let labels = perm(n, rng);
    let vals: Vec<u64> = (0..n).map(|_| rng.below(4)).collect();
    let dens = rng.range(1, 4);
    let mut edges = vec![];
    for j in 1..n {
        for i in 0..j {
            let near = j - i <= 3;
            if rng.chance(if near { dens } else { 1 }, if near { 6 } else { 4 * n as u64 }) {
                edges.push((i, j));
            }
        }
    }
    (labels, vals, edges)
}

/// Irregular scripts: dangling edges, re-inserted nodes, cycles, removals, unsorted fold roots.
fn irregular(rng: &mut Rng) -> String {
    let n = rng.range(1, 6);
    let mut ops = vec![];
    for _ in 0..rng.range(1, 12) {
        ops.push(match rng.below(6) {
            0 | 1 => format!("n{}:{}", rng.range(1, n), rng.below(3)),
            2 | 3 | 4 => format!("d{}:{}", rng.range(1, n + 1), rng.range(1, n + 1)),
            _ => format!("x{}", rng.range(1, n)),
        });
    }
    let s = ops.join(",");
    let ks: Vec<u64> = (1..=n).collect();
    match rng.below(7) {
        0 => format!("{s} dump"),
        1 => format!("{s} sorted {}", ranks(&ks, rng)),
        2 => {
            let mut r: Vec<u64> = ks.iter().copied().filter(|_| rng.bool()).collect();
            if rng.chance(1, 3) {
                r.reverse();
            }
            if rng.chance(1, 6) && !r.is_empty() {
                r.push(r[0]);
            }
            format!("{s} fold {} {}", nats(&r), subset(&ks, rng.next()))
        }
        3 => format!("{s} prune {} {} {}", subset(&ks, rng.next()), subset(&ks, rng.next()), rng.below(4)),
        4 => format!("{s} remove {}", rng.range(1, n + 1)),
        _ => {
            let mut ops2 = vec![];
            for _ in 0..rng.range(1, 8) {
                ops2.push(match rng.below(5) {
                    0 | 1 => format!("n{}:{}", rng.range(1, n + 2), 7),
                    _ => format!("d{}:{}", rng.range(1, n + 2), rng.range(1, n + 2)),
                });
            }
            format!("{s} merge {}", ops2.join(","))
        }
    }
}

fn main() {
    let mut ctx = Ctx::from_args("C23");
    if !ctx.run_fixed(run_case) {
        let mut rng = ctx.rng();
        let mut cases: Vec<String> = vec![];
        // 1. every DAG on up to 4 (thorough: 5) nodes, every Break set, under a random relabelling
        let max_n = ctx.size(4, 5) as usize;
        for n in 0..=max_n {
            let pairs: Vec<(usize, usize)> = (0..n).flat_map(|j| (0..j).map(move |i| (i, j))).collect();
            for mask in 0..1u64 << pairs.len() {
                let edges: Vec<(usize, usize)> = pairs.iter().enumerate().filter(|(b, _)| mask >> b & 1 == 1).map(|(_, e)| *e).collect();
                let labels = if rng.bool() { (1..=n as u64).collect() } else { perm(n, &mut rng) };
                let vals: Vec<u64> = (0..n).map(|_| rng.below(3)).collect();
                queries(&labels, &vals, &edges, &mut rng, true, &mut cases);
            }
        }
        ctx.note("exhaustive_dags_up_to_nodes", max_n);
        // 2. random larger DAGs
        for _ in 0..ctx.size(120, 4000) {
            let (l, v, e) = random_dag(&mut rng, 40);
            queries(&l, &v, &e, &mut rng, false, &mut cases);
        }
        // 3. irregular scripts (correspondence only)
        for _ in 0..ctx.size(1500, 40000) {
            cases.push(irregular(&mut rng));
        }
        for input in cases {
            let o = run_case(&input);
            ctx.record(&input, o);
        }
    }
    ctx.finish(
        "every DAG on <=4 (thorough <=5) nodes under a random key relabelling with every Break subset for fold/prune (all four \
         prune orderings), every single-node remove, sorted_by with rank tables (ties), merges of overlapping closed parts; random \
         DAGs up to 40 nodes; irregular scripts (dangling edges, re-inserted nodes, cycles, removals, unsorted fold roots) for \
         correspondence only; non-trivial = clean acyclic graph with >= 2 nodes; distinct by input text",
        false,
    );
}
