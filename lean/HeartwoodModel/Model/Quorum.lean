/-!
# Model of `Canonical::quorum` (`crates/radicle/src/git/canonical.rs`) — C03

Object ids are naturals whose order is the order of the real `Oid`s (the `BTreeMap<Oid, usize>`s of the
code are iterated in that order, and the order is observable: it decides between `Ok` and `Diverging`
in phase two when the candidates are not a chain). Delegates (`Did`) are naturals too.

Git ancestry is an opaque parameter: `le a b` = "`a` is `b` or an ancestor of `b`", `rel a b` = "`a` and
`b` have a common ancestor" (`git_merge_base` succeeds). The code only ever compares the merge base with
its two arguments, so `mergeBase` returns exactly these two comparisons (or the git error).
-/
namespace HeartwoodModel.Quorum

/-- The error classes of `QuorumError`. -/
inductive QErr where
  | noCandidates
  | diverging
  | git
  deriving Repr, DecidableEq

/-- What `quorum` observes of `repo.merge_base(a, b)`: the git error (no merge base), or the base,
of which only `base == a` and `base == b` are looked at. -/
inductive MB where
  | err
  | base (isA isB : Bool)
  deriving Repr, DecidableEq

/-- `repo.merge_base(a, b)`: the merge base of a commit and one of its descendants is the commit
itself (`base == a` iff `le a b`, `base == b` iff `le b a`); otherwise it is a third commit
(`base false false`) when the two are related, or there is none (`GIT_ENOTFOUND`, the `?` error). -/
def mergeBase (le rel : Nat → Nat → Bool) (a b : Nat) : MB :=
  if le a b || le b a || rel a b then .base (le a b) (le b a) else .err

/-- `*map.entry(o).or_default() += n` on a `BTreeMap<Oid, usize>` (association list sorted by key). -/
def bump (o n : Nat) : List (Nat × Nat) → List (Nat × Nat)
  | [] => [(o, n)]
  | (k, v) :: rest =>
    if o < k then (o, n) :: (k, v) :: rest
    else if o = k then (k, v + n) :: rest
    else (k, v) :: bump o n rest

/-- `direct`: the number of delegates on each distinct tip. `tips` is the `BTreeMap<Did, Oid>`. -/
def direct (tips : List (Nat × Nat)) : List (Nat × Nat) :=
  tips.foldl (fun m p => bump p.2 1 m) []

/-- Inner loop of phase one: `head` (with `votes` direct votes) against every later distinct tip. -/
def inner (le rel : Nat → Nat → Bool) (head votes : Nat) (cands : List (Nat × Nat)) :
    List (Nat × Nat) → Except QErr (List (Nat × Nat))
  | [] => .ok cands
  | (other, otherVotes) :: rest =>
    match mergeBase le rel head other with
    | .err => .error .git
    | .base isHead isOther =>
      if isHead then inner le rel head votes (bump head otherVotes cands) rest
      else if isOther then inner le rel head votes (bump other votes cands) rest
      else inner le rel head votes cands rest

/-- Outer loop of phase one over (a suffix of) `direct`. -/
def outer (le rel : Nat → Nat → Bool) (cands : List (Nat × Nat)) :
    List (Nat × Nat) → Except QErr (List (Nat × Nat))
  | [] => .ok cands
  | (head, votes) :: rest =>
    match inner le rel head votes cands rest with
    | .error e => .error e
    | .ok cands' => outer le rel cands' rest

/-- Phase two: fold over the remaining candidates (in oid order), keeping the descendant. -/
def fold2 (le rel : Nat → Nat → Bool) (longest : Nat) : List Nat → Except QErr Nat
  | [] => .ok longest
  | head :: rest =>
    match mergeBase le rel head longest with
    | .err => .error .git
    | .base isHead isLongest =>
      if isLongest then fold2 le rel head rest
      else if isHead || head == longest then fold2 le rel longest rest
      else .error .diverging

/-- `candidates.retain(|_, votes| *votes >= threshold)`, keys in order. -/
def retained (t : Nat) (cands : List (Nat × Nat)) : List Nat :=
  (cands.filter (fun p => t ≤ p.2)).map (·.1)

/-- `pop_first().ok_or(NoCandidates)?`, then the fold. -/
def phase2 (le rel : Nat → Nat → Bool) : List Nat → Except QErr Nat
  | [] => .error .noCandidates
  | c :: cs => fold2 le rel c cs

/-- `Canonical::quorum`. `tips` = the `(Did, Oid)` entries of `self.tips`, `t` = `self.threshold`. -/
def quorum (le rel : Nat → Nat → Bool) (tips : List (Nat × Nat)) (t : Nat) : Except QErr Nat :=
  let d := direct tips
  match outer le rel d d with
  | .error e => .error e
  | .ok cands => phase2 le rel (retained t cands)

/-- `BTreeMap::insert` on the `Did`-keyed map (`Canonical::reference` / `modify_vote`): last write wins. -/
def setTip (d o : Nat) : List (Nat × Nat) → List (Nat × Nat)
  | [] => [(d, o)]
  | (k, v) :: rest => if k = d then (d, o) :: rest else (k, v) :: setTip d o rest

end HeartwoodModel.Quorum
