import HeartwoodModel.Model.Stores
/-!
# Helper lemmas for C24 (`Model/Stores.lean`): `find` / `put` / `del` / `filter` / `map` on tables.
-/
set_option linter.unusedSimpArgs false
set_option linter.unusedVariables false
set_option linter.unusedSectionVars false
namespace HeartwoodModel.Stores

section Table
variable {K V : Type} [DecidableEq K]

theorem find_put_self (k : K) (v : V) (l : List (K × V)) : find k (put k v l) = some v := by
  induction l with
  | nil => simp [put, find]
  | cons hd tl ih =>
    obtain ⟨k', v'⟩ := hd
    by_cases h : k' = k <;> simp [put, find, h, ih]

theorem find_put_other (k k' : K) (v : V) (l : List (K × V)) (hne : k' ≠ k) :
    find k' (put k v l) = find k' l := by
  induction l with
  | nil =>
    have : ¬ k = k' := fun e => hne e.symm
    simp [put, find, this]
  | cons hd tl ih =>
    obtain ⟨k2, v2⟩ := hd
    by_cases h : k2 = k
    · subst h
      have : ¬ k2 = k' := fun e => hne e.symm
      simp [put, find, this]
    · by_cases h2 : k2 = k'
      · subst h2; simp [put, find, h]
      · simp [put, find, h, h2, ih]

theorem find_put (k k' : K) (v : V) (l : List (K × V)) :
    find k' (put k v l) = if k' = k then some v else find k' l := by
  by_cases h : k' = k
  · subst h; simp [find_put_self]
  · simp [h, find_put_other _ _ _ _ h]

theorem find_del_self (k : K) (l : List (K × V)) : find k (del k l) = none := by
  induction l with
  | nil => rfl
  | cons hd tl ih =>
    obtain ⟨k', v'⟩ := hd
    by_cases h : k' = k <;> simp [del, find, h, ih]

theorem find_del_other (k k' : K) (l : List (K × V)) (hne : k' ≠ k) : find k' (del k l) = find k' l := by
  induction l with
  | nil => rfl
  | cons hd tl ih =>
    obtain ⟨k2, v2⟩ := hd
    by_cases h : k2 = k
    · subst h
      have : ¬ k2 = k' := fun e => hne e.symm
      simp [del, find, this, ih]
    · by_cases h2 : k2 = k'
      · subst h2; simp [del, find, h]
      · simp [del, find, h, h2, ih]

theorem find_del (k k' : K) (l : List (K × V)) :
    find k' (del k l) = if k' = k then none else find k' l := by
  by_cases h : k' = k
  · subst h; simp [find_del_self]
  · simp [h, find_del_other _ _ _ h]

/-- `DELETE` with a condition on the key only. -/
theorem find_filter_key (p : K → Bool) (k : K) (l : List (K × V)) :
    find k (l.filter (fun e => p e.1)) = if p k then find k l else none := by
  induction l with
  | nil => simp [find]
  | cons hd tl ih =>
    obtain ⟨k', v'⟩ := hd
    by_cases hk : k' = k
    · subst hk
      by_cases hp : p k' = true
      · simp [List.filter, hp, find]
      · have hp' : p k' = false := by simpa using hp
        simp [List.filter, hp', find, ih]
    · by_cases hp : p k' = true
      · simp [List.filter, hp, find, hk, ih]
      · have hp' : p k' = false := by simpa using hp
        simp [List.filter, hp', find, hk, ih]

theorem find_none_of_not_mem (k : K) (l : List (K × V)) (h : k ∉ l.map (·.1)) : find k l = none := by
  induction l with
  | nil => rfl
  | cons hd tl ih =>
    obtain ⟨k', v'⟩ := hd
    simp only [List.map_cons, List.mem_cons, not_or] at h
    have h1 : ¬ k' = k := fun e => h.1 e.symm
    simp [find, h1, ih h.2]

theorem find_mem {k : K} {v : V} {l : List (K × V)} (h : find k l = some v) : (k, v) ∈ l := by
  induction l with
  | nil => simp [find] at h
  | cons hd tl ih =>
    obtain ⟨k', v'⟩ := hd
    by_cases hk : k' = k
    · subst hk
      simp [find] at h
      subst h
      simp
    · simp [find, hk] at h
      exact List.mem_cons_of_mem _ (ih h)

/-- Table invariant: at most one row per key (the `unique`/`primary key` constraint). -/
def WF (l : List (K × V)) : Prop := (l.map (·.1)).Nodup

theorem WF.nil : WF ([] : List (K × V)) := List.nodup_nil

theorem WF.tail {hd : K × V} {tl : List (K × V)} (h : WF (hd :: tl)) : WF tl := by
  unfold WF at *
  simp only [List.map_cons, List.nodup_cons] at h
  exact h.2

theorem WF.head {hd : K × V} {tl : List (K × V)} (h : WF (hd :: tl)) : hd.1 ∉ tl.map (·.1) := by
  unfold WF at h
  simp only [List.map_cons, List.nodup_cons] at h
  exact h.1

theorem keys_put (k : K) (v : V) (l : List (K × V)) (x : K) (hx : x ∈ (put k v l).map (·.1)) :
    x = k ∨ x ∈ l.map (·.1) := by
  induction l with
  | nil => simp [put] at hx; exact Or.inl hx
  | cons hd tl ih =>
    obtain ⟨k', v'⟩ := hd
    by_cases h : k' = k
    · subst h
      simp only [put, if_true, List.map_cons, List.mem_cons] at hx
      simp only [List.map_cons, List.mem_cons]
      rcases hx with hx | hx
      · exact Or.inl hx
      · exact Or.inr (Or.inr hx)
    · simp only [put, h, if_false, List.map_cons, List.mem_cons] at hx
      simp only [List.map_cons, List.mem_cons]
      rcases hx with hx | hx
      · exact Or.inr (Or.inl hx)
      · rcases ih hx with h1 | h1
        · exact Or.inl h1
        · exact Or.inr (Or.inr h1)

theorem WF.put {l : List (K × V)} (h : WF l) (k : K) (v : V) : WF (put k v l) := by
  induction l with
  | nil => simp [Stores.put, WF]
  | cons hd tl ih =>
    obtain ⟨k', v'⟩ := hd
    by_cases hk : k' = k
    · subst hk
      simpa [Stores.put, WF] using h
    · have ht := ih h.tail
      have hh := h.head
      unfold WF at *
      simp only [Stores.put, hk, if_false, List.map_cons, List.nodup_cons]
      refine ⟨?_, ht⟩
      intro hmem
      rcases keys_put k v tl k' hmem with h1 | h1
      · exact hk h1
      · exact hh h1

theorem WF.filter {l : List (K × V)} (h : WF l) (p : K × V → Bool) : WF (l.filter p) := by
  unfold WF at *
  exact h.sublist (List.Sublist.map _ List.filter_sublist)

theorem keys_del (k : K) (l : List (K × V)) : (del k l) = l.filter (fun e => !decide (e.1 = k)) := by
  induction l with
  | nil => rfl
  | cons hd tl ih =>
    obtain ⟨k', v'⟩ := hd
    by_cases hk : k' = k <;> simp [del, hk, ih, List.filter]

theorem WF.del {l : List (K × V)} (h : WF l) (k : K) : WF (del k l) := by
  rw [keys_del]; exact h.filter _

/-- `DELETE` / `UPDATE` with a condition on the whole row, on a table with unique keys. -/
theorem find_filter_wf (p : K × V → Bool) (k : K) (v : V) (l : List (K × V)) (hwf : WF l)
    (h : find k l = some v) : find k (l.filter p) = if p (k, v) then some v else none := by
  induction l with
  | nil => simp [find] at h
  | cons hd tl ih =>
    obtain ⟨k', v'⟩ := hd
    by_cases hk : k' = k
    · subst hk
      simp [find] at h
      subst h
      by_cases hp : p (k', v') = true
      · simp [List.filter, hp, find]
      · have hp' : p (k', v') = false := by simpa using hp
        simp only [List.filter, hp', Bool.false_eq_true, if_false]
        apply find_none_of_not_mem
        intro hm
        apply hwf.head
        have : (List.filter p tl).map (·.1) |>.Sublist (tl.map (·.1)) := List.Sublist.map _ List.filter_sublist
        exact this.subset hm
    · simp [find, hk] at h
      have := ih hwf.tail h
      by_cases hp : p (k', v') = true
      · simp [List.filter, hp, find, hk, this]
      · have hp' : p (k', v') = false := by simpa using hp
        simp [List.filter, hp', this]

theorem find_filter_none (p : K × V → Bool) (k : K) (l : List (K × V)) (h : find k l = none) :
    find k (l.filter p) = none := by
  induction l with
  | nil => rfl
  | cons hd tl ih =>
    obtain ⟨k', v'⟩ := hd
    by_cases hk : k' = k
    · simp [find, hk] at h
    · simp [find, hk] at h
      by_cases hp : p (k', v') = true
      · simp [List.filter, hp, find, hk, ih h]
      · have hp' : p (k', v') = false := by simpa using hp
        simp [List.filter, hp', ih h]

/-- `UPDATE` that does not touch the key columns. -/
theorem find_map_val (f : K × V → V) (k : K) (l : List (K × V)) :
    find k (l.map (fun e => (e.1, f e))) = (find k l).map (fun v => f (k, v)) := by
  induction l with
  | nil => rfl
  | cons hd tl ih =>
    obtain ⟨k', v'⟩ := hd
    by_cases hk : k' = k
    · subst hk; simp [find]
    · simp [find, hk, ih]

theorem WF.map_val {l : List (K × V)} (h : WF l) (f : K × V → V) : WF (l.map (fun e => (e.1, f e))) := by
  unfold WF at *
  simpa [List.map_map, Function.comp_def] using h

end Table

end HeartwoodModel.Stores
