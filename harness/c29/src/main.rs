//! C29 harness (stub: not implemented yet).
fn main() {
    eprintln!("C29: harness not implemented");
    std::process::exit(3);
}
