import HeartwoodModel.Model.Codec
/-!
# Laws of the codec library (used by C13a, C14, C15)

* `NoPanic d`         — `d` never returns `panic`;
* `Enc d x a`         — `x` is a self-delimiting encoding of `a` for `d`: (rt) `d (x ++ r) = ok a r` for every
                        `r`, and (pi) every strict prefix of `x` is `incomplete`;
* `Exact wf e d`      — `d b = ok a r ↔ wf a ∧ b = e a ++ r`: round-trip (rt) and canonicity (can) in one;
* the generic chunking theorem for the stream deserializer (`feed_chunks`).
-/
set_option linter.unusedSimpArgs false
set_option linter.unusedVariables false
namespace HeartwoodModel.Codec

variable {α β γ : Type}

/-! ## `ok` characterisations of the combinators -/

theorem bind_ok_iff {d : Dec α} {f : α → Dec β} {b : Bytes} {x : β} {r : Bytes} :
    d.bind f b = .ok x r ↔ ∃ a r1, d b = .ok a r1 ∧ f a r1 = .ok x r := by
  unfold Dec.bind
  cases h : d b with
  | ok a r1 =>
    constructor
    · intro h'; exact ⟨_, _, rfl, h'⟩
    · rintro ⟨a', r', h1, h2⟩; cases h1; exact h2
  | incomplete => simp
  | invalid => simp
  | panic s => simp

theorem map_ok_iff {d : Dec α} {f : α → β} {b : Bytes} {x : β} {r : Bytes} :
    d.map f b = .ok x r ↔ ∃ a, d b = .ok a r ∧ f a = x := by
  unfold Dec.map
  cases h : d b with
  | ok a r1 =>
    simp only [Res.ok.injEq]
    constructor
    · rintro ⟨h1, h2⟩; exact ⟨a, ⟨rfl, h2⟩, h1⟩
    · rintro ⟨a', ⟨h1, h2⟩, h3⟩; subst h1; exact ⟨h3, h2⟩
  | incomplete => simp
  | invalid => simp
  | panic s => simp

theorem filterMap_ok_iff {d : Dec α} {f : α → Option β} {b : Bytes} {x : β} {r : Bytes} :
    d.filterMap f b = .ok x r ↔ ∃ a, d b = .ok a r ∧ f a = some x := by
  unfold Dec.filterMap
  cases h : d b with
  | ok a r1 =>
    simp only [Res.ok.injEq]
    cases hf : f a with
    | none =>
      simp only [reduceCtorEq, false_iff, not_exists, not_and]
      rintro a' ⟨rfl, rfl⟩; simp [hf]
    | some y =>
      simp only [Res.ok.injEq]
      constructor
      · rintro ⟨rfl, rfl⟩; exact ⟨a, ⟨rfl, rfl⟩, hf⟩
      · rintro ⟨a', ⟨rfl, rfl⟩, h3⟩; rw [hf] at h3; cases h3; exact ⟨rfl, rfl⟩
  | incomplete => simp
  | invalid => simp
  | panic s => simp

theorem pure_ok_iff {a x : α} {b r : Bytes} : Dec.pure a b = .ok x r ↔ a = x ∧ b = r := by
  simp [Dec.pure]

theorem fail_ok_iff {x : α} {b r : Bytes} : (Dec.fail : Dec α) b = .ok x r ↔ False := by
  simp [Dec.fail]

theorem take_ok_iff {n : Nat} {b p r : Bytes} : take n b = .ok p r ↔ p.length = n ∧ b = p ++ r := by
  unfold take
  split
  · rename_i h
    simp only [reduceCtorEq, false_iff, not_and]
    intro hp hb
    subst hb; simp at h; omega
  · rename_i h
    simp only [Res.ok.injEq]
    constructor
    · rintro ⟨rfl, rfl⟩
      refine ⟨?_, (List.take_append_drop n b).symm⟩
      simp; omega
    · rintro ⟨hp, rfl⟩
      subst hp
      simp

theorem take_append {n : Nat} {p r : Bytes} (h : p.length = n) : take n (p ++ r) = .ok p r :=
  take_ok_iff.mpr ⟨h, rfl⟩

theorem u8_ok_iff {b r : Bytes} {x : UInt8} : u8 b = .ok x r ↔ b = x :: r := by
  cases b <;> simp [u8]

theorem sealed_ok_iff {d : Dec α} {b r : Bytes} {x : α} : d.sealed b = .ok x r ↔ d b = .ok x r := by
  unfold Dec.sealed
  cases h : d b <;> simp

theorem nested_ok_iff {outer : Dec Bytes} {inner : Dec α} {b r : Bytes} {x : α} :
    Dec.nested outer inner b = .ok x r ↔ ∃ p r', outer b = .ok p r ∧ inner p = .ok x r' := by
  unfold Dec.nested
  cases h : outer b with
  | ok p r1 =>
    simp only [Res.ok.injEq]
    cases hi : inner.sealed p with
    | ok a r2 =>
      rw [sealed_ok_iff] at hi
      simp only [Res.ok.injEq]
      constructor
      · rintro ⟨rfl, rfl⟩; exact ⟨p, r2, ⟨rfl, rfl⟩, hi⟩
      · rintro ⟨p', r', ⟨rfl, rfl⟩, h2⟩; rw [hi] at h2; simp at h2; exact ⟨h2.1, rfl⟩
    | incomplete =>
      simp only [reduceCtorEq, false_iff, not_exists, not_and]
      rintro p' r' ⟨rfl, rfl⟩ h2
      have := (sealed_ok_iff (d := inner)).mpr h2
      rw [hi] at this; cases this
    | invalid =>
      simp only [reduceCtorEq, false_iff, not_exists, not_and]
      rintro p' r' ⟨rfl, rfl⟩ h2
      have := (sealed_ok_iff (d := inner)).mpr h2
      rw [hi] at this; cases this
    | panic s =>
      simp only [reduceCtorEq, false_iff, not_exists, not_and]
      rintro p' r' ⟨rfl, rfl⟩ h2
      have := (sealed_ok_iff (d := inner)).mpr h2
      rw [hi] at this; cases this
  | incomplete => simp
  | invalid => simp
  | panic s => simp

/-! ## Big-endian numbers -/

theorem snoc_induction {P : Bytes → Prop} (nil : P []) (snoc : ∀ xs x, P xs → P (xs ++ [x])) :
    ∀ xs, P xs := by
  have h : ∀ xs : Bytes, P xs.reverse := by
    intro xs
    induction xs with
    | nil => exact nil
    | cons x xs ih => rw [List.reverse_cons]; exact snoc _ _ ih
  intro xs
  have := h xs.reverse
  rwa [List.reverse_reverse] at this

theorem beVal_snoc (xs : Bytes) (x : UInt8) : beVal (xs ++ [x]) = beVal xs * 256 + x.toNat := by
  simp [beVal, List.foldl_append]

theorem length_beEnc (k n : Nat) : (beEnc k n).length = k := by
  induction k generalizing n with
  | zero => rfl
  | succ k ih => simp [beEnc, ih]

theorem beVal_lt (xs : Bytes) : beVal xs < 256 ^ xs.length := by
  induction xs using snoc_induction with
  | nil => simp [beVal]
  | snoc xs x ih =>
    rw [beVal_snoc]
    have hx := x.toNat_lt
    simp only [List.length_append, List.length_singleton, Nat.pow_succ]
    omega

theorem beVal_beEnc (k n : Nat) (h : n < 256 ^ k) : beVal (beEnc k n) = n := by
  induction k generalizing n with
  | zero => simp at h; subst h; rfl
  | succ k ih =>
    simp only [beEnc, beVal_snoc]
    have h1 : n / 256 < 256 ^ k := by
      rw [Nat.pow_succ] at h
      exact Nat.div_lt_of_lt_mul (by rw [Nat.mul_comm]; exact h)
    rw [ih _ h1]
    have : (UInt8.ofNat (n % 256)).toNat = n % 256 := by
      simp [UInt8.toNat_ofNat']
    rw [this]
    omega

theorem beEnc_beVal (xs : Bytes) : beEnc xs.length (beVal xs) = xs := by
  induction xs using snoc_induction with
  | nil => rfl
  | snoc xs x ih =>
    have hx := x.toNat_lt
    simp only [List.length_append, List.length_singleton, beEnc, beVal_snoc]
    have h1 : (beVal xs * 256 + x.toNat) / 256 = beVal xs := by omega
    have h2 : (beVal xs * 256 + x.toNat) % 256 = x.toNat := by omega
    rw [h1, h2, ih]
    simp

theorem beNat_ok_iff {k : Nat} {b r : Bytes} {n : Nat} :
    beNat k b = .ok n r ↔ n < 256 ^ k ∧ b = beEnc k n ++ r := by
  unfold beNat
  rw [map_ok_iff]
  constructor
  · rintro ⟨p, hp, rfl⟩
    rw [take_ok_iff] at hp
    obtain ⟨hl, rfl⟩ := hp
    subst hl
    exact ⟨beVal_lt p, by rw [beEnc_beVal]⟩
  · rintro ⟨hn, rfl⟩
    exact ⟨beEnc k n, take_append (length_beEnc k n), beVal_beEnc k n hn⟩

theorem beNat_append {k n : Nat} (r : Bytes) (h : n < 256 ^ k) : beNat k (beEnc k n ++ r) = .ok n r :=
  beNat_ok_iff.mpr ⟨h, rfl⟩

/-! ## Exact codecs: round-trip and canonicity -/

/-- `d` accepts exactly the encodings `e a` of well-formed values, followed by anything. -/
def Exact (wf : α → Prop) (e : α → Bytes) (d : Dec α) : Prop :=
  ∀ b a r, d b = .ok a r ↔ (wf a ∧ b = e a ++ r)

theorem Exact.rt {wf : α → Prop} {e : α → Bytes} {d : Dec α} (h : Exact wf e d) {a : α} (ha : wf a)
    (r : Bytes) : d (e a ++ r) = .ok a r := (h _ _ _).mpr ⟨ha, rfl⟩

theorem Exact.can {wf : α → Prop} {e : α → Bytes} {d : Dec α} (h : Exact wf e d) {b r : Bytes} {a : α}
    (hd : d b = .ok a r) : wf a ∧ b = e a ++ r := (h _ _ _).mp hd

theorem take_exact (n : Nat) : Exact (fun p : Bytes => p.length = n) id (take n) :=
  fun _ _ _ => take_ok_iff

theorem beNat_exact (k : Nat) : Exact (fun n => n < 256 ^ k) (beEnc k) (beNat k) :=
  fun _ _ _ => beNat_ok_iff

/-- `n` items in a row. -/
theorem count_ok_iff {wf : α → Prop} {e : α → Bytes} {d : Dec α} (h : Exact wf e d) {n : Nat}
    {b r : Bytes} {l : List α} :
    count d n b = .ok l r ↔ l.length = n ∧ (∀ a ∈ l, wf a) ∧ b = (l.map e).flatten ++ r := by
  induction n generalizing b l with
  | zero =>
    simp only [count, pure_ok_iff]
    constructor
    · rintro ⟨rfl, rfl⟩; simp
    · rintro ⟨hl, _, rfl⟩
      have : l = [] := List.eq_nil_of_length_eq_zero hl
      subst this; simp
  | succ n ih =>
    simp only [count, bind_ok_iff, map_ok_iff]
    constructor
    · rintro ⟨a, r1, ha, l', hl', rfl⟩
      obtain ⟨hwa, rfl⟩ := (h _ _ _).mp ha
      obtain ⟨hlen, hwl, rfl⟩ := ih.mp hl'
      refine ⟨by simp [hlen], ?_, by simp⟩
      intro x hx
      rcases List.mem_cons.mp hx with rfl | hx
      · exact hwa
      · exact hwl x hx
    · rintro ⟨hlen, hwl, rfl⟩
      cases l with
      | nil => simp at hlen
      | cons a l' =>
        refine ⟨a, (l'.map e).flatten ++ r, ?_, l', ?_, rfl⟩
        · apply (h _ _ _).mpr
          exact ⟨hwl a (by simp), by simp⟩
        · apply ih.mpr
          refine ⟨by simpa using hlen, fun x hx => hwl x (by simp [hx]), rfl⟩

/-! ## No panics -/

/-- `d` never takes a panicking path. -/
def NoPanic (d : Dec α) : Prop := ∀ b s, d b ≠ .panic s

theorem NoPanic.pure (a : α) : NoPanic (Dec.pure a) := by intro b s; simp [Dec.pure]
theorem NoPanic.fail : NoPanic (Dec.fail : Dec α) := by intro b s; simp [Dec.fail]
theorem NoPanic.take (n : Nat) : NoPanic (take n) := by
  intro b s; unfold Codec.take; split <;> simp
theorem NoPanic.u8 : NoPanic u8 := by intro b s; cases b <;> simp [Codec.u8]

theorem NoPanic.bind {d : Dec α} {f : α → Dec β} (hd : NoPanic d) (hf : ∀ a, NoPanic (f a)) :
    NoPanic (d.bind f) := by
  intro b s
  unfold Dec.bind
  cases h : d b with
  | ok a r => exact hf a r s
  | incomplete => simp
  | invalid => simp
  | panic s' => exact absurd h (hd b s')

theorem NoPanic.map {d : Dec α} (f : α → β) (hd : NoPanic d) : NoPanic (d.map f) := by
  intro b s
  unfold Dec.map
  cases h : d b with
  | panic s' => exact absurd h (hd b s')
  | _ => simp

theorem NoPanic.filterMap {d : Dec α} (f : α → Option β) (hd : NoPanic d) : NoPanic (d.filterMap f) := by
  intro b s
  unfold Dec.filterMap
  cases h : d b with
  | panic s' => exact absurd h (hd b s')
  | ok a r => cases hf : f a <;> simp [hf]
  | _ => simp

theorem NoPanic.sealed {d : Dec α} (hd : NoPanic d) : NoPanic d.sealed := by
  intro b s
  unfold Dec.sealed
  cases h : d b with
  | panic s' => exact absurd h (hd b s')
  | _ => simp

theorem NoPanic.nested {outer : Dec Bytes} {inner : Dec α} (ho : NoPanic outer) (hi : NoPanic inner) :
    NoPanic (Dec.nested outer inner) := by
  intro b s
  unfold Dec.nested
  cases h : outer b with
  | panic s' => exact absurd h (ho b s')
  | ok p r =>
    cases h2 : inner.sealed p with
    | panic s' => exact absurd h2 (hi.sealed p s')
    | ok a r2 => simp [h2]
    | incomplete => simp [h2]
    | invalid => simp [h2]
  | _ => simp

theorem NoPanic.beNat (k : Nat) : NoPanic (beNat k) := (NoPanic.take k).map _

theorem NoPanic.count {d : Dec α} (hd : NoPanic d) (n : Nat) : NoPanic (count d n) := by
  induction n with
  | zero => exact NoPanic.pure _
  | succ n ih => exact hd.bind fun a => ih.map _

/-! ## Self-delimiting encodings -/

/-- `x` is a self-delimiting encoding of `a`: decoding `x` followed by anything yields `a` and the rest
(rt); every strict prefix of `x` is `incomplete` (pi). -/
def Enc (d : Dec α) (x : Bytes) (a : α) : Prop :=
  (∀ r, d (x ++ r) = .ok a r) ∧ (∀ p, p <+: x → p ≠ x → d p = .incomplete)

theorem prefix_append_cases {p x y : Bytes} (h : p <+: x ++ y) :
    p <+: x ∨ ∃ q, p = x ++ q ∧ q <+: y := by
  rcases List.prefix_or_prefix_of_prefix h (List.prefix_append x y) with h1 | ⟨q, rfl⟩
  · exact .inl h1
  · exact .inr ⟨q, rfl, (List.prefix_append_right_inj x).mp h⟩

theorem Enc.bind {d : Dec α} {f : α → Dec β} {x1 x2 : Bytes} {a : α} {b : β}
    (h1 : Enc d x1 a) (h2 : Enc (f a) x2 b) : Enc (d.bind f) (x1 ++ x2) b := by
  constructor
  · intro r
    simp only [Dec.bind, List.append_assoc, h1.1, h2.1]
  · intro p hp hne
    simp only [Dec.bind]
    rcases prefix_append_cases hp with hp1 | ⟨q, rfl, hq⟩
    · by_cases heq : p = x1
      · subst heq
        have := h1.1 []
        simp only [List.append_nil] at this
        rw [this]
        simp only
        apply h2.2 [] List.nil_prefix
        intro h'; apply hne; simp [← h']
      · rw [h1.2 p hp1 heq]
    · rw [h1.1 q]
      simp only
      apply h2.2 q hq
      intro h'; apply hne; simp [h']

theorem Enc.map {d : Dec α} {x : Bytes} {a : α} (f : α → β) (h : Enc d x a) : Enc (d.map f) x (f a) := by
  constructor
  · intro r; simp [Dec.map, h.1]
  · intro p hp hne; simp [Dec.map, h.2 p hp hne]

theorem Enc.filterMap {d : Dec α} {x : Bytes} {a : α} {f : α → Option β} {b : β} (h : Enc d x a)
    (hf : f a = some b) : Enc (d.filterMap f) x b := by
  constructor
  · intro r; simp [Dec.filterMap, h.1, hf]
  · intro p hp hne; simp [Dec.filterMap, h.2 p hp hne]

theorem Enc.pure (a : α) : Enc (Dec.pure a) [] a := by
  constructor
  · intro r; rfl
  · intro p hp hne
    exact absurd (List.prefix_nil.mp hp) hne

theorem take_incomplete {n : Nat} {p : Bytes} (h : p.length < n) : take n p = .incomplete := by
  simp [take, h]

theorem Enc.take {n : Nat} {x : Bytes} (h : x.length = n) : Enc (take n) x x := by
  constructor
  · intro r; exact take_append h
  · intro p hp hne
    apply take_incomplete
    have hl := hp.length_le
    rcases Nat.lt_or_ge p.length n with h' | h'
    · exact h'
    · exfalso; apply hne
      exact hp.eq_of_length (by omega)

theorem Enc.u8 (v : UInt8) : Enc u8 [v] v := by
  constructor
  · intro r; rfl
  · intro p hp hne
    cases p with
    | nil => rfl
    | cons y t =>
      exfalso; apply hne
      have hl := hp.length_le
      have : t = [] := by
        cases t with
        | nil => rfl
        | cons _ _ => simp at hl
      subst this
      obtain ⟨s, hs⟩ := hp
      simp at hs
      simp [hs.1]

theorem Enc.beNat {k n : Nat} (h : n < 256 ^ k) : Enc (beNat k) (beEnc k n) n := by
  have := (Enc.take (length_beEnc k n)).map beVal
  rw [beVal_beEnc k n h] at this
  exact this

/-- A complete, length-delimited payload followed by an inner decode that succeeds on it. -/
theorem Enc.nested {outer : Dec Bytes} {inner : Dec α} {x p r' : Bytes} {a : α}
    (ho : Enc outer x p) (hi : inner p = .ok a r') : Enc (Dec.nested outer inner) x a := by
  constructor
  · intro r
    simp [Dec.nested, ho.1, Dec.sealed, hi]
  · intro q hq hne
    simp [Dec.nested, ho.2 q hq hne]

/-! ## The stream deserializer -/

/-- Fuel: draining never runs out of fuel when every decoded item consumes at least one byte. -/
theorem drain_fuel_sufficient {d : Dec α}
    (hprog : ∀ b a r, d b = .ok a r → r.length < b.length) :
    ∀ (fuel : Nat) (s : Deser), s.buf.length < fuel → (Deser.drain d fuel s).isSome := by
  intro fuel
  induction fuel with
  | zero => intro s h; omega
  | succ fuel ih =>
    intro s h
    unfold Deser.drain Deser.next
    cases hd : d s.buf with
    | ok a r =>
      simp only
      have hr := hprog _ _ _ hd
      have := ih ⟨r⟩ (by simp; omega)
      cases hdr : Deser.drain d fuel ⟨r⟩ with
      | none => simp [hdr] at this
      | some v => obtain ⟨as, s'', st⟩ := v; simp
    | incomplete => simp
    | invalid => simp
    | panic site => simp

/-- Concatenated encodings. -/
def encAll (e : α → Bytes) (as : List α) : Bytes := (as.map e).flatten

theorem encAll_cons (e : α → Bytes) (a : α) (as : List α) : encAll e (a :: as) = e a ++ encAll e as := by
  simp [encAll]

theorem encAll_append (e : α → Bytes) (as bs : List α) : encAll e (as ++ bs) = encAll e as ++ encAll e bs := by
  simp [encAll]

/-- Draining a buffer that holds a prefix of a sequence of encodings yields the items that are complete,
leaves a strict prefix of the next one, and asks for more. -/
theorem drain_prefix {d : Dec α} {e : α → Bytes} (hnil : d [] = .incomplete) :
    ∀ (as : List α), (∀ a ∈ as, Enc d (e a) a ∧ e a ≠ []) →
    ∀ (p : Bytes), p <+: encAll e as → ∀ fuel, p.length < fuel →
    ∃ k p', Deser.drain d fuel ⟨p⟩ = some (as.take k, ⟨p'⟩, .more) ∧ p = encAll e (as.take k) ++ p' ∧
      d p' = .incomplete := by
  intro as
  induction as with
  | nil =>
    intro _ p hp fuel hf
    have : p = [] := List.prefix_nil.mp hp
    subst this
    cases fuel with
    | zero => omega
    | succ fuel =>
      refine ⟨0, [], ?_, by simp [encAll], hnil⟩
      simp [Deser.drain, Deser.next, hnil]
  | cons a as ih =>
    intro henc p hp fuel hf
    obtain ⟨ha, hne⟩ := henc a (by simp)
    cases fuel with
    | zero => omega
    | succ fuel =>
      rw [encAll_cons] at hp
      have hcase : (p <+: e a ∧ p ≠ e a) ∨ ∃ q, p = e a ++ q ∧ q <+: encAll e as := by
        rcases prefix_append_cases hp with h1 | h2
        · by_cases heq : p = e a
          · right; exact ⟨[], by simp [heq], List.nil_prefix⟩
          · left; exact ⟨h1, heq⟩
        · right; exact h2
      rcases hcase with ⟨h1, h2⟩ | ⟨q, rfl, hq⟩
      · refine ⟨0, p, ?_, by simp [encAll], ha.2 p h1 h2⟩
        simp [Deser.drain, Deser.next, ha.2 p h1 h2]
      · have hlen : 0 < (e a).length := List.length_pos_iff.mpr hne
        obtain ⟨k, p', hdr, hq', hinc⟩ :=
          ih (fun x hx => henc x (by simp [hx])) q hq fuel (by simp at hf; omega)
        refine ⟨k + 1, p', ?_, ?_, hinc⟩
        · simp [Deser.drain, Deser.next, ha.1 q, hdr]
        · simp only [List.take_succ_cons, encAll_cons, List.append_assoc]
          rw [← hq']

/-- **Chunking independence (generic).** Feeding the concatenated encodings of `as`, split into arbitrary
chunks, into an empty deserializer and draining after every chunk yields exactly `as`, in order, leaves the
buffer empty and never reports an error. -/
theorem feed_chunks_aux {d : Dec α} {e : α → Bytes} (hnil : d [] = .incomplete) (B : Nat) :
    ∀ (chunks : List Bytes) (as : List α) (buf : Bytes),
    (∀ a ∈ as, Enc d (e a) a ∧ e a ≠ []) →
    d buf = .incomplete →
    buf ++ chunks.flatten = encAll e as →
    (encAll e as).length ≤ B →
    ∃ groups, Deser.feed d B ⟨buf⟩ chunks = some (groups, ⟨[]⟩, .more) ∧ groups.flatten = as ∧
      groups.length = chunks.length := by
  intro chunks
  induction chunks with
  | nil =>
    intro as buf henc hinc hcat hB
    simp only [List.flatten_nil, List.append_nil] at hcat
    have has : as = [] := by
      cases as with
      | nil => rfl
      | cons a as =>
        exfalso
        rw [encAll_cons] at hcat
        have := (henc a (by simp)).1.1 (encAll e as)
        rw [← hcat, hinc] at this
        cases this
    subst has
    simp only [encAll, List.map_nil, List.flatten_nil] at hcat
    subst hcat
    exact ⟨[], rfl, rfl, rfl⟩
  | cons c cs ih =>
    intro as buf henc hinc hcat hB
    simp only [List.flatten_cons] at hcat
    have hpre : buf ++ c <+: encAll e as := ⟨cs.flatten, by rw [← hcat]; simp⟩
    have hlen : (buf ++ c).length ≤ B := Nat.le_trans hpre.length_le hB
    obtain ⟨k, p', hdr, hsplit, hinc'⟩ :=
      drain_prefix hnil as henc (buf ++ c) hpre ((buf ++ c).length + 1) (Nat.lt_succ_self _)
    have hrest : p' ++ cs.flatten = encAll e (as.drop k) := by
      have h1 : encAll e as = encAll e (as.take k) ++ encAll e (as.drop k) := by
        rw [← encAll_append, List.take_append_drop]
      rw [h1, ← List.append_assoc, hsplit, List.append_assoc] at hcat
      exact List.append_cancel_left hcat
    have hB' : (encAll e (as.drop k)).length ≤ B := by
      have h1 : encAll e as = encAll e (as.take k) ++ encAll e (as.drop k) := by
        rw [← encAll_append, List.take_append_drop]
      rw [h1] at hB; simp at hB; omega
    obtain ⟨groups, hfeed, hflat, hgl⟩ :=
      ih (as.drop k) p' (fun x hx => henc x (List.mem_of_mem_drop hx)) hinc' hrest hB'
    refine ⟨as.take k :: groups, ?_, ?_, by simp [hgl]⟩
    · have hin : (Deser.mk buf).input B c = some ⟨buf ++ c⟩ := by
        simp only [Deser.input, List.length_append] at hlen ⊢
        rw [if_neg (by omega)]
      simp only [Deser.feed, hin, drainFuel, hdr, hfeed]
    · simp [hflat]

theorem feed_chunks {d : Dec α} {e : α → Bytes} (hnil : d [] = .incomplete)
    (as : List α) (henc : ∀ a ∈ as, Enc d (e a) a ∧ e a ≠ [])
    (chunks : List Bytes) (hc : chunks.flatten = encAll e as) (B : Nat) (hB : (encAll e as).length ≤ B) :
    ∃ groups, Deser.feed d B ⟨[]⟩ chunks = some (groups, ⟨[]⟩, .more) ∧ groups.flatten = as ∧
      groups.length = chunks.length :=
  feed_chunks_aux hnil B chunks as [] henc hnil (by simpa using hc) hB

/-! ### The inbox bound

The inbox bound must only ever be compared with the UNDECODED remainder: the bytes of the stream received
so far minus the frames that are complete in them. -/

/-- Undecoded remainder (in bytes) after `n` bytes of a stream whose items have lengths `lens`. -/
def pendingLen : List Nat → Nat → Nat
  | [], n => n
  | l :: ls, n => if l ≤ n then pendingLen ls (n - l) else n

/-- Every chunk fits the inbox together with the undecoded remainder it is appended to (`n` = bytes
received before the first of `chunks`). -/
def FitsInbox (B : Nat) (lens : List Nat) : Nat → List Bytes → Prop
  | _, [] => True
  | n, c :: cs => pendingLen lens n + c.length ≤ B ∧ FitsInbox B lens (n + c.length) cs

theorem pendingLen_lt {l : Nat} {ls : List Nat} {n : Nat} (h : n < l) : pendingLen (l :: ls) n = n := by
  simp [pendingLen, Nat.not_le.mpr h]

theorem pendingLen_drop (lens : List Nat) (k n : Nat) (h : (lens.take k).sum ≤ n) :
    pendingLen lens n = pendingLen (lens.drop k) (n - (lens.take k).sum) := by
  induction k generalizing lens n with
  | zero => simp
  | succ k ih =>
    cases lens with
    | nil => simp
    | cons l ls =>
      simp only [List.take_succ_cons, List.sum_cons, List.drop_succ_cons] at h ⊢
      have hl : l ≤ n := by omega
      simp only [pendingLen, hl, if_true]
      rw [ih ls (n - l) (by omega)]
      congr 1
      omega

theorem fitsInbox_drop (B : Nat) (lens : List Nat) (k : Nat) :
    ∀ (cs : List Bytes) (n : Nat), (lens.take k).sum ≤ n → FitsInbox B lens n cs →
      FitsInbox B (lens.drop k) (n - (lens.take k).sum) cs := by
  intro cs
  induction cs with
  | nil => intro n _ _; trivial
  | cons c cs ih =>
    intro n hn hf
    obtain ⟨h1, h2⟩ := hf
    refine ⟨by rw [← pendingLen_drop lens k n hn]; exact h1, ?_⟩
    have := ih (n + c.length) (by omega) h2
    have e : n + c.length - (lens.take k).sum = n - (lens.take k).sum + c.length := by omega
    rw [e] at this
    exact this

theorem length_encAll (e : α → Bytes) (as : List α) : (encAll e as).length = (as.map fun a => (e a).length).sum := by
  induction as with
  | nil => rfl
  | cons a as ih => rw [encAll_cons, List.length_append, ih]; simp

/-- **Chunking independence with the inbox bound (generic).** As `feed_chunks`, for an inbox of ANY size
`B`: it is enough that every chunk fits together with the undecoded remainder it is appended to. -/
theorem feed_chunks_bounded_aux {d : Dec α} {e : α → Bytes} (hnil : d [] = .incomplete) (B : Nat) :
    ∀ (chunks : List Bytes) (as : List α) (buf : Bytes),
    (∀ a ∈ as, Enc d (e a) a ∧ e a ≠ []) →
    d buf = .incomplete →
    buf ++ chunks.flatten = encAll e as →
    FitsInbox B (as.map fun a => (e a).length) buf.length chunks →
    ∃ groups, Deser.feed d B ⟨buf⟩ chunks = some (groups, ⟨[]⟩, .more) ∧ groups.flatten = as ∧
      groups.length = chunks.length := by
  intro chunks
  induction chunks with
  | nil =>
    intro as buf henc hinc hcat _
    simp only [List.flatten_nil, List.append_nil] at hcat
    have has : as = [] := by
      cases as with
      | nil => rfl
      | cons a as =>
        exfalso
        rw [encAll_cons] at hcat
        have := (henc a (by simp)).1.1 (encAll e as)
        rw [← hcat, hinc] at this
        cases this
    subst has
    simp only [encAll, List.map_nil, List.flatten_nil] at hcat
    subst hcat
    exact ⟨[], rfl, rfl, rfl⟩
  | cons c cs ih =>
    intro as buf henc hinc hcat hfit
    simp only [List.flatten_cons] at hcat
    obtain ⟨hfit1, hfit2⟩ := hfit
    -- the buffer is the undecoded remainder: a strict prefix of the first encoding
    have hpend : pendingLen (as.map fun a => (e a).length) buf.length = buf.length := by
      cases as with
      | nil => rfl
      | cons a as' =>
        simp only [List.map_cons]
        apply pendingLen_lt
        rcases Nat.lt_or_ge buf.length (e a).length with h | h
        · exact h
        · exfalso
          rw [encAll_cons] at hcat
          -- `e a` is a prefix of `buf`, so `d buf` would be `ok`
          have hpre : e a <+: buf := by
            have h1 : e a <+: buf ++ (c ++ cs.flatten) := ⟨encAll e as', hcat.symm⟩
            rcases prefix_append_cases h1 with h2 | ⟨q, hq, _⟩
            · exact h2
            · have : buf <+: e a := ⟨q, hq.symm⟩
              have := this.eq_of_length (by have := this.length_le; omega)
              rw [this]; exact ⟨[], by simp⟩
          obtain ⟨t, ht⟩ := hpre
          have := (henc a (by simp)).1.1 t
          rw [ht, hinc] at this
          cases this
    have hlen : (buf ++ c).length ≤ B := by
      rw [List.length_append]; omega
    have hpre : buf ++ c <+: encAll e as := ⟨cs.flatten, by rw [← hcat]; simp⟩
    obtain ⟨k, p', hdr, hsplit, hinc'⟩ :=
      drain_prefix hnil as henc (buf ++ c) hpre ((buf ++ c).length + 1) (Nat.lt_succ_self _)
    have hrest : p' ++ cs.flatten = encAll e (as.drop k) := by
      have h1 : encAll e as = encAll e (as.take k) ++ encAll e (as.drop k) := by
        rw [← encAll_append, List.take_append_drop]
      rw [h1, ← List.append_assoc, hsplit, List.append_assoc] at hcat
      exact List.append_cancel_left hcat
    have hsum : ((as.map fun a => (e a).length).take k).sum = (encAll e (as.take k)).length := by
      rw [length_encAll, List.map_take]
    have hfit' : FitsInbox B ((as.drop k).map fun a => (e a).length) p'.length cs := by
      have h1 := fitsInbox_drop B (as.map fun a => (e a).length) k cs (buf.length + c.length)
        (by rw [hsum, ← List.length_append, hsplit]; simp) hfit2
      rw [hsum, ← List.length_append, hsplit, ← List.map_drop] at h1
      simpa using h1
    obtain ⟨groups, hfeed, hflat, hgl⟩ :=
      ih (as.drop k) p' (fun x hx => henc x (List.mem_of_mem_drop hx)) hinc' hrest hfit'
    refine ⟨as.take k :: groups, ?_, ?_, by simp [hgl]⟩
    · have hin : (Deser.mk buf).input B c = some ⟨buf ++ c⟩ := by
        simp only [Deser.input, List.length_append] at hlen ⊢
        rw [if_neg (by omega)]
      simp only [Deser.feed, hin, drainFuel, hdr, hfeed]
    · simp [hflat]

theorem feed_chunks_bounded {d : Dec α} {e : α → Bytes} (hnil : d [] = .incomplete)
    (as : List α) (henc : ∀ a ∈ as, Enc d (e a) a ∧ e a ≠ [])
    (chunks : List Bytes) (hc : chunks.flatten = encAll e as) (B : Nat)
    (hB : FitsInbox B (as.map fun a => (e a).length) 0 chunks) :
    ∃ groups, Deser.feed d B ⟨[]⟩ chunks = some (groups, ⟨[]⟩, .more) ∧ groups.flatten = as ∧
      groups.length = chunks.length :=
  feed_chunks_bounded_aux hnil B chunks as [] henc hnil (by simpa using hc) (by simpa using hB)

/-- The buffer never holds more than what was received. -/
theorem input_length {B : Nat} {s s' : Deser} {c : Bytes} (h : s.input B c = some s') :
    s'.buf.length = s.buf.length + c.length := by
  unfold Deser.input at h
  split at h
  · cases h
  · cases h; simp

end HeartwoodModel.Codec
