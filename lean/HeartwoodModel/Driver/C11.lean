/-! Driver entry for property C11 (stub: not implemented yet). -/
namespace HeartwoodModel.Driver.C11

def run (_args : List String) : String := "unimplemented"

end HeartwoodModel.Driver.C11
