import HeartwoodModel.Driver.Loop
import HeartwoodModel.Driver.C26
def main : IO Unit := HeartwoodModel.Driver.driverMain "C26" HeartwoodModel.Driver.C26.run
