import HeartwoodModel.Model.Streams
/-! Invariant of the stream table under the `Open` handler of 614904d (C13d). -/
namespace HeartwoodModel.Streams

/-- Every registered id that carries our initiator bit was allocated by us: it is `git(link).nth(k)` for
some `k ≤ seq`. -/
def Inv (σ : State) : Prop :=
  ∀ id, id ∈ σ.streams → id % 2 = σ.link.bit → ∃ k, k ≤ σ.seq ∧ id = gitId σ.link k

theorem gitId_parity (l : Link) (n : Nat) : gitId l n % 2 = l.bit := by
  cases l <;> simp [gitId, Link.bit] <;> omega

theorem init_inv (l : Link) : Inv (init l) := by
  intro id h; simp [init] at h

theorem step_fixed {σ : State} (h : Inv σ) (hb : gitId σ.link (σ.seq + 1) < ID_BOUND) (op : Op) :
    ∃ σ' evs, step Code.current σ op = .ok (σ', evs) ∧ Inv σ' ∧ σ'.link = σ.link ∧ σ'.seq ≤ σ.seq + 1 := by
  cases op with
  | recvOpen id =>
    simp only [step, Code.current, Bool.true_and]
    by_cases hc : (decide (id % 2 = σ.link.bit) || decide (idKind id ≠ 2)) = true
    · rw [if_pos hc]; exact ⟨σ, [], rfl, h, rfl, by omega⟩
    · rw [if_neg hc]
      by_cases hm : id ∈ σ.streams
      · rw [if_pos hm]; exact ⟨σ, [], rfl, h, rfl, by omega⟩
      · rw [if_neg hm]
        refine ⟨_, _, rfl, ?_, rfl, by simp⟩
        intro id' hin hpar
        simp only [List.mem_cons] at hin
        rcases hin with rfl | hin
        · exfalso; apply hc; simp [hpar]
        · exact h id' hin hpar
  | recvClose id =>
    refine ⟨_, _, rfl, ?_, rfl, by simp [step]⟩
    intro id' hin hpar
    exact h id' (List.mem_filter.mp hin).1 hpar
  | recvEof id => exact ⟨σ, [], rfl, h, rfl, by omega⟩
  | recvGit id => exact ⟨σ, [], rfl, h, rfl, by omega⟩
  | fetch =>
    simp only [step]
    have hnb : ¬ ID_BOUND ≤ gitId σ.link (σ.seq + 1) := by omega
    rw [if_neg hnb]
    have hnm : gitId σ.link (σ.seq + 1) ∉ σ.streams := by
      intro hin
      obtain ⟨k, hk, he⟩ := h _ hin (gitId_parity _ _)
      simp only [gitId] at he
      omega
    rw [if_neg hnm]
    refine ⟨_, _, rfl, ?_, rfl, by simp⟩
    intro id' hin hpar
    simp only [List.mem_cons] at hin
    rcases hin with rfl | hin
    · exact ⟨σ.seq + 1, Nat.le_refl _, rfl⟩
    · obtain ⟨k, hk, he⟩ := h id' hin hpar
      exact ⟨k, by simp only; omega, he⟩
  | workerResult id =>
    simp only [step]
    by_cases hm : id ∈ σ.streams
    · rw [if_pos hm]
      refine ⟨_, _, rfl, ?_, rfl, by simp⟩
      intro id' hin hpar
      exact h id' (List.mem_filter.mp hin).1 hpar
    · rw [if_neg hm]; exact ⟨σ, [], rfl, h, rfl, by omega⟩

theorem run_fixed : ∀ (ops : List Op) (σ : State), Inv σ → gitId σ.link (σ.seq + ops.length) < ID_BOUND →
    ∀ r, r ∈ run Code.current σ ops → ∀ s, r ≠ .error s := by
  intro ops
  induction ops with
  | nil => intro σ _ _ r hr; simp [run] at hr
  | cons op ops ih =>
    intro σ h hb r hr s
    have hb1 : gitId σ.link (σ.seq + 1) < ID_BOUND := by
      simp only [gitId, List.length_cons] at hb ⊢; omega
    obtain ⟨σ', evs, hs, hi, hl, hq⟩ := step_fixed h hb1 op
    simp only [run, hs, List.mem_cons] at hr
    rcases hr with rfl | hr
    · simp
    · refine ih σ' hi ?_ r hr s
      simp only [gitId, List.length_cons, hl] at hb ⊢; omega

end HeartwoodModel.Streams
