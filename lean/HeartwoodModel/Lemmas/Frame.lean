import HeartwoodModel.Model.Frame
import HeartwoodModel.Lemmas.Varint
/-!
# Lemmas about the frame model (C13a, C14)
-/
set_option linter.unusedSimpArgs false
set_option linter.unusedVariables false
namespace HeartwoodModel.Frame
open HeartwoodModel.Codec

variable {M : Type}

theorem version_no_panic : NoPanic version := (NoPanic.take 4).filterMap _

theorem control_no_panic : NoPanic control := by
  apply NoPanic.u8.bind
  intro c
  split
  · exact Varint.decode_no_panic.map _
  · split
    · exact Varint.decode_no_panic.map _
    · split
      · exact Varint.decode_no_panic.map _
      · exact NoPanic.fail

/-- The body of a frame, after version and stream id. -/
def body (decM : Dec M) (sid : Nat) : Dec (Frame M) :=
  match kindOf sid with
  | some .control => control.map fun c => ⟨sid, .control c⟩
  | some .gossip => (Dec.nested Varint.payloadDecode decM).map fun m => ⟨sid, .gossip m⟩
  | some .git => Varint.payloadDecode.map fun p => ⟨sid, .git p⟩
  | none => Dec.fail

theorem decode_eq (decM : Dec M) :
    decode decM = version.bind fun _ => Varint.decode.bind (body decM) := rfl

/-- **C13a**: frame decoding never panics, provided message decoding does not. -/
theorem decode_no_panic {decM : Dec M} (h : NoPanic decM) : NoPanic (decode decM) := by
  rw [decode_eq]
  apply version_no_panic.bind; intro _
  apply Varint.decode_no_panic.bind; intro sid
  unfold body
  split
  · exact control_no_panic.map _
  · exact (Varint.payloadDecode_no_panic.nested h).map _
  · exact Varint.payloadDecode_no_panic.map _
  · exact NoPanic.fail

theorem decode_nil (decM : Dec M) : decode decM [] = .incomplete := rfl

theorem version_ok {b r : Bytes} {u : Unit} (h : version b = .ok u r) : b = versionBytes ++ r := by
  unfold version at h
  rw [filterMap_ok_iff] at h
  obtain ⟨v, hv, hc⟩ := h
  rw [take_ok_iff] at hv
  obtain ⟨_, rfl⟩ := hv
  split at hc
  · rename_i heq; rw [heq]
  · cases hc

/-- Every decoded frame consumes at least one byte (in fact at least six). -/
theorem decode_progress {decM : Dec M} {b r : Bytes} {f : Frame M} (h : decode decM b = .ok f r) :
    r.length < b.length := by
  rw [decode_eq, bind_ok_iff] at h
  obtain ⟨u, r1, hv, h⟩ := h
  have hb := version_ok hv
  subst hb
  rw [bind_ok_iff] at h
  obtain ⟨sid, r2, hs, h⟩ := h
  have h2 := (Varint.decode_ok hs).2
  have h3 : r.length ≤ r2.length := by
    unfold body at h
    cases hk : kindOf sid with
    | none => simp only [hk] at h; cases h
    | some k =>
      cases k with
      | control =>
        simp only [hk] at h
        rw [map_ok_iff] at h
        obtain ⟨c, hc, _⟩ := h
        unfold control at hc
        rw [bind_ok_iff] at hc
        obtain ⟨cmd, r3, hu, hc⟩ := hc
        rw [u8_ok_iff] at hu
        subst hu
        have hm : ∀ (g : Nat → Control), (Varint.decode.map g) r3 = .ok c r →
            r.length ≤ (cmd :: r3).length := by
          intro g hg
          rw [map_ok_iff] at hg
          obtain ⟨n, hn, _⟩ := hg
          have := (Varint.decode_ok hn).2
          simp; omega
        split at hc
        · exact hm _ hc
        · split at hc
          · exact hm _ hc
          · split at hc
            · exact hm _ hc
            · cases hc
      | gossip =>
        simp only [hk] at h
        rw [map_ok_iff] at h
        obtain ⟨m, hm, _⟩ := h
        rw [nested_ok_iff] at hm
        obtain ⟨p, r', hp, _⟩ := hm
        exact Nat.le_of_lt (Varint.payloadDecode_ok hp)
      | git =>
        simp only [hk] at h
        rw [map_ok_iff] at h
        obtain ⟨p, hp, _⟩ := h
        exact Nat.le_of_lt (Varint.payloadDecode_ok hp)
  simp; omega

/-- Draining frames never runs out of the fuel the driver uses. -/
theorem drain_fuel (decM : Dec M) (s : Deser) : (Deser.drain (decode decM) (drainFuel s) s).isSome :=
  drain_fuel_sufficient (fun _ _ _ h => decode_progress h) _ s (Nat.lt_succ_self _)

theorem version_enc : Enc version versionBytes () :=
  (Enc.take (x := versionBytes) rfl).filterMap (by simp)

theorem control_enc {c : Control} {x : Bytes} (h : c.encode? = some x) : Enc control x c := by
  cases c with
  | «open» s =>
    simp only [Control.encode?, Option.map_eq_some_iff] at h
    obtain ⟨l, hl, rfl⟩ := h
    have := Enc.bind (f := fun c : UInt8 =>
      if c = 0 then Varint.decode.map Control.open
      else if c = 1 then Varint.decode.map Control.close
      else if c = 2 then Varint.decode.map Control.eof
      else Dec.fail) (Enc.u8 0) (by simpa using (Varint.encode?_enc hl).map Control.open)
    exact this
  | close s =>
    simp only [Control.encode?, Option.map_eq_some_iff] at h
    obtain ⟨l, hl, rfl⟩ := h
    have := Enc.bind (f := fun c : UInt8 =>
      if c = 0 then Varint.decode.map Control.open
      else if c = 1 then Varint.decode.map Control.close
      else if c = 2 then Varint.decode.map Control.eof
      else Dec.fail) (Enc.u8 1) (by simpa using (Varint.encode?_enc hl).map Control.close)
    exact this
  | eof s =>
    simp only [Control.encode?, Option.map_eq_some_iff] at h
    obtain ⟨l, hl, rfl⟩ := h
    have := Enc.bind (f := fun c : UInt8 =>
      if c = 0 then Varint.decode.map Control.open
      else if c = 1 then Varint.decode.map Control.close
      else if c = 2 then Varint.decode.map Control.eof
      else Dec.fail) (Enc.u8 2) (by simpa using (Varint.encode?_enc hl).map Control.eof)
    exact this

/-- The inner message codec round-trips on `m`: what `wire::serialize(m)` wrote decodes back to `m`
(anything the decoder leaves over is ignored). -/
def MsgRoundTrip (encM : M → Option Bytes) (decM : Dec M) (m : M) : Prop :=
  ∀ pm, encM m = some pm → ∃ r', decM pm = .ok m r'

/-- Every frame the encoder can write, whose stream kind matches its data and whose message (if any)
round-trips, has a self-delimiting encoding that decodes to it. -/
theorem encode?_enc {encM : M → Option Bytes} {decM : Dec M} {f : Frame M} {x : Bytes}
    (h : encode? encM f = some x) (hk : f.kindOk)
    (hm : ∀ m, f.data = .gossip m → MsgRoundTrip encM decM m) :
    Enc (decode decM) x f := by
  obtain ⟨sid, data⟩ := f
  unfold encode? at h
  cases hs : Varint.encode? sid with
  | none => simp [hs] at h
  | some sb =>
    simp only [hs, Option.map_eq_some_iff] at h
    obtain ⟨bd, hbd, rfl⟩ := h
    rw [decode_eq, List.append_assoc]
    refine Enc.bind version_enc (Enc.bind (Varint.encode?_enc hs) ?_)
    unfold Frame.kindOk at hk
    cases data with
    | control c =>
      simp only at hk hbd
      simp only [body, hk]
      exact (control_enc hbd).map _
    | gossip m =>
      simp only at hk hbd
      simp only [body, hk]
      cases hem : encM m with
      | none => simp [hem] at hbd
      | some pm =>
        simp only [hem, Option.bind_some] at hbd
        obtain ⟨r', hr'⟩ := hm m rfl pm hem
        exact (Enc.nested (Varint.payload_enc hbd) hr').map _
    | git d =>
      simp only at hk hbd
      simp only [body, hk]
      exact (Varint.payload_enc hbd).map _

theorem encode?_ne_nil {encM : M → Option Bytes} {f : Frame M} {x : Bytes}
    (h : encode? encM f = some x) : x ≠ [] := by
  unfold encode? at h
  cases hs : Varint.encode? f.stream with
  | none => simp [hs] at h
  | some sb =>
    simp only [hs, Option.map_eq_some_iff] at h
    obtain ⟨bd, _, rfl⟩ := h
    simp [versionBytes]

/-! ### complete but invalid -/

/-- What `decode` does once the envelope of a gossip frame is complete: header decoded, stream kind
gossip, declared payload length `n` satisfied by the bytes present. The inner message is decoded from
exactly the `n` payload bytes; running out of them is an ERROR (`invalid`), never `incomplete`. -/
theorem decode_gossip_complete {decM : Dec M} {b r1 r2 : Bytes} {u : Unit} {sid n : Nat}
    (hv : version b = .ok u r1) (hs : Varint.decode r1 = .ok sid (r2))
    (hk : kindOf sid = some .gossip) {r3 : Bytes} (hl : Varint.decode r2 = .ok n r3) (hn : n ≤ r3.length) :
    decode decM b =
      match decM (r3.take n) with
      | .ok m _ => .ok ⟨sid, .gossip m⟩ (r3.drop n)
      | .incomplete => .invalid
      | .invalid => .invalid
      | .panic s => .panic s := by
  have hp := Varint.payloadDecode_complete hl hn
  simp only [decode_eq, Dec.bind, hv, hs, body, hk, Dec.map, Dec.nested, hp, Dec.sealed]
  cases decM (List.take n r3) <;> rfl

/-- A git frame whose envelope is complete always decodes. -/
theorem decode_git_complete {decM : Dec M} {b r1 r2 : Bytes} {u : Unit} {sid n : Nat}
    (hv : version b = .ok u r1) (hs : Varint.decode r1 = .ok sid (r2))
    (hk : kindOf sid = some .git) {r3 : Bytes} (hl : Varint.decode r2 = .ok n r3) (hn : n ≤ r3.length) :
    decode decM b = .ok ⟨sid, .git (r3.take n)⟩ (r3.drop n) := by
  have hp := Varint.payloadDecode_complete hl hn
  simp only [decode_eq, Dec.bind, hv, hs, body, hk, Dec.map, hp]

/-! ### allocation -/

theorem alloc_le {allocM : Bytes → Nat} {KM : Nat} (hM : ∀ p, allocM p ≤ KM) (b : Bytes) :
    alloc allocM b ≤ KM + 32 + 2 * b.length := by
  unfold alloc
  cases h : (version.bind fun _ => Varint.decode) b with
  | ok sid r =>
    simp only
    have hr : r.length ≤ b.length := by
      rw [bind_ok_iff] at h
      obtain ⟨u, r1, hv, hs⟩ := h
      have := version_ok hv
      subst this
      have := (Varint.decode_ok hs).2
      simp; omega
    have hp := Varint.payloadAlloc_le r
    cases hk : kindOf sid with
    | none => simp
    | some k =>
      cases k with
      | control => simp
      | gossip =>
        simp only
        cases hpd : Varint.payloadDecode r with
        | ok p r' =>
          simp only
          have := hM p
          rw [Nat.max_le]
          constructor <;> omega
        | incomplete => simp only; omega
        | invalid => simp only; omega
        | panic s => simp only; omega
      | git => simp only; omega
  | incomplete => simp
  | invalid => simp
  | panic s => simp

end HeartwoodModel.Frame
