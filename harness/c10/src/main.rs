//! C10 harness (stub: not implemented yet).
fn main() {
    eprintln!("C10: harness not implemented");
    std::process::exit(3);
}
