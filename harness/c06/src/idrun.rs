//! Identity-COB histories for the C06 harness. The scenario language, the construction of the history as
//! real change commits and the projection of the state are those of the C04 harness (`../c04/src/main.rs`,
//! copied so that this crate does not depend on another crate's private items); what is added here is the
//! evaluation of the *surviving* sub-history through explicit tips (`eval_sub`).
#![allow(dead_code)]

use std::collections::BTreeMap;

use crate::inject::*;
use nonempty::NonEmpty;
use radicle::cob;
use radicle::cob::identity::{Action, Identity};
use radicle::crypto::signature::Signer as _;
use radicle::crypto::Signature;
use radicle::git::Oid;
use radicle::identity::doc::Doc;
use radicle::storage::git::Repository;
use radicle::storage::WriteRepository;
use serde_json::Value;
use verif_common::*;

#[derive(Clone, Debug, PartialEq)]
pub enum IdAct {
    Revision { title: u64, doc: Option<usize>, parent: Option<u64>, sig: usize },
    Edit { rev: u64, title: u64 },
    Accept { rev: u64, sig: usize },
    Reject { rev: u64 },
    Redact { rev: u64 },
}

#[derive(Clone, Debug)]
pub struct IdOp {
    pub author: usize,
    pub ts: u64,
    pub tips: Vec<usize>,
    pub actions: Vec<IdAct>,
}

#[derive(Clone, Debug)]
pub struct IdCase {
    pub repo_doc: usize,
    pub docs: Vec<Vec<usize>>,
    /// (signer, Some(doc) | None = other bytes)
    pub sigs: Vec<(usize, Option<usize>)>,
    pub vtable: Vec<(usize, usize, usize)>,
    pub order: Vec<(usize, bool)>,
    pub ops: Vec<IdOp>,
}

pub const FAKE_ID_BASE: u64 = 90;

pub fn parse_action(s: &str, ndocs: usize, nsigs: usize) -> Option<IdAct> {
    let f = split(s, ',');
    let sig = |x: &str| -> Option<usize> {
        let v = nat(x)? as usize;
        if v < nsigs {
            Some(v)
        } else {
            None
        }
    };
    Some(match f.as_slice() {
        ["rv", t, d, p, sg] => IdAct::Revision {
            title: nat(t)?,
            doc: if *d == "x" {
                None
            } else {
                let i = nat(d)? as usize;
                if i >= ndocs {
                    return None;
                }
                Some(i)
            },
            parent: if *p == "-" { None } else { Some(nat(p)?) },
            sig: sig(sg)?,
        },
        ["ed", r, t] => IdAct::Edit { rev: nat(r)?, title: nat(t)? },
        ["ac", r, sg] => IdAct::Accept { rev: nat(r)?, sig: sig(sg)? },
        ["rj", r] => IdAct::Reject { rev: nat(r)? },
        ["rd", r] => IdAct::Redact { rev: nat(r)? },
        _ => return None,
    })
}

pub fn show_action(a: &IdAct) -> String {
    match a {
        IdAct::Revision { title, doc, parent, sig } => format!(
            "rv,{title},{},{},{sig}",
            doc.map(|d| d.to_string()).unwrap_or("x".into()),
            parent.map(|p| p.to_string()).unwrap_or("-".into())
        ),
        IdAct::Edit { rev, title } => format!("ed,{rev},{title}"),
        IdAct::Accept { rev, sig } => format!("ac,{rev},{sig}"),
        IdAct::Reject { rev } => format!("rj,{rev}"),
        IdAct::Redact { rev } => format!("rd,{rev}"),
    }
}

pub fn refs_of(a: &IdAct) -> Vec<u64> {
    match a {
        IdAct::Revision { parent, .. } => parent.iter().cloned().collect(),
        IdAct::Edit { rev, .. } | IdAct::Accept { rev, .. } | IdAct::Reject { rev } | IdAct::Redact { rev } => vec![*rev],
    }
}

pub fn parse(input: &str) -> Option<IdCase> {
    let toks: Vec<&str> = input.split(' ').collect();
    if toks.len() < 7 || toks[0] != "id" {
        return None;
    }
    let repo_doc = nat(toks[1])? as usize;
    let docs: Vec<Vec<usize>> = split(toks[2], ';')
        .into_iter()
        .map(|d| nat_list(d, ',').map(|v| v.into_iter().map(|x| x as usize).collect::<Vec<_>>()))
        .collect::<Option<_>>()?;
    if repo_doc >= docs.len() || docs.iter().any(|d| d.is_empty() || d.iter().any(|k| *k >= N_ACTORS)) {
        return None;
    }
    let sigs: Vec<(usize, Option<usize>)> = split(toks[3], ';')
        .into_iter()
        .map(|s| {
            let f = split(s, '.');
            if f.len() != 2 {
                return None;
            }
            let signer = nat(f[0])? as usize;
            if signer >= N_ACTORS {
                return None;
            }
            let over = if f[1] == "x" {
                None
            } else {
                let d = nat(f[1])? as usize;
                if d >= docs.len() {
                    return None;
                }
                Some(d)
            };
            Some((signer, over))
        })
        .collect::<Option<_>>()?;
    let mut ops = vec![];
    for (i, t) in toks[6..].iter().enumerate() {
        let f = split(t, ':');
        if f.len() != 4 {
            return None;
        }
        let author = nat(f[0])? as usize;
        if author >= N_ACTORS {
            return None;
        }
        let ts = nat(f[1])?;
        let tips: Vec<usize> = nat_list(f[2], ',')?.into_iter().map(|x| x as usize).collect();
        if tips.iter().any(|t| *t >= i) || (i > 0 && tips.is_empty()) || (i == 0 && !tips.is_empty()) {
            return None;
        }
        let actions: Vec<IdAct> =
            split(f[3], '|').into_iter().map(|a| parse_action(a, docs.len(), sigs.len())).collect::<Option<_>>()?;
        for a in &actions {
            for r in refs_of(a) {
                if r >= i as u64 && r < FAKE_ID_BASE {
                    return None;
                }
            }
        }
        ops.push(IdOp { author, ts, tips, actions });
    }
    Some(IdCase { repo_doc, docs, sigs, vtable: vec![], order: vec![], ops })
}

pub fn render(c: &IdCase) -> String {
    let l = |v: &[usize]| show_list(&v.iter().map(|x| x.to_string()).collect::<Vec<_>>(), ",");
    let mut s = format!(
        "id {} {} {} {} {}",
        c.repo_doc,
        c.docs.iter().map(|d| l(d)).collect::<Vec<_>>().join(";"),
        c.sigs
            .iter()
            .map(|(s, o)| format!("{s}.{}", o.map(|d| d.to_string()).unwrap_or("x".into())))
            .collect::<Vec<_>>()
            .join(";"),
        show_list(&c.vtable.iter().map(|(k, s, b)| format!("{k}.{s}.{b}")).collect::<Vec<_>>(), ","),
        show_list(&c.order.iter().map(|(i, c)| format!("{i}.{}", *c as u8)).collect::<Vec<_>>(), ","),
    );
    for o in &c.ops {
        s.push_str(&format!(
            " {}:{}:{}:{}",
            o.author,
            o.ts,
            l(&o.tips),
            o.actions.iter().map(show_action).collect::<Vec<_>>().join("|")
        ));
    }
    s
}

/// Repositories of this storage, one per root document (a repository is named after its root blob).
pub struct Repos {
    pub repos: BTreeMap<String, Repository>,
}

pub struct Run {
    pub output: String,
    pub steps: Vec<(usize, bool, usize, Identity, Identity)>,
    pub init: Option<Identity>,
    pub docs: Vec<Doc>,
    pub blobs: Vec<Oid>,
    pub sigs: Vec<Signature>,
    pub ids: Vec<Oid>,
    /// tips of the evaluated (pruned) history, as op indices
    pub tips: Vec<usize>,
    /// ops still in the evaluated history
    pub survivors: Vec<usize>,
    /// full serialisation of the evaluated identity
    pub json: String,
    pub repo_key: String,
}

pub fn doc_of(w: &World, i: usize, delegates: &[usize]) -> Result<Doc, String> {
    // distinct table entries must be distinct documents: the salt makes equal delegate lists differ
    w.make_doc(delegates, 1, if i == 0 { None } else { Some(i % N_ACTORS) })
}

pub fn id_of(ids: &[Oid], k: u64) -> Oid {
    if (k as usize) < ids.len() {
        ids[k as usize]
    } else {
        fake_oid(k)
    }
}

pub fn run_case(w: &mut World, repos: &mut Repos, case: &mut IdCase) -> Result<Run, String> {
    w.used += 1;
    let type_name = cob::identity::TYPENAME.clone();
    let docs: Vec<Doc> = case.docs.iter().enumerate().map(|(i, d)| doc_of(w, i, d)).collect::<Result<_, _>>()?;
    let blobs: Vec<Oid> = docs.iter().map(|d| d.encode().unwrap().0).collect();
    for i in 0..blobs.len() {
        for j in 0..i {
            if blobs[i] == blobs[j] {
                return Err("two table entries are the same document".into());
            }
        }
    }
    // the repository named after `repoDoc`
    let rkey = blobs[case.repo_doc].to_string();
    if !repos.repos.contains_key(&rkey) {
        let founder = case.docs[case.repo_doc][0];
        let repo = match Repository::init(&docs[case.repo_doc], &w.storage, &w.actors[founder]) {
            Ok((repo, _)) => repo,
            // the storage's own fixture repository is named after the same document
            Err(_) => {
                use radicle::storage::ReadStorage as _;
                w.storage
                    .repository(radicle::identity::RepoId::from(blobs[case.repo_doc]))
                    .map_err(|e| e.to_string())?
            }
        };
        repos.repos.insert(rkey.clone(), repo);
    }
    let repo = repos.repos.get(&rkey).unwrap();
    // blobs of every document of the case are present in the repository (as a proposer would have stored them)
    for d in &docs {
        let (_, bytes) = d.encode().unwrap();
        repo.raw().blob(&bytes).map_err(|e| e.to_string())?;
    }
    // signatures and the graph of the real verification function
    let sigs: Vec<Signature> = case
        .sigs
        .iter()
        .enumerate()
        .map(|(i, (signer, over))| match over {
            Some(d) => w.actors[*signer].sign(blobs[*d].as_bytes()),
            None => w.actors[*signer].sign(format!("these bytes are not a document blob {i}").as_bytes()),
        })
        .collect();
    let mut vtable = vec![];
    for k in 0..N_ACTORS {
        for (s, sig) in sigs.iter().enumerate() {
            for (b, blob) in blobs.iter().enumerate() {
                if w.key(k).verify(blob.as_bytes(), sig).is_ok() {
                    vtable.push((k, s, b));
                }
            }
        }
    }
    case.vtable = vtable;
    // store the history
    let mut ids: Vec<Oid> = vec![];
    for (i, o) in case.ops.iter().enumerate() {
        let mut embeds = vec![];
        let contents: Vec<Vec<u8>> = o
            .actions
            .iter()
            .map(|a| {
                let act = match a {
                    IdAct::Revision { title, doc, parent, sig } => {
                        let blob = match doc {
                            Some(d) => {
                                embeds.push(cob::Embed { name: "radicle.json".to_string(), content: blobs[*d] });
                                blobs[*d]
                            }
                            None => fake_oid(777),
                        };
                        Action::Revision {
                            title: format!("t{title}"),
                            description: String::new(),
                            blob,
                            parent: parent.map(|p| id_of(&ids, p)),
                            signature: sigs[*sig],
                        }
                    }
                    IdAct::Edit { rev, title } => {
                        Action::RevisionEdit { revision: id_of(&ids, *rev), title: format!("t{title}"), description: String::new() }
                    }
                    IdAct::Accept { rev, sig } => Action::RevisionAccept { revision: id_of(&ids, *rev), signature: sigs[*sig] },
                    IdAct::Reject { rev } => Action::RevisionReject { revision: id_of(&ids, *rev) },
                    IdAct::Redact { rev } => Action::RevisionRedact { revision: id_of(&ids, *rev) },
                };
                cob::store::encoding::encode(act).unwrap()
            })
            .collect();
        embeds.dedup_by(|a, b| a.content == b.content);
        let tips: Vec<Oid> = o.tips.iter().map(|t| ids[*t]).collect();
        w.counter += 1;
        std::env::set_var("GIT_COMMITTER_DATE", o.ts.to_string());
        use radicle::cob::change::Storage as _;
        let r = repo.store(
            None,
            vec![],
            &w.actors[o.author],
            cob::change::Template {
                type_name: type_name.clone(),
                tips,
                embeds,
                contents: NonEmpty::from_vec(contents).unwrap(),
                message: format!("op {i} #{}", w.counter),
            },
        );
        std::env::remove_var("GIT_COMMITTER_DATE");
        ids.push(r.map_err(|e| e.to_string())?.id);
    }
    // one ref per DAG tip
    let mut has_child = vec![false; case.ops.len()];
    for o in &case.ops {
        for t in &o.tips {
            has_child[*t] = true;
        }
    }
    let object = cob::ObjectId::from(ids[0]);
    let mut holders = vec![];
    use radicle::cob::object::Storage as _;
    for (n, t) in (0..case.ops.len()).filter(|i| !has_child[*i]).enumerate() {
        let key = *radicle::node::device::Device::from(radicle::crypto::test::signer::MockSigner::from_seed([150 + n as u8; 32]))
            .public_key();
        repo.update(&key, &type_name, &object, &ids[t]).map_err(|e| e.to_string())?;
        holders.push(key);
    }
    let mut hist_tips: Vec<usize> = vec![];
    let mut survivors: Vec<usize> = vec![];
    let res = catch(|| cob::get::<Traced<Identity>, _>(repo, &type_name, &object));
    for h in &holders {
        let _ = cob::object::Storage::remove(repo, h, &type_name, &object);
    }
    let traced = match res {
        Err(_) => {
            case.order = vec![];
            return Ok(Run { output: "init-panic".into(), steps: vec![], init: None, docs, blobs, sigs, ids, tips: vec![], survivors: vec![], json: String::new(), repo_key: rkey });
        }
        Ok(Err(_)) | Ok(Ok(None)) => {
            case.order = vec![];
            return Ok(Run { output: "init-err".into(), steps: vec![], init: None, docs, blobs, sigs, ids, tips: vec![], survivors: vec![], json: String::new(), repo_key: rkey });
        }
        Ok(Ok(Some(c))) => {
            hist_tips = c.history.tips().iter().filter_map(|t| ids.iter().position(|i| i == t)).collect();
            survivors = (0..ids.len()).filter(|i| c.history.graph().contains(&ids[*i])).collect();
            c.object
        }
    };
    let mut order = vec![];
    let mut steps = vec![];
    let mut res_s = String::new();
    let mut prev = traced.init.clone();
    for s in &traced.trace {
        let k = ids.iter().position(|i| *i == s.id).ok_or("unknown entry in trace")?;
        order.push((k, s.concurrent > 0));
        res_s.push(if s.ok { 'o' } else { 'e' });
        steps.push((k, s.ok, s.concurrent, prev.clone(), s.after.clone()));
        prev = s.after.clone();
    }
    case.order = order;
    let out = format!(
        "r={};{}",
        if res_s.is_empty() { "-".into() } else { res_s },
        show_identity(w, &ids, &blobs, &sigs, &traced.inner)?
    );
    hist_tips.sort();
    let json = serde_json::to_string(&traced.inner).unwrap_or_default();
    Ok(Run { output: out, steps, init: Some(traced.init), docs, blobs, sigs, ids, tips: hist_tips, survivors, json, repo_key: rkey })
}

pub fn idx_of(ids: &[Oid], s: &str) -> String {
    match ids.iter().position(|i| i.to_string() == s) {
        Some(k) => k.to_string(),
        None => (FAKE_ID_BASE..FAKE_ID_BASE + 20)
            .find(|n| fake_oid(*n).to_string() == s)
            .map(|n| n.to_string())
            .unwrap_or(format!("?{s}")),
    }
}

pub fn show_identity(w: &World, ids: &[Oid], blobs: &[Oid], sigs: &[Signature], i: &Identity) -> Result<String, String> {
    let v = serde_json::to_value(i).map_err(|e| e.to_string())?;
    let actor = |s: &str| w.actor_of(s).map(|a| a.to_string()).unwrap_or(format!("?{s}"));
    let sig_tok = |x: &Value| -> String {
        for (k, s) in sigs.iter().enumerate() {
            if serde_json::to_value(s).ok().as_ref() == Some(x) {
                return k.to_string();
            }
        }
        "?".into()
    };
    let mut hd: Vec<(u64, String)> = vec![];
    if let Some(m) = v["heads"].as_object() {
        for (k, r) in m {
            let a = actor(k);
            hd.push((a.parse().unwrap_or(u64::MAX), format!("{a}.{}", idx_of(ids, r.as_str().unwrap_or("?")))));
        }
    }
    hd.sort();
    let mut rv: Vec<(u64, String)> = vec![];
    if let Some(m) = v["revisions"].as_object() {
        for (k, r) in m {
            let id = idx_of(ids, k);
            let s = if r.is_null() {
                format!("{id}~x")
            } else {
                let blob = r["blob"].as_str().unwrap_or("?");
                let doc = blobs.iter().position(|b| b.to_string() == blob).map(|d| d.to_string()).unwrap_or(format!("?{blob}"));
                let title = r["title"].as_str().map(|t| t[1..].to_string()).unwrap_or("?".into());
                let state = match r["state"].as_str().unwrap_or("?") {
                    "active" => "a",
                    "accepted" => "c",
                    "rejected" => "r",
                    "stale" => "s",
                    _ => "?",
                };
                let author = actor(r["author"]["id"].as_str().unwrap_or("?"));
                let parent = r["parent"].as_str().map(|p| idx_of(ids, p)).unwrap_or("-".into());
                let mut vs: Vec<(u64, String)> = vec![];
                if let Some(vm) = r["verdicts"].as_object() {
                    for (vk, vv) in vm {
                        let a = actor(vk);
                        let s = match vv {
                            Value::String(s) if s == "Reject" => format!("{a}.r"),
                            Value::Object(o) => format!("{a}.a{}", o.get("Accept").map(|x| sig_tok(x)).unwrap_or("?".into())),
                            _ => format!("{a}.?"),
                        };
                        vs.push((a.parse().unwrap_or(u64::MAX), s));
                    }
                }
                vs.sort();
                format!(
                    "{id}~{doc}~{title}~{state}~{author}~{parent}~{}",
                    show_list(&vs.into_iter().map(|(_, s)| s).collect::<Vec<_>>(), ",")
                )
            };
            rv.push((id.parse().unwrap_or(u64::MAX), s));
        }
    }
    rv.sort();
    Ok(format!(
        "cur={};hd={};rv={}",
        idx_of(ids, v["current"].as_str().unwrap_or("?")),
        show_list(&hd.into_iter().map(|(_, s)| s).collect::<Vec<_>>(), "+"),
        show_list(&rv.into_iter().map(|(_, s)| s).collect::<Vec<_>>(), "+"),
    ))
}


pub fn without_timeline(i: &Identity) -> Value {
    let mut v = serde_json::to_value(i).unwrap_or(Value::Null);
    if let Some(o) = v.as_object_mut() {
        o.remove("timeline");
    }
    v
}

pub fn sig_table(n_docs: usize) -> Vec<(usize, Option<usize>)> {
    let mut v = vec![];
    for a in 0..N_ACTORS {
        for d in 0..n_docs {
            v.push((a, Some(d)));
        }
        v.push((a, None));
    }
    v
}

pub fn sig_for(n_docs: usize, actor: usize, over: Option<usize>) -> usize {
    actor * (n_docs + 1) + over.unwrap_or(n_docs)
}

pub fn gen_case(rng: &mut Rng) -> String {
    // documents: doc 0 = root (1-4 delegates, founder first), further docs change the delegate set
    let n0 = rng.range(1, 4) as usize;
    let mut d0: Vec<usize> = (0..n0).collect();
    if rng.chance(1, 4) {
        d0.rotate_left(1);
    }
    let n_docs = rng.range(2, 4) as usize;
    let mut docs = vec![d0.clone()];
    for _ in 1..n_docs {
        let n = rng.range(1, 4) as usize;
        let mut ds: Vec<usize> = vec![];
        while ds.len() < n {
            let k = rng.below(5) as usize;
            if !ds.contains(&k) {
                ds.push(k);
            }
        }
        docs.push(ds);
    }
    let sigs = sig_table(n_docs);
    let founder = d0[0];
    let mut ops = vec![IdOp {
        author: founder,
        ts: 1000,
        tips: vec![],
        actions: vec![IdAct::Revision { title: 1, doc: Some(0), parent: None, sig: sig_for(n_docs, founder, Some(0)) }],
    }];
    let n = rng.range(1, 12) as usize;
    let mut dag = DagGen::new(1000 + rng.below(20));
    // generator-side estimate of the state: current revision / document, active proposals
    let mut cur: u64 = 0;
    let mut cur_doc: usize = 0;
    let mut revs: Vec<(u64, usize, usize)> = vec![(0, 0, founder)]; // (id, doc, author)
    let mut votes: BTreeMap<u64, Vec<usize>> = BTreeMap::new();
    for i in 1..=n {
        let (tips, ts, anc) = dag.next(rng);
        let delegates = docs[cur_doc].clone();
        let author = if rng.chance(5, 6) { *rng.pick(&delegates) } else { rng.below(N_ACTORS as u64) as usize };
        let mut suspect = !delegates.contains(&author);
        let n_act = if rng.chance(1, 8) { 2 } else { 1 };
        let mut actions = vec![];
        let visible: Vec<(u64, usize, usize)> = revs.iter().filter(|(r, _, _)| anc.contains(&(*r as usize)) || *r == 0).cloned().collect();
        let active: Vec<(u64, usize, usize)> = visible.iter().filter(|(r, _, _)| *r != cur && *r > cur).cloned().collect();
        for _ in 0..n_act {
            let k = rng.below(20);
            let a = match k {
                0..=5 => {
                    // propose a revision (mostly on top of the current one, with a document that differs)
                    let parent = if rng.chance(1, 10) { rng.pick(&visible).0 } else { cur };
                    let mut doc = rng.below(n_docs as u64) as usize;
                    if doc == cur_doc && rng.chance(5, 6) {
                        doc = (doc + 1) % n_docs;
                    }
                    let (doc, over) = if rng.chance(1, 25) {
                        suspect = true;
                        (None, Some(0))
                    } else {
                        (Some(doc), Some(doc))
                    };
                    let sig = match rng.below(12) {
                        0 => {
                            suspect = true;
                            sig_for(n_docs, author, None)
                        }
                        1 => {
                            suspect = true;
                            sig_for(n_docs, (author + 1) % N_ACTORS, over)
                        }
                        _ => sig_for(n_docs, author, over),
                    };
                    if parent != cur || doc == Some(cur_doc) {
                        suspect = suspect || doc == Some(cur_doc);
                    }
                    IdAct::Revision { title: rng.range(1, 9), doc, parent: if rng.chance(1, 40) { None } else { Some(parent) }, sig }
                }
                6..=13 => {
                    // vote on an active proposal
                    let target = if active.is_empty() || rng.chance(1, 15) {
                        suspect = true;
                        if rng.bool() { cur } else { FAKE_ID_BASE + rng.below(2) }
                    } else {
                        rng.pick(&active).0
                    };
                    let tdoc = revs.iter().find(|(r, _, _)| *r == target).map(|(_, d, _)| *d);
                    if votes.get(&target).map(|v| v.contains(&author)).unwrap_or(false) {
                        suspect = true; // duplicate verdict
                    }
                    if k <= 11 {
                        let sig = match rng.below(8) {
                            0 => {
                                suspect = true;
                                sig_for(n_docs, author, None)
                            }
                            1 => {
                                suspect = true;
                                sig_for(n_docs, (author + 1) % N_ACTORS, tdoc)
                            }
                            2 => {
                                // a signature by the author over ANOTHER document
                                suspect = true;
                                sig_for(n_docs, author, Some((tdoc.unwrap_or(0) + 1) % n_docs))
                            }
                            _ => sig_for(n_docs, author, tdoc.or(Some(0))),
                        };
                        IdAct::Accept { rev: target, sig }
                    } else {
                        IdAct::Reject { rev: target }
                    }
                }
                14 | 15 => {
                    let target = if active.is_empty() || rng.chance(1, 5) { rng.pick(&visible).0 } else { rng.pick(&active).0 };
                    let owner = revs.iter().find(|(r, _, _)| *r == target).map(|(_, _, a)| *a);
                    if owner != Some(author) || target == cur {
                        suspect = true;
                    }
                    IdAct::Edit { rev: target, title: rng.range(1, 9) }
                }
                _ => {
                    let target = if active.is_empty() || rng.chance(1, 5) { rng.pick(&visible).0 } else { rng.pick(&active).0 };
                    let owner = revs.iter().find(|(r, _, _)| *r == target).map(|(_, _, a)| *a);
                    if owner != Some(author) || target <= cur {
                        suspect = true;
                    }
                    IdAct::Redact { rev: target }
                }
            };
            actions.push(a);
        }
        // crude bookkeeping of the expected state (only for choosing plausible next actions)
        if !suspect {
            for a in &actions {
                match a {
                    IdAct::Revision { doc: Some(d), parent: Some(p), .. } if *p == cur => {
                        revs.push((i as u64, *d, author));
                        votes.entry(i as u64).or_default().push(author);
                    }
                    IdAct::Accept { rev, .. } => votes.entry(*rev).or_default().push(author),
                    IdAct::Reject { rev } => votes.entry(*rev).or_default().push(author),
                    _ => {}
                }
            }
            // adoption estimate
            for (r, d, _) in revs.clone() {
                if r > cur {
                    let n_acc = votes.get(&r).map(|v| v.len()).unwrap_or(0);
                    if n_acc >= docs[cur_doc].len() / 2 + 1 && actions.iter().any(|a| matches!(a, IdAct::Accept { rev, .. } if *rev == r) || matches!(a, IdAct::Revision { .. })) && r as usize <= i {
                        cur = r;
                        cur_doc = d;
                        break;
                    }
                }
            }
        }
        dag.push(&tips, anc, suspect);
        ops.push(IdOp { author, ts, tips, actions });
    }
    render(&IdCase { repo_doc: 0, docs, sigs, vtable: vec![], order: vec![], ops })
}


/// Result of evaluating the surviving sub-history on its own.
pub struct SubRun {
    pub output: String,
    /// (op, accepted?, number of concurrent entries)
    pub steps: Vec<(usize, bool, usize)>,
    pub order: Vec<(usize, bool)>,
    pub json: String,
    pub tips: Vec<usize>,
}

/// Evaluate the history reachable from `tips` (op indices of the already stored history of `run`) with
/// the real `ChangeGraph::load` + `evaluate` + `Identity::apply`.
pub fn eval_sub(w: &World, repos: &Repos, run: &Run, tips: &[usize]) -> Result<SubRun, String> {
    let repo = repos.repos.get(&run.repo_key).ok_or("no repository")?;
    let refs: Vec<radicle_cob::object::Reference> = tips
        .iter()
        .enumerate()
        .map(|(j, t)| radicle_cob::object::Reference {
            name: radicle::git::RefString::try_from(format!("refs/verif/tip{j}")).unwrap(),
            target: radicle_cob::object::Commit { id: run.ids[*t] },
        })
        .collect();
    let object = cob::ObjectId::from(run.ids[0]);
    let res = catch(|| radicle_cob::verif::get_from_tips::<Traced<Identity>, _>(repo, &refs, &cob::identity::TYPENAME, &object));
    let c = match res {
        Err(_) => return Ok(SubRun { output: "init-panic".into(), steps: vec![], order: vec![], json: String::new(), tips: vec![] }),
        Ok(Err(_)) | Ok(Ok(None)) => {
            return Ok(SubRun { output: "init-err".into(), steps: vec![], order: vec![], json: String::new(), tips: vec![] })
        }
        Ok(Ok(Some(c))) => c,
    };
    let mut steps = vec![];
    let mut order = vec![];
    let mut res_s = String::new();
    for s in &c.object.trace {
        let k = run.ids.iter().position(|i| *i == s.id).ok_or("unknown entry in trace")?;
        steps.push((k, s.ok, s.concurrent));
        order.push((k, s.concurrent > 0));
        res_s.push(if s.ok { 'o' } else { 'e' });
    }
    let mut tips2: Vec<usize> = c.history.tips().iter().filter_map(|t| run.ids.iter().position(|i| i == t)).collect();
    tips2.sort();
    let output = format!(
        "r={};{}",
        if res_s.is_empty() { "-".into() } else { res_s },
        show_identity(w, &run.ids, &run.blobs, &run.sigs, &c.object.inner)?
    );
    Ok(SubRun { output, steps, order, json: serde_json::to_string(&c.object.inner).unwrap_or_default(), tips: tips2 })
}

pub fn show_order(order: &[(usize, bool)]) -> String {
    show_list(&order.iter().map(|(i, c)| format!("{i}.{}", *c as u8)).collect::<Vec<_>>(), ",")
}
