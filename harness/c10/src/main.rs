//! C10 — gossip is authenticated, fresh and never echoed back.
//!
//! Drives the real `Service` (engine: `engine.rs`) with random sequences of announcements from several
//! peers — forged signatures, replayed / older / equal / future timestamps, unknown announcers, the local
//! node as announcer, several relayers of the same announcement — interleaved with gossip ticks,
//! subscriptions, (dis)connections and a few announcements of the node itself (they occupy rows of the
//! same table). Output compared with the Lean model: per op, announcement writes, session disconnects
//! (misbehaviour / invalid timestamp), gossip-store rows.
//!
//! Oracle = the property statement on what the real code did:
//! * every stored row and every announcement written passes `Announcement::verify()`, evaluated on the real
//!   message independently of the case text (`stored-unauthenticated`, `relayed-unauthenticated`);
//! * a gossip-store row of another node appears only in the step that delivers exactly that announcement,
//!   with a valid signature (`stored-unauthenticated`), a timestamp at most one hour ahead
//!   (`stored-future-timestamp`), non-zero, strictly newer than the stored row of the same (node, kind, repo)
//!   (`stored-not-newer`), and — inventory/refs — from an announcer whose node announcement was stored
//!   before (`stored-from-unknown-announcer`); anything else: `stored-without-delivery`;
//! * a relayed announcement (written while handling a delivery or on a gossip tick) is stored
//!   (`relayed-not-stored`), is never written to its announcer (`relayed-to-announcer`) nor to a peer that
//!   delivered it earlier: `echo-to-duplicate-deliverer` when that peer's delivery found the announcement
//!   already stored (the code's FIXME: such a deliverer is not recorded), `echo-to-ignored-deliverer` when that
//!   peer's delivery was ignored (announcer not yet in the address book) and the announcement was stored later
//!   from another peer, `echo-after-prune` only when the row the peer's delivery filled was really pruned
//!   (gone after a wake and older than `now - gossip_max_age` at that wake) and the announcement was then stored
//!   again by a later delivery (new row), `echo-to-recorded-deliverer` otherwise — the deliverer was recorded
//!   for the row that is relayed: must never happen, whatever periodic task ran in between;
//! * the answer to `Subscribe` never contains announcements of the subscriber (`replayed-to-announcer`).
//!   Reading fixed: "relayed" = `Service::relay`; the answer to an explicit `Subscribe` request may
//!   contain what the subscriber once delivered (counted as tag `replay-to-deliverer`).

mod engine;

use engine::*;
use std::collections::BTreeSet;
use verif_common::*;

const HOUR: u64 = 3_600_000;

struct Delivery {
    step: usize,
    peer: u64,
    ann: AnnObs,
    /// the announcement was already stored when this delivery arrived
    duplicate: bool,
    /// this delivery stored the announcement
    stored: bool,
}

fn obs(a: &AnnSpec) -> AnnObs {
    AnnObs { node: a.node, kind: a.kind.ch(), repo: a.repo, ts: a.ts }
}

fn oracle(recs: &[StepRec], tags: &mut Vec<String>) -> Vec<(String, String)> {
    let mut viol: Vec<(String, String)> = vec![];
    let mut deliveries: Vec<Delivery> = vec![];
    let mut node_seen: BTreeSet<u64> = BTreeSet::new(); // announcers whose node announcement was stored
    let mut prev_rows: Vec<AnnObs> = vec![];
    let mut rows_before_unverified: Vec<AnnObs> = vec![];
    // rows that were really pruned: gone after a wake (`Elapse`) and older than the prune cut-off
    // (`now - gossip_max_age`) at that wake — (announcement, step)
    let mut pruned_at: Vec<(AnnObs, usize)> = vec![];
    // (announcement, step) of every delivery that stored the announcement
    let mut stored_at: Vec<(AnnObs, usize)> = vec![];
    let mut relayers_of: std::collections::BTreeMap<AnnObs, BTreeSet<u64>> = Default::default();
    for (j, r) in recs.iter().enumerate() {
        let rows_before = prev_rows.clone();
        // --- store updates
        let new_rows: Vec<&AnnObs> = r.rows.iter().filter(|x| !rows_before.contains(x)).collect();
        if let Op::Recv(_, a) = &r.op {
            if new_rows.contains(&&obs(a)) {
                stored_at.push((obs(a), j));
            }
        }
        if let Op::Elapse(_) = &r.op {
            for x in rows_before.iter().filter(|x| !r.rows.contains(x)) {
                if x.ts < r.clock_after.saturating_sub(GOSSIP_MAX_AGE) {
                    pruned_at.push((x.clone(), j));
                }
            }
        }
        for x in &new_rows {
            if x.node == 0 {
                continue;
            }
            match &r.op {
                Op::Recv(p, a) if obs(a) == **x => {
                    if !a.sig_ok {
                        viol.push(("stored-unauthenticated".into(), format!("op {j}: {} stored with a forged signature", x.show())));
                    }
                    if a.ts > r.clock_before + HOUR {
                        viol.push(("stored-future-timestamp".into(), format!("op {j}: {} stored, {} ms ahead of local time", x.show(), a.ts - r.clock_before)));
                    }
                    if a.ts == 0 {
                        viol.push(("stored-zero-timestamp".into(), format!("op {j}: {} stored", x.show())));
                    }
                    if let Some(old) = rows_before.iter().find(|o| o.node == x.node && o.kind == x.kind && o.repo == x.repo) {
                        if old.ts >= x.ts {
                            viol.push(("stored-not-newer".into(), format!("op {j}: {} replaced {}", x.show(), old.show())));
                        }
                    }
                    if x.kind != 'n' && !node_seen.contains(&x.node) {
                        viol.push(("stored-from-unknown-announcer".into(), format!("op {j}: {} stored but no node announcement of {} was ever stored", x.show(), x.node)));
                    }
                    if !r.sessions.contains(p) {
                        viol.push(("stored-without-delivery".into(), format!("op {j}: {} stored on delivery from a peer without session", x.show())));
                    }
                }
                _ => viol.push(("stored-without-delivery".into(), format!("op {j}: row {} appeared in a step that does not deliver it", x.show()))),
            }
        }
        // a replaced row must be replaced by a strictly newer one of the same key (covered above); rows
        // of other nodes must not change otherwise
        for x in &new_rows {
            if x.kind == 'n' && x.node != 0 {
                node_seen.insert(x.node);
            }
        }
        if let Op::KnowNode(n, _) = &r.op {
            node_seen.insert(*n); // the address book was told about this node (stands for an earlier node announcement)
        }
        // --- authenticity, evaluated independently on the real messages: every stored row and every
        // announcement written must pass `Announcement::verify()`
        for x in &r.rows_unverified {
            if !rows_before_unverified.contains(x) {
                viol.push(("stored-unauthenticated".into(), format!("op {j}: the stored announcement {} does not verify", x.show())));
            }
        }
        rows_before_unverified = r.rows_unverified.clone();
        for w in &r.writes {
            if !w.verified {
                viol.push(("relayed-unauthenticated".into(), format!("op {j}: {} written but it does not verify", w.show())));
            }
        }
        // --- writes
        let is_replay = matches!(r.op, Op::Subscribe(..));
        let is_initial = matches!(r.op, Op::Connect(..));
        for w in &r.writes {
            if w.ann.node == 0 {
                continue;
            }
            if is_initial {
                viol.push(("relayed-not-stored".into(), format!("op {j}: foreign announcement {} written on connect", w.show())));
                continue;
            }
            if w.peer == w.ann.node {
                let class = if is_replay { "replayed-to-announcer" } else { "relayed-to-announcer" };
                viol.push((class.into(), format!("op {j}: {} written to its announcer", w.show())));
            }
            let stored = r.rows.contains(&w.ann) || rows_before.contains(&w.ann);
            if !stored {
                viol.push(("relayed-not-stored".into(), format!("op {j}: {} written but never stored", w.show())));
            }
            if is_replay {
                if deliveries.iter().any(|d| d.peer == w.peer && d.ann == w.ann) {
                    tags.push("replay-to-deliverer".into());
                }
                tags.push("replay".into());
                continue;
            }
            match &r.op {
                Op::Recv(_, a) => {
                    tags.push("relay-immediate".into());
                    if obs(a) != w.ann {
                        viol.push(("relayed-not-stored".into(), format!("op {j}: {} written while handling the delivery of {}", w.show(), obs(a).show())));
                    }
                    if !new_rows.contains(&&w.ann) {
                        viol.push(("relayed-not-stored".into(), format!("op {j}: {} relayed although this delivery did not store it", w.show())));
                    }
                }
                Op::Elapse(_) => tags.push("relay-on-tick".into()),
                _ => viol.push(("relayed-not-stored".into(), format!("op {j}: {} written by an op that relays nothing", w.show()))),
            }
            // echo?
            let this_delivery = matches!(&r.op, Op::Recv(p, a) if *p == w.peer && obs(a) == w.ann);
            if this_delivery {
                viol.push(("echo-to-recorded-deliverer".into(), format!("op {j}: {} written to the peer delivering it", w.show())));
            }
            // Every earlier delivery of this announcement by this peer; the echo is attributed to the most
            // serious explanation: the peer WAS recorded for the row that is relayed now (must never happen)
            // > the row its delivery filled was really pruned and the announcement stored again under a new
            // row > its delivery was ignored > its delivery found the announcement already stored.
            let mut worst: Option<(u8, &'static str, usize)> = None;
            for d in deliveries.iter().filter(|d| d.peer == w.peer && d.ann == w.ann) {
                let (rank, class) = if d.stored {
                    // really pruned after this delivery, and stored again by a later delivery?
                    let repruned = pruned_at.iter().any(|(x, m)| {
                        *x == w.ann && *m > d.step && *m <= j
                            && stored_at.iter().any(|(y, m2)| *y == w.ann && *m2 > *m && *m2 <= j)
                    });
                    if repruned { (2, "echo-after-prune") } else { (3, "echo-to-recorded-deliverer") }
                } else if d.duplicate {
                    (0, "echo-to-duplicate-deliverer")
                } else {
                    (1, "echo-to-ignored-deliverer")
                };
                if worst.map(|(r0, _, _)| rank > r0).unwrap_or(true) {
                    worst = Some((rank, class, d.step));
                }
            }
            if let Some((_, class, at)) = worst {
                viol.push((class.into(), format!("op {j}: {} relayed to peer {} which delivered it at op {}", w.show(), w.peer, at)));
            }
        }
        // --- record this step's delivery
        if let Op::Recv(p, a) = &r.op {
            let x = obs(a);
            let had_session = r.sessions.contains(p);
            // classification tags
            let same_key = rows_before.iter().find(|o| o.node == x.node && o.kind == x.kind && o.repo == x.repo);
            let t = if !had_session {
                "recv-no-session"
            } else if a.reuse.is_some() {
                "recv-forged-reused-signature"
            } else if !a.sig_ok {
                "recv-forged"
            } else if a.node == 0 {
                "recv-own-announcement"
            } else if a.ts == 0 {
                "recv-zero-timestamp"
            } else if a.ts > r.clock_before + HOUR {
                "recv-future-rejected"
            } else if x.kind != 'n' && !node_seen.contains(&x.node) && !new_rows.contains(&&x) {
                "recv-unknown-announcer"
            } else if let Some(o) = same_key {
                if o.ts == x.ts {
                    "recv-duplicate-equal-ts"
                } else if o.ts > x.ts {
                    "recv-older"
                } else {
                    "recv-newer-replaces"
                }
            } else {
                "recv-first-of-key"
            };
            tags.push(t.into());
            if had_session && a.sig_ok && a.ts == r.clock_before + HOUR {
                tags.push("recv-future-boundary-accepted".into());
            }
            if had_session && a.sig_ok && a.ts + HOUR == r.clock_before {
                tags.push("recv-age-boundary-relayed".into());
            }
            if had_session && a.sig_ok && a.ts + HOUR + 1 == r.clock_before {
                tags.push("recv-too-old-to-relay".into());
            }
            // a delivery the node refused (invalid timestamp: the deliverer is to be disconnected) is not a
            // delivery of the announcement in the sense of the property
            if had_session && a.sig_ok && r.discs.is_empty() {
                let set = relayers_of.entry(x.clone()).or_default();
                set.insert(*p);
                if set.len() >= 2 {
                    tags.push("several-relayers".into());
                }
                if *p == a.node {
                    tags.push("recv-from-announcer-itself".into());
                }
                deliveries.push(Delivery {
                    step: j,
                    peer: *p,
                    ann: x.clone(),
                    duplicate: rows_before.contains(&x),
                    stored: new_rows.contains(&&x),
                });
            }
            if !r.discs.is_empty() {
                tags.push(format!("disconnect-{}", r.discs[0].1));
            }
        }
        prev_rows = r.rows.clone();
    }
    viol.sort();
    viol.dedup();
    viol
}

fn run_case(input: &str) -> Outcome {
    let Some((_t0, recs)) = run(input) else { return Outcome::new("bad-case").trivial() };
    let mut o = Outcome::new(show(&recs));
    let mut tags = vec![];
    o.violations = oracle(&recs, &mut tags);
    if recs.iter().any(|r| r.panicked.is_some()) {
        tags.push("panic".into());
    }
    let relayed = recs.iter().any(|r| !matches!(r.op, Op::Connect(..) | Op::Subscribe(..)) && r.writes.iter().any(|w| w.ann.node != 0));
    let rejected = recs.iter().any(|r| !r.discs.is_empty());
    let stale = tags.iter().any(|t| t == "recv-duplicate-equal-ts" || t == "recv-older");
    tags.sort();
    tags.dedup();
    o.tags = tags;
    // non-trivial: something was relayed, and something was refused (rejected or stale)
    o.nontrivial = relayed && (rejected || stale);
    o
}

struct Gen {
    toks: Vec<String>,
    /// `last_gossip` / `last_prune` of the service, mirrored (0 = never woken)
    last_gossip: u64,
    last_prune: u64,
    clock: u64,
    connected: Vec<u64>,
    pool: Vec<AnnSpec>,
    /// genuine announcements delivered so far, with their op number in the case
    genuine: Vec<(usize, AnnSpec)>,
    /// newest timestamp generated per (node, kind, repo)
    newest: std::collections::BTreeMap<(u64, char, u64), u64>,
}

impl Gen {
    /// Push the delivery of `a` by `p`; remembers genuine announcements with their op number.
    fn deliver(&mut self, p: u64, a: &AnnSpec) {
        if a.sig_ok && a.reuse.is_none() {
            self.genuine.push((self.toks.len() - 2, a.clone()));
        }
        self.toks.push(ann_tok(p, a));
    }

    /// A forged announcement carrying the signature bytes of a genuine one of this case: same announcer
    /// with other content and a strictly newer timestamp, another announcer, or another kind.
    fn forged_reuse(&mut self, rng: &mut Rng) -> Option<AnnSpec> {
        if self.genuine.is_empty() {
            return None;
        }
        let (k, g) = self.genuine[rng.below(self.genuine.len() as u64) as usize].clone();
        let mut f = g.clone();
        f.sig_ok = false;
        f.reuse = Some(k);
        match rng.below(4) {
            0 | 1 => {
                // same announcer, same kind, other content, strictly newer (at most one hour ahead)
                f.ts = (g.ts + rng.range(1, 50)).min(self.clock + HOUR);
                match f.kind {
                    Kind::Inv => f.inv = (0..N_RIDS).filter(|r| !g.inv.contains(r)).take(2).collect(),
                    Kind::Refs => f.repo = (g.repo + 1) % N_RIDS.min(3),
                    Kind::Node => {}
                }
                if f.ts == g.ts && f.inv == g.inv && f.repo == g.repo {
                    f.ts = g.ts + 1;
                }
            }
            2 => {
                // another announcer claims it
                f.node = if g.node == 5 { 1 } else { g.node + 1 };
            }
            _ => {
                // another kind under the same signature
                match g.kind {
                    Kind::Inv => {
                        f.kind = Kind::Refs;
                        f.inv = vec![];
                        f.repo = 0;
                        f.flag = true;
                    }
                    _ => {
                        f.kind = Kind::Inv;
                        f.repo = 0;
                        f.inv = vec![1];
                        f.flag = false;
                    }
                }
                f.ts = g.ts + 1;
            }
        }
        Some(f)
    }

    fn elapse(&mut self, dt: u64) {
        self.clock += dt;
        if self.clock - self.last_gossip >= 6000 {
            self.last_gossip = self.clock;
        }
        if self.clock - self.last_prune >= 1_800_000 {
            self.last_prune = self.clock;
        }
        self.toks.push(format!("e,{dt}"));
    }

    fn ann(&mut self, rng: &mut Rng, n_repos: u64, allow_seed: bool) -> AnnSpec {
        let node = match rng.below(12) {
            0 => 0,     // the local node as announcer
            1 => 6,     // never sends a node announcement
            _ => rng.range(1, 5),
        };
        let kind = match rng.below(10) {
            0..=2 => Kind::Node,
            3..=6 => Kind::Inv,
            _ => Kind::Refs,
        };
        let repo = if kind == Kind::Refs { rng.below(n_repos.max(1)) } else { 0 };
        let key = (node, kind.ch(), repo);
        let last = self.newest.get(&key).cloned();
        let c = self.clock;
        let ts = match rng.below(20) {
            0 => 0,
            1 => c + HOUR,     // boundary: accepted
            2 => c + HOUR + 1, // boundary: rejected
            3 => c + HOUR + rng.range(2, 100_000),
            4 => c.saturating_sub(HOUR),     // boundary: still relayed
            5 => c.saturating_sub(HOUR + 1), // boundary: stored, not relayed
            6 | 7 => last.unwrap_or(c),      // equal to the newest one
            8 => last.map(|l| l.saturating_sub(rng.range(1, 50))).unwrap_or(c), // older
            9 => last.map(|l| l + 1).unwrap_or(c + 1), // just newer
            _ => c.saturating_sub(rng.below(2000)) + rng.below(4000),
        };
        let flag = match kind {
            // a fresh SEED node announcement costs seconds (scrypt proof of work in `NodeAnnouncement::work`)
            Kind::Node => allow_seed && rng.chance(1, 30),
            Kind::Refs => !rng.chance(1, 8),
            Kind::Inv => false,
        };
        let inv = if kind == Kind::Inv {
            let mut v: Vec<u64> = (0..N_RIDS).filter(|_| rng.chance(1, 3)).collect();
            if rng.chance(1, 10) {
                v.clear();
            }
            v
        } else {
            vec![]
        };
        let a = AnnSpec { node, kind, repo, ts, sig_ok: !rng.chance(1, 9), inv, flag, reuse: None };
        if a.sig_ok && ts <= c + HOUR {
            let e = self.newest.entry(key).or_insert(0);
            if ts > *e {
                *e = ts;
            }
        }
        a
    }
}

fn gen_case(rng: &mut Rng, max_ops: u64, allow_seed: bool) -> String {
    let t0: u64 = 1_700_000_000_000 + rng.below(1_000_000);
    let relay = !rng.chance(1, 8);
    let mut g = Gen {
        toks: vec![t0.to_string(), (relay as u8).to_string()],
        last_gossip: 0,
        last_prune: 0,
        clock: t0,
        connected: vec![],
        pool: vec![],
        genuine: vec![],
        newest: Default::default(),
    };
    // a few repositories so that refs announcements can be relayed (in storage, public, seeded)
    let n_repos = rng.range(1, 3);
    for rid in 0..n_repos {
        let r = RepoSpec {
            rid,
            present: !rng.chance(1, 5),
            private: rng.chance(1, 5),
            delegates: vec![0],
            allow: if rng.bool() { vec![rng.range(1, 3)] } else { vec![] },
            own: None,
        };
        let r = RepoSpec { own: if r.present && rng.bool() { Some((1, 1000)) } else { None }, ..r };
        g.toks.push(repo_tok(&r));
        if !rng.chance(1, 5) {
            g.toks.push(format!("z,{rid}"));
        }
    }
    // peers
    let n_peers = rng.range(2, 4);
    for p in 1..=n_peers {
        if !rng.chance(1, 6) {
            g.toks.push(format!("c,{p},{}", if rng.bool() { "i" } else { "o" }));
            g.connected.push(p);
            if !rng.chance(1, 4) {
                let filt = if rng.chance(2, 3) { "*".to_string() } else { plus_list(&(0..n_repos).filter(|_| rng.bool()).collect::<Vec<_>>()) };
                g.toks.push(format!("s,{p},{filt},{},{}", if rng.bool() { 0 } else { g.clock - rng.below(5000) }, I64MAX));
            }
        }
    }
    // most announcers are known to the address book (as after a SEED node announcement)
    for x in 1..=5u64 {
        if !rng.chance(1, 4) {
            g.toks.push(format!("n,{x},{}", g.clock - rng.below(1000)));
        }
    }
    let n = rng.range(4, max_ops);
    for _ in 0..n {
        match rng.below(100) {
            0..=44 => {
                let a = g.ann(rng, n_repos, allow_seed);
                let p = if rng.chance(1, 15) || g.connected.is_empty() { rng.range(1, 4) } else { *rng.pick(&g.connected) };
                g.deliver(p, &a);
                g.pool.push(a);
            }
            45..=55 => {
                // the same announcement again, usually from another peer
                if !g.pool.is_empty() && !g.connected.is_empty() {
                    let a = rng.pick(&g.pool).clone();
                    let p = *rng.pick(&g.connected);
                    g.deliver(p, &a);
                }
            }
            56..=59 => {
                // a forgery that re-uses the signature bytes of a genuine announcement (accepted or not)
                if let Some(f) = g.forged_reuse(rng) {
                    let p = if g.connected.is_empty() { 1 } else { *rng.pick(&g.connected) };
                    g.deliver(p, &f);
                }
            }
            60..=74 => {
                let dt = *rng.pick(&[6000, 6000, 6000, 5999, 1, 0, 30_000, 1_800_000, 3_600_000, 3_600_001, 12_000, 3000]);
                g.elapse(dt);
            }
            75..=77 => {
                // prune timer and gossip timer out of phase: wake a few seconds before the prune task is due
                // (gossip runs), deliver fresh announcements, wake when ONLY the prune task is due, wake again
                // (gossip): what was pending across the prune wake must still not be echoed
                if g.last_prune == 0 {
                    g.elapse(6000);
                }
                let due = g.last_prune + 1_800_000;
                let lead = *rng.pick(&[3000u64, 3000, 2000, 5999, 4000]);
                if due > g.clock + lead && due - lead - g.clock >= 6000 {
                    g.elapse(due - lead - g.clock);
                    for _ in 0..rng.range(1, 3) {
                        let mut a = g.ann(rng, n_repos, false);
                        if rng.chance(3, 4) {
                            // a fresh inventory of a probably known announcer
                            a = AnnSpec { node: rng.range(1, 5), kind: Kind::Inv, repo: 0, ts: g.clock + rng.below(3), sig_ok: true, inv: vec![rng.below(N_RIDS)], flag: false, reuse: None };
                        }
                        let p = if g.connected.is_empty() { 1 } else { *rng.pick(&g.connected) };
                        g.deliver(p, &a);
                        g.pool.push(a);
                    }
                    g.elapse(lead); // prune due, gossip not (lead < 6000)
                    if rng.bool() && !g.pool.is_empty() && !g.connected.is_empty() {
                        let a = g.pool[g.pool.len() - 1].clone();
                        let p = *rng.pick(&g.connected);
                        g.deliver(p, &a);
                    }
                    g.elapse(6000 - lead);
                    g.elapse(lead);
                }
            }
            78..=84 => {
                if !g.connected.is_empty() {
                    let p = *rng.pick(&g.connected);
                    let filt = if rng.chance(2, 3) { "*".to_string() } else { plus_list(&(0..n_repos).filter(|_| rng.bool()).collect::<Vec<_>>()) };
                    let (since, until) = match rng.below(6) {
                        0 => (g.clock, g.clock + 1),
                        1 => (g.clock + 10, g.clock), // inverted
                        2 => (0, u64::MAX),           // cannot be bound to SQLite
                        3 => (g.clock.saturating_sub(rng.below(10_000)), I64MAX),
                        _ => (0, I64MAX),
                    };
                    g.toks.push(format!("s,{p},{filt},{since},{until}"));
                }
            }
            85..=90 => {
                let p = rng.range(1, 4);
                if g.connected.contains(&p) {
                    g.toks.push(format!("d,{p}"));
                    g.connected.retain(|x| *x != p);
                } else {
                    g.toks.push(format!("c,{p},{}", if rng.bool() { "i" } else { "o" }));
                    g.connected.push(p);
                }
            }
            91..=93 => g.toks.push(format!("i,{}", rng.below(n_repos))),
            94..=95 => g.toks.push(format!("r,{}", rng.below(n_repos))),
            96 => {
                if rng.bool() {
                    g.toks.push("R".into())
                } else {
                    g.toks.push(format!("n,{},{}", rng.range(1, 6), g.clock.saturating_sub(rng.below(3000)) + rng.below(1500)))
                }
            }
            97 => g.toks.push(format!("{},{}", if rng.bool() { "z" } else { "u" }, rng.below(n_repos))),
            _ => {
                let rid = rng.below(n_repos);
                let r = RepoSpec {
                    rid,
                    present: !rng.chance(1, 4),
                    private: rng.chance(1, 3),
                    delegates: vec![0],
                    allow: if rng.bool() { vec![rng.range(1, 3)] } else { vec![] },
                    own: None,
                };
                g.toks.push(repo_tok(&r));
            }
        }
    }
    // let pending relays go out
    if rng.chance(3, 4) {
        g.elapse(6000);
    }
    g.toks.join(" ")
}

/// Exhaustive part: every sequence of `len` ops over a small alphabet around one inventory
/// announcement X of node 3 (two peers, fresh / duplicate / older deliveries, tick).
fn exhaustive(ctx: &mut Ctx, len: usize) {
    let t0 = 1_700_000_000_000u64;
    let alphabet: Vec<String> = vec![
        format!("a,1,3,i,0,{},1,1", t0 + 10),
        format!("a,2,3,i,0,{},1,1", t0 + 10),
        format!("a,2,3,i,0,{},1,1+2", t0 + 20),
        format!("a,1,3,i,0,{},1,2", t0 + 5),
        format!("a,1,3,i,0,{},0,1", t0 + 30),
        format!("a,2,3,n,0,{},1,0", t0 + 10),
        "e,6000".to_string(),
        format!("s,1,*,0,{}", I64MAX),
        "d,2".to_string(),
    ];
    let prefix = format!("{t0} 1 c,1,i c,2,o n,3,{}", t0 - 5);
    let mut idx = vec![0usize; len];
    loop {
        let mut toks = vec![prefix.clone()];
        for i in &idx {
            toks.push(alphabet[*i].clone());
        }
        toks.push("e,6000".into());
        let input = toks.join(" ");
        let o = run_case(&input);
        ctx.count("exhaustive-small-alphabet");
        ctx.record(&input, o);
        // next
        let mut k = 0;
        loop {
            if k == len {
                return;
            }
            idx[k] += 1;
            if idx[k] < alphabet.len() {
                break;
            }
            idx[k] = 0;
            k += 1;
        }
    }
}

fn main() {
    let mut ctx = Ctx::from_args("C10");
    if !ctx.run_fixed(run_case) {
        let quick = ctx.quick();
        exhaustive(&mut ctx, if quick { 2 } else { 4 });
        let mut rng = ctx.rng();
        let n = ctx.size(400, 6_000);
        let max = ctx.size(14, 25);
        for _ in 0..n {
            // a few thorough-tier cases contain SEED node announcements (seconds each)
            let seed = !quick && rng.chance(1, 100);
            let input = gen_case(&mut rng, max, seed);
            let o = run_case(&input);
            ctx.record(&input, o);
        }
    }
    ctx.finish(
        "random sequences (quick <= 14, thorough <= 25 ops after set-up) of announcements of 6 announcers (one never announced as a node, \
         plus the local node) delivered by 2-4 peers: forged signatures, timestamps 0 / equal / older / just newer / at and beyond the \
         +1h limit / at and beyond the 1h relay-age limit, re-deliveries of earlier announcements by other peers, gossip ticks (incl. \
         5999 ms), subscriptions (inverted and unbindable ranges), (dis)connections, own announcements; plus every sequence of 2 \
         (thorough: 4) ops over a 9-op alphabet around one inventory announcement and two relayers; non-trivial = something was relayed \
         and something was refused; distinct by input text",
        false,
    );
}
