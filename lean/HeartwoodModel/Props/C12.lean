import HeartwoodModel.Model.Serve
import HeartwoodModel.Lemmas.Pktline
/-!
# C12 — Repository data is served only to peers allowed to see it

Theorems about `Model/Serve.lean` (`Worker::_process` responder branch + `is_authorized`) over
`Model/Pktline.lean` (`git_request`). They hold for every policy store, storage, `RepoId` decoder and
upload-pack behaviour (`Env`), every requesting node and every byte string on the stream.
-/
namespace HeartwoodModel.Serve
open HeartwoodModel.Pktline

variable {Nid Rid : Type} [DecidableEq Nid]

/-- "Allowed to see it": public repository, allow-listed, or delegate — `Doc::is_visible_to` says exactly this. -/
theorem visible_iff (d : Doc Nid) (n : Nid) :
    d.isVisibleTo n = true ↔
      d.visibility = .pub ∨ (∃ allow, d.visibility = .priv allow ∧ n ∈ allow) ∨
      ((∃ allow, d.visibility = .priv allow) ∧ n ∈ d.delegates) := by
  unfold Doc.isVisibleTo
  cases hv : d.visibility with
  | pub => simp
  | priv allow => simp

/-- The authorisation decision, spelled out. -/
theorem isAuthorized_ok_iff (env : Env Nid Rid) (remote : Nid) (rid : Rid) :
    isAuthorized env remote rid = .ok () ↔
      env.policyOf rid = some .allow ∧ ∃ d, env.docOf rid = some d ∧ d.isVisibleTo remote = true := by
  unfold isAuthorized
  cases hp : env.policyOf rid with
  | none => simp
  | some p =>
    cases p with
    | block => simp [Policy.isBlock]
    | allow =>
      simp only [Policy.isBlock, Bool.false_eq_true, if_false, true_and]
      cases hd : env.docOf rid with
      | none => simp
      | some d => cases hv : d.isVisibleTo remote <;> simp [hv]

/-- **C12, main statement.** If the worker serves a request — i.e. runs `upload-pack`, the only code that
writes repository data to the stream — then the header parsed to `rid`, the repository is seeded (its
policy is `allow`) and its identity document is visible to the requesting node. -/
theorem serve_implies_allowed (env : Env Nid Rid) (remote : Nid) (stream : Bytes) (rid : Rid) (out : Bytes)
    (h : respond env remote stream = (.served rid, out)) :
    env.policyOf rid = some .allow ∧
    (∃ d, env.docOf rid = some d ∧ d.isVisibleTo remote = true) ∧
    ∃ hdr, gitRequest env.ridOf stream = .ok hdr ∧ hdr.repo = rid ∧ out = env.upload hdr := by
  unfold respond at h
  split at h
  · simp at h
  · simp at h
  · rename_i hdr hg
    cases ha : isAuthorized env remote hdr.repo with
    | error why => simp [ha] at h
    | ok u =>
      cases u
      simp only [ha, Prod.mk.injEq, Outcome.served.injEq] at h
      obtain ⟨rfl, rfl⟩ := h
      obtain ⟨hp, hd⟩ := (isAuthorized_ok_iff env remote hdr.repo).mp ha
      exact ⟨hp, hd, hdr, hg, rfl, rfl⟩

/-- **C12 against the CURRENT identity.** The worker authorises against the document at `refs/rad/id`
(`docOf`). Provided that cached head is fresh (`Env.HeadFresh`: `docOf = docCanonical`, which the code must
re-establish after every fetch that can change the identity), serving implies that the repository is seeded
and that its current, canonical identity document is visible to the requester. -/
theorem serve_implies_allowed_current (env : Env Nid Rid) (hfresh : env.HeadFresh) (remote : Nid)
    (stream : Bytes) (rid : Rid) (out : Bytes) (h : respond env remote stream = (.served rid, out)) :
    env.policyOf rid = some .allow ∧
    ∃ d, env.docCanonical rid = some d ∧ d.isVisibleTo remote = true := by
  obtain ⟨hp, ⟨d, hd, hv⟩, _⟩ := serve_implies_allowed env remote stream rid out h
  exact ⟨hp, d, by rw [← hfresh rid]; exact hd, hv⟩

/-- Converse: a well-formed request for a seeded, visible repository is served (the check refuses nothing else). -/
theorem allowed_implies_served (env : Env Nid Rid) (remote : Nid) (stream : Bytes) (hdr : GitRequest Rid)
    (hg : gitRequest env.ridOf stream = .ok hdr) (hp : env.policyOf hdr.repo = some .allow)
    (d : Doc Nid) (hd : env.docOf hdr.repo = some d) (hv : d.isVisibleTo remote = true) :
    respond env remote stream = (.served hdr.repo, env.upload hdr) := by
  have ha : isAuthorized env remote hdr.repo = .ok () :=
    (isAuthorized_ok_iff env remote hdr.repo).mpr ⟨hp, d, hd, hv⟩
  simp [respond, hg, ha]

/-- **Refused ⇒ nothing sent.** Unless the outcome is `served`, not a single byte is written to the
stream: parse errors, a blocking policy, a missing repository, an invisible document all end the request
before `upload_pack`. -/
theorem refused_sends_nothing (env : Env Nid Rid) (remote : Nid) (stream : Bytes)
    (h : ∀ rid, (respond env remote stream).1 ≠ .served rid) :
    (respond env remote stream).2 = [] := by
  unfold respond at h ⊢
  split
  · rfl
  · rfl
  · rename_i hdr hg
    cases ha : isAuthorized env remote hdr.repo with
    | error why => rfl
    | ok u =>
      cases u
      simp only [hg, ha] at h
      exact absurd rfl (h hdr.repo)

/-- The decision of the worker as a function of the repository id alone. -/
def decision (env : Env Nid Rid) (remote : Nid) (rid : Rid) : Outcome Rid :=
  match isAuthorized env remote rid with
  | .error why => .refused rid why
  | .ok () => .served rid

/-- **The encoding of the repository id is irrelevant**: the decision depends on the header only through
the `RepoId` it parses to. Two headers (any multibase, with or without `rad:`, any host, any extra
parameters) that parse to the same id get the same decision. -/
theorem rid_encoding_irrelevant (env : Env Nid Rid) (remote : Nid) (s1 s2 : Bytes) (h1 h2 : GitRequest Rid)
    (hg1 : gitRequest env.ridOf s1 = .ok h1) (hg2 : gitRequest env.ridOf s2 = .ok h2)
    (hr : h1.repo = h2.repo) :
    (respond env remote s1).1 = (respond env remote s2).1 ∧
    (respond env remote s1).1 = decision env remote h1.repo := by
  have key : ∀ (s : Bytes) (h : GitRequest Rid), gitRequest env.ridOf s = .ok h →
      (respond env remote s).1 = decision env remote h.repo := by
    intro s h hg
    unfold respond decision
    simp only [hg]
    cases ha : isAuthorized env remote h.repo with
    | error why => rfl
    | ok u => cases u; rfl
  rw [key s1 h1 hg1, key s2 h2 hg2, hr]
  exact ⟨rfl, rfl⟩

/-- The responder never panics on the request header (C13c, restated for the whole branch). -/
theorem respond_no_panic (env : Env Nid Rid) (remote : Nid) (stream : Bytes) (s : Site) :
    (respond env remote stream).1 ≠ .panic s := by
  unfold respond
  split
  · simp
  · rename_i s' hg
    exact absurd hg (gitRequest_ne_panic env.ridOf stream s')
  · rename_i hdr hg
    cases ha : isAuthorized env remote hdr.repo with
    | error why => simp
    | ok u => cases u; simp

/-! ## Non-vacuity: a concrete store, storage and header -/

/-- `0018git-upload-pack /zA\0` : a request for the repository whose canonical id is the string `zA`. -/
def exStream : Bytes :=
  [0x30, 0x30, 0x31, 0x38] ++ cmdPrefix ++ [0x2F, 0x7A, 0x41, 0x00]
/-- `001cgit-upload-pack /rad:zA\0` : the same repository, with the `rad:` prefix. -/
def exStreamRad : Bytes :=
  [0x30, 0x30, 0x31, 0x63] ++ cmdPrefix ++ [0x2F] ++ radPrefix ++ [0x7A, 0x41, 0x00]

/-- Repository 7 is private, delegate 1, allow list [2]; repository 8 is public but blocked. -/
def exEnv : Env Nat Nat where
  ridOf := fun b => if b = [0x7A, 0x41] then some 7 else if b = [0x7A, 0x42] then some 8 else none
  policyOf := fun r => if r = 7 then some .allow else some .block
  docOf := fun r => if r = 7 then some { visibility := .priv [2], delegates := [1] }
                    else if r = 8 then some { visibility := .pub, delegates := [1] } else none
  docCanonical := fun r => if r = 7 then some { visibility := .priv [2], delegates := [1] }
                    else if r = 8 then some { visibility := .pub, delegates := [1] } else none
  upload := fun _ => [0xAA]

/-- The same storage after repository 7 was made fully private by an identity change that did NOT refresh
`refs/rad/id`: the worker still reads the old document. -/
def exStale : Env Nat Nat :=
  { exEnv with docCanonical := fun r => if r = 7 then some { visibility := .priv [], delegates := [1] } else none }

/-- **Without freshness the property FAILS** (the hypothesis of `serve_implies_allowed_current` is needed):
node 2 was removed from the allow list of repository 7, the cached head is stale, and node 2 is served.
This is the gap a change to the post-fetch `set_identity_head()` opens (seeded change
`C12-r2-stale-identity-head`); the end-to-end history scenarios judge the real worker against the canonical
document (oracle class `served-against-current-identity`). -/
theorem stale_head_counterexample :
    respond exStale 2 exStream = (.served 7, [0xAA]) ∧
    (∀ d, exStale.docCanonical 7 = some d → d.isVisibleTo 2 = false) := by
  refine ⟨by decide, ?_⟩
  intro d hd
  simp only [exStale, if_true, Option.some.injEq] at hd
  subst hd
  decide

example : exEnv.HeadFresh := by
  intro rid
  simp only [exEnv]

example : respond exEnv 2 exStream = (.served 7, [0xAA]) := by decide
example : respond exEnv 1 exStreamRad = (.served 7, [0xAA]) := by decide
example : respond exEnv 3 exStream = (.refused 7 .invisible, []) := by decide
example : (respond exEnv 2 exStream).1 = (respond exEnv 2 exStreamRad).1 := by decide
example : respond exEnv 2 (exStream.take 10) = (.parseError .eof, []) := by decide

end HeartwoodModel.Serve
