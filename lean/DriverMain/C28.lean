import HeartwoodModel.Driver.Loop
import HeartwoodModel.Driver.C28
def main : IO Unit := HeartwoodModel.Driver.driverMain "C28" HeartwoodModel.Driver.C28.run
