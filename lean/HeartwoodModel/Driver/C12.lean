/-! Driver entry for property C12 (stub: not implemented yet). -/
namespace HeartwoodModel.Driver.C12

def run (_args : List String) : String := "unimplemented"

end HeartwoodModel.Driver.C12
