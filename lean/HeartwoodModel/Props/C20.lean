import HeartwoodModel.Model.Refs
import HeartwoodModel.Lemmas.Refs
/-!
# C20 — Signed refs text round-trips and signatures bind exactly what is accepted

Property theorems about `Model/Refs.lean`.

* `from_canonical_canonical` — valid names, non-zero oids ⇒ `fromCanonical (canonical r) = ok r`
  (`from_canonical_canonical_all`: with zero oids present, exactly they are dropped).
* `canonical_injective` — distinct well-formed ref sets have distinct canonical texts.
* `fromCanonical_wf`, `fromCanonical_reparse` — whatever the lenient parser accepts is a well-formed ref
  set without zero oids, and its canonical text parses back to exactly it.
* `verify_binds_canonical` — `loadAt` succeeds iff the signature blob has 64 bytes, the refs blob parses,
  `sigVerify remote (canonical acceptedRefs) sig` holds and the identity root (if signed) resolves to the
  local repository id; the accepted refs are the parsed ones, the key is the claimed remote.
* `tamper_changes_message` / `tamper_fails` — changing the key or any accepted ref / oid changes the
  verified `(key, message)`; if a signature verifies for at most one `(key, message)` (explicit
  unforgeability hypothesis on the opaque `sigVerify`) the same signature is then rejected.
-/
set_option linter.unusedSimpArgs false
set_option linter.unusedVariables false
namespace HeartwoodModel.Refs

deriving instance DecidableEq for Except

/-- What the Rust types guarantee of an entry of a `Refs` map: the name is a `RefString` (a valid
UTF-8 `String` that passed `ref_format`), the value a 20-byte oid. -/
def WfEntry (e : Name × Oid) : Prop := validRef e.1 = true ∧ utf8Valid e.1 = true ∧ WfOid e.2

/-- A `Refs` value: a map (strictly sorted keys) of well-formed entries. -/
def WfRefs (r : Refs) : Prop := Sorted r ∧ ∀ e ∈ r, WfEntry e

def nonZero (e : Name × Oid) : Bool := !isZero e.2

/-! ### one line -/

theorem canonical_cons (n : Name) (o : Oid) (rest : Refs) :
    canonical ((n, o) :: rest) = (oidToStr o ++ 0x20 :: n) ++ 0x0a :: canonical rest := by
  simp [canonical]

theorem line_no_lf {n : Name} {o : Oid} (hn : validRef n = true) : 0x0a ∉ oidToStr o ++ 0x20 :: n := by
  intro m
  rcases List.mem_append.mp m with m | m
  · have := oidToStr_mem m; omega
  · rcases List.mem_cons.mp m with e | m
    · omega
    · exact not_mem_of_bad hn (by decide) m

theorem stripCr_line {n : Name} {o : Oid} (hn : validRef n = true) (t : Bool) :
    stripCr (oidToStr o ++ 0x20 :: n) t = oidToStr o ++ 0x20 :: n := by
  unfold stripCr
  split
  · rename_i h
    exfalso
    simp only [Bool.and_eq_true, beq_iff_eq] at h
    have hne : n ≠ [] := validRef_ne_nil hn
    have hl : (oidToStr o ++ 0x20 :: n).getLast? = n.getLast? := by
      cases n with
      | nil => exact absurd rfl hne
      | cons c cs =>
        rw [List.getLast?_append, List.getLast?_cons_cons,
          List.getLast?_eq_some_getLast (by simp : c :: cs ≠ [])]
        rfl
    rw [hl] at h
    have hm : 0x0d ∈ n := List.mem_of_getLast? h.2
    exact not_mem_of_bad hn (by decide) hm
  · rfl

theorem parseLine_canonical {n : Name} {o : Oid} (h : WfEntry (n, o)) (t : Bool) :
    parseLine (oidToStr o ++ 0x20 :: n, t) = .ok (if isZero o then none else some (n, o)) := by
  obtain ⟨hn, hu, ho⟩ := h
  simp only at hn hu ho
  have hutf : utf8Valid (oidToStr o ++ 0x20 :: n) = true := by
    have : ∀ b ∈ oidToStr o ++ [0x20], b < 0x80 := by
      intro b hb
      rcases List.mem_append.mp hb with m | m
      · simp only [oidToStr, List.mem_map] at m
        obtain ⟨x, hx, rfl⟩ := m
        exact hexDigit_lt (ho.2 x hx)
      · simp at m; omega
    have := utf8Run_ascii n this
    simp only [utf8Valid, beq_iff_eq] at hu ⊢
    rw [show oidToStr o ++ 0x20 :: n = (oidToStr o ++ [0x20]) ++ n by simp, this]
    exact hu
  have hsp : 0x20 ∉ oidToStr o := by
    intro m; have := oidToStr_mem m; omega
  simp only [parseLine, hutf, Bool.not_true, Bool.false_eq_true, if_false, stripCr_line hn,
    splitOnce_append n hsp, hn, oidFromStr_toStr ho]
  cases isZero o <;> rfl

/-! ### round trip -/

theorem parseLines_canonical (acc r : Refs) (hs : Sorted (acc ++ r)) (hw : ∀ e ∈ r, WfEntry e) :
    parseLines acc (rawLines (canonical r)) = .ok (acc ++ r.filter nonZero) := by
  induction r generalizing acc with
  | nil => simp [canonical, rawLines, parseLines]
  | cons x xs ih =>
    obtain ⟨n, o⟩ := x
    have hx : WfEntry (n, o) := hw (n, o) (by simp)
    have hxs : ∀ e ∈ xs, WfEntry e := fun e he => hw e (by simp [he])
    rw [canonical_cons, rawLines_line _ (line_no_lf hx.1)]
    simp only [parseLines, parseLine_canonical hx]
    cases hz : isZero o with
    | true =>
      simp only [if_true, List.filter, nonZero, hz, Bool.not_true]
      refine ih acc ?_ hxs
      unfold Sorted at hs ⊢
      refine hs.sublist ?_
      exact List.Sublist.append_left (List.sublist_cons_self _ _) _
    | false =>
      simp only [Bool.false_eq_true, if_false, List.filter, nonZero, hz, Bool.not_false]
      have hlt : ∀ e ∈ acc, ltB e.1 n = true := by
        intro e he
        unfold Sorted at hs
        rw [List.pairwise_append] at hs
        exact hs.2.2 e he (n, o) (by simp)
      rw [insert_append hlt, ih (acc ++ [(n, o)]) (by simpa using hs) hxs]
      simp

/-- Round trip, general form: parsing the canonical text of any `Refs` value returns it without its
zero-oid entries (`from_canonical` skips them). -/
theorem from_canonical_canonical_all (r : Refs) (h : WfRefs r) :
    fromCanonical (canonical r) = .ok (r.filter nonZero) := by
  have := parseLines_canonical [] r (by simpa using h.1) h.2
  simpa [fromCanonical] using this

/-- **Round trip** (the property statement): for every set of valid reference names and non-zero object
ids the canonical text parses back to the same set. -/
theorem from_canonical_canonical (r : Refs) (h : WfRefs r) (hz : ∀ e ∈ r, isZero e.2 = false) :
    fromCanonical (canonical r) = .ok r := by
  rw [from_canonical_canonical_all r h]
  congr 1
  apply List.filter_eq_self.mpr
  intro e he
  simp [nonZero, hz e he]

/-! ### injectivity -/

/-- Distinct ref sets have distinct canonical texts (no sortedness needed). -/
theorem canonical_injective {r r' : Refs} (h : ∀ e ∈ r, WfEntry e) (h' : ∀ e ∈ r', WfEntry e)
    (e : canonical r = canonical r') : r = r' := by
  induction r generalizing r' with
  | nil =>
    cases r' with
    | nil => rfl
    | cons y ys => obtain ⟨n, o⟩ := y; rw [canonical_cons] at e; simp [canonical] at e
  | cons x xs ih =>
    obtain ⟨n, o⟩ := x
    cases r' with
    | nil => rw [canonical_cons] at e; simp [canonical] at e
    | cons y ys =>
      obtain ⟨n', o'⟩ := y
      have hx := h (n, o) (by simp)
      have hy := h' (n', o') (by simp)
      rw [canonical_cons, canonical_cons] at e
      obtain ⟨e1, e2⟩ := append_sep_inj (line_no_lf hx.1) (line_no_lf hy.1) e
      have hl : (oidToStr o).length = (oidToStr o').length := by
        rw [oidToStr_length, oidToStr_length, hx.2.2.1, hy.2.2.1]
      obtain ⟨e3, e4⟩ := List.append_inj e1 hl
      have eo : o = o' := oidToStr_inj hx.2.2 hy.2.2 e3
      have en : n = n' := by simpa using e4
      have := ih (fun e he => h e (by simp [he])) (fun e he => h' e (by simp [he])) e2
      rw [eo, en, this]

/-! ### what the parser accepts -/

theorem parseLine_some {l : Bytes × Bool} {n : Name} {o : Oid} (h : parseLine l = .ok (some (n, o))) :
    WfEntry (n, o) ∧ isZero o = false := by
  unfold parseLine at h
  split at h
  · cases h
  · rename_i hu
    simp only [Bool.not_eq_true', Bool.not_eq_false] at hu
    split at h
    · cases h
    · rename_i oid name hsp
      split at h
      · cases h
      · rename_i hv
        simp only [Bool.not_eq_true', Bool.not_eq_false] at hv
        split at h
        · cases h
        · rename_i o' ho
          split at h
          · cases h
          · rename_i hz
            simp only [Except.ok.injEq, Option.some.injEq, Prod.mk.injEq] at h
            obtain ⟨rfl, rfl⟩ := h
            refine ⟨⟨hv, ?_, oidFromStr_wf ho⟩, by simpa using hz⟩
            -- the name is a suffix of the (valid UTF-8) line, cut at the ASCII space
            obtain ⟨hs, _⟩ := splitOnce_spec hsp
            have hstr : utf8Valid (stripCr l.1 l.2) = true := by
              unfold stripCr
              split
              · rename_i hc
                simp only [Bool.and_eq_true, beq_iff_eq] at hc
                obtain ⟨ys, hys⟩ := List.getLast?_eq_some_iff.mp hc.2
                rw [hys] at hu ⊢
                rw [List.dropLast_concat]
                exact (utf8Valid_split (by decide) hu).1
              · exact hu
            rw [hs] at hstr
            exact (utf8Valid_split (by decide) hstr).2

theorem parseLines_wf {acc r : Refs} {ls : List (Bytes × Bool)} (h : parseLines acc ls = .ok r)
    (hs : Sorted acc) (hw : ∀ e ∈ acc, WfEntry e ∧ isZero e.2 = false) :
    Sorted r ∧ ∀ e ∈ r, WfEntry e ∧ isZero e.2 = false := by
  induction ls generalizing acc with
  | nil => simp only [parseLines, Except.ok.injEq] at h; subst h; exact ⟨hs, hw⟩
  | cons l ls ih =>
    simp only [parseLines] at h
    split at h
    · cases h
    · exact ih h hs hw
    · rename_i n o hl
      refine ih h (insert_sorted hs) ?_
      intro e he
      rcases mem_insert he with e1 | m
      · rw [e1]; exact parseLine_some hl
      · exact hw e m

/-- The lenient parser only ever accepts well-formed ref sets without zero oids. -/
theorem fromCanonical_wf {b : Bytes} {r : Refs} (h : fromCanonical b = .ok r) :
    WfRefs r ∧ ∀ e ∈ r, isZero e.2 = false := by
  have := parseLines_wf h (by simp [Sorted]) (by simp)
  exact ⟨⟨this.1, fun e he => (this.2 e he).1⟩, fun e he => (this.2 e he).2⟩

/-- Whatever blob is accepted, the canonical text of the accepted refs parses back to exactly them
(so `canonical ∘ fromCanonical` is the canonical form of the blob). -/
theorem fromCanonical_reparse {b : Bytes} {r : Refs} (h : fromCanonical b = .ok r) :
    fromCanonical (canonical r) = .ok r :=
  from_canonical_canonical r (fromCanonical_wf h).1 (fromCanonical_wf h).2

/-- `Refs` built by repeated `BTreeMap::insert` of well-formed entries are well-formed. -/
theorem ofList_wf (ps : List (Name × Oid)) (h : ∀ e ∈ ps, WfEntry e) : WfRefs (ofList ps) := by
  suffices H : ∀ acc : Refs, WfRefs acc →
      WfRefs (ps.foldl (fun acc p => insert p.1 p.2 acc) acc) from H [] ⟨by simp [Sorted], by simp⟩
  induction ps with
  | nil => intro acc ha; exact ha
  | cons p ps ih =>
    intro acc ha
    simp only [List.foldl_cons]
    refine ih (fun e he => h e (by simp [he])) _ ⟨insert_sorted ha.1, ?_⟩
    intro e he
    rcases mem_insert he with e1 | m
    · rw [e1]; exact h p (by simp)
    · exact ha.2 e m

/-! ### verification -/

/-- The identity-root binding of `SignedRefs::verify`. -/
def RootBound (env : Env) (r : Refs) : Prop :=
  ∀ root, lookup identityRoot r = some root → env.identityAt root = some env.localId

theorem verify_ok_iff (env : Env) (sr : SignedRefs) :
    verify env sr = .ok () ↔
      env.sigVerify sr.id (canonical sr.refs) sr.signature = true ∧ RootBound env sr.refs := by
  unfold verify RootBound
  cases hsig : env.sigVerify sr.id (canonical sr.refs) sr.signature with
  | false => simp
  | true =>
    simp only [Bool.not_true, Bool.false_eq_true, if_false, true_and]
    cases hl : lookup identityRoot sr.refs with
    | none => simp
    | some root =>
      simp only [Option.some.injEq, forall_eq']
      cases hi : env.identityAt root with
      | none => simp
      | some remote =>
        simp only [Option.some.injEq]
        by_cases hr : remote = env.localId
        · simp [hr]
        · simp [hr]

/-- **Verification binds exactly what is accepted**: `load_at` succeeds iff the signature (64 bytes) is
valid *for the claimed key over the canonical text of the refs that are accepted*, those refs are the
ones parsed from the blob, and a signed identity root resolves to the local repository. -/
theorem verify_binds_canonical (env : Env) (remote : Bytes) (refsBlob sigBlob : Option Bytes)
    (sr : SignedRefs) :
    loadAt env remote refsBlob sigBlob = .ok sr ↔
      ∃ rb sb, refsBlob = some rb ∧ sigBlob = some sb ∧ sb.length = 64 ∧
        fromCanonical rb = .ok sr.refs ∧ sr.signature = sb ∧ sr.id = remote ∧
        env.sigVerify remote (canonical sr.refs) sb = true ∧ RootBound env sr.refs := by
  unfold loadAt
  cases refsBlob with
  | none => simp
  | some rb =>
    cases sigBlob with
    | none => simp
    | some sb =>
      simp only [Option.some.injEq, exists_and_left, exists_eq_left']
      by_cases hlen : sb.length = 64
      · simp only [hlen, ne_eq, not_true_eq_false, if_false, true_and]
        cases hp : fromCanonical rb with
        | error e => simp
        | ok refs =>
          simp only [Except.ok.injEq]
          have hv := verify_ok_iff env { refs := refs, signature := sb, id := remote }
          cases hver : verify env { refs := refs, signature := sb, id := remote } with
          | error e =>
            simp only [reduceCtorEq, false_iff]
            rintro ⟨rfl, rfl, rfl, hsig, hroot⟩
            rw [hver] at hv
            exact absurd (hv.mpr ⟨hsig, hroot⟩) (by simp)
          | ok u =>
            rw [hver] at hv
            have := hv.mp rfl
            constructor
            · intro e; cases e; exact ⟨rfl, rfl, rfl, this.1, this.2⟩
            · rintro ⟨rfl, rfl, rfl, _, _⟩; rfl
      · simp [hlen]

/-- Consequence in the "only when" direction, with everything said about the accepted value. -/
theorem loadAt_ok {env : Env} {remote : Bytes} {refsBlob sigBlob : Option Bytes} {sr : SignedRefs}
    (h : loadAt env remote refsBlob sigBlob = .ok sr) :
    sr.id = remote ∧ env.sigVerify sr.id (canonical sr.refs) sr.signature = true ∧
    WfRefs sr.refs ∧ (∀ e ∈ sr.refs, isZero e.2 = false) ∧
    fromCanonical (canonical sr.refs) = .ok sr.refs ∧ RootBound env sr.refs := by
  obtain ⟨rb, sb, _, _, _, hp, hs, hi, hsig, hroot⟩ := (verify_binds_canonical env remote refsBlob sigBlob sr).mp h
  refine ⟨hi, by rw [hi, hs]; exact hsig, (fromCanonical_wf hp).1, (fromCanonical_wf hp).2,
    fromCanonical_reparse hp, hroot⟩

/-! ### tampering -/

/-- Changing the key or any ref / object id changes the verified `(key, message)` pair. -/
theorem tamper_changes_message {k k' : Bytes} {r r' : Refs} (h : ∀ e ∈ r, WfEntry e)
    (h' : ∀ e ∈ r', WfEntry e) (hne : (k, r) ≠ (k', r')) : (k, canonical r) ≠ (k', canonical r') := by
  intro e
  simp only [Prod.mk.injEq] at e
  exact hne (by rw [e.1, canonical_injective h h' e.2])

/-- Unforgeability of the opaque signature predicate: a signature verifies for at most one
`(key, message)`. An explicit hypothesis, never an axiom. -/
def Unforgeable (sigVerify : Bytes → Bytes → Bytes → Bool) : Prop :=
  ∀ s k m k' m', sigVerify k m s = true → sigVerify k' m' s = true → k = k' ∧ m = m'

/-- **Tampering makes verification fail**: under unforgeability, if a signature blob is accepted for
`(remote, refs)`, then the same signature is accepted for no other key and no other set of refs —
whatever refs blob is presented (any change of a ref, an object id or the key). -/
theorem tamper_fails {env : Env} (hu : Unforgeable env.sigVerify) {remote remote' : Bytes}
    {rb rb' sb : Option Bytes} {sr sr' : SignedRefs}
    (h : loadAt env remote rb sb = .ok sr) (h' : loadAt env remote' rb' sb = .ok sr') :
    remote = remote' ∧ sr.refs = sr'.refs := by
  obtain ⟨b1, s1, _, hs1, _, hp1, _, _, hsig1, _⟩ := (verify_binds_canonical env remote rb sb sr).mp h
  obtain ⟨b2, s2, _, hs2, _, hp2, _, _, hsig2, _⟩ := (verify_binds_canonical env remote' rb' sb sr').mp h'
  have : s1 = s2 := by rw [hs1] at hs2; exact Option.some.inj hs2
  subst this
  obtain ⟨ek, em⟩ := hu s1 _ _ _ _ hsig1 hsig2
  exact ⟨ek, canonical_injective (fromCanonical_wf hp1).1.2 (fromCanonical_wf hp2).1.2 em⟩

/-- Contrapositive form: a different key or different accepted refs with the same signature ⇒ error. -/
theorem tamper_fails' {env : Env} (hu : Unforgeable env.sigVerify) {remote remote' : Bytes}
    {rb rb' sb : Option Bytes} {sr : SignedRefs} {r' : Refs}
    (h : loadAt env remote rb sb = .ok sr) (hp : ∀ b, rb' = some b → fromCanonical b = .ok r')
    (hne : (remote, sr.refs) ≠ (remote', r')) :
    ∃ e, loadAt env remote' rb' sb = .error e := by
  cases hl : loadAt env remote' rb' sb with
  | error e => exact ⟨e, rfl⟩
  | ok sr' =>
    exfalso
    obtain ⟨e1, e2⟩ := tamper_fails hu h hl
    obtain ⟨b2, _, hb2, _, _, hp2, _⟩ := (verify_binds_canonical env remote' rb' sb sr').mp hl
    have := hp b2 hb2
    rw [hp2] at this
    exact hne (by rw [e1, e2, Except.ok.inj this])

/-! ### non-vacuity -/

/-- `refs/heads/main` -/
def exMain : Name := [0x72, 0x65, 0x66, 0x73, 0x2f, 0x68, 0x65, 0x61, 0x64, 0x73, 0x2f, 0x6d, 0x61, 0x69, 0x6e]
def exOid1 : Oid := List.replicate 39 0 ++ [1]
def exOid2 : Oid := [0xa, 0xb, 0xc] ++ List.replicate 37 7
def exRefs : Refs := [(exMain, exOid1), (identityRoot, exOid2)]

/-- Signature schemes given by a function from a signature to the unique `(key, message)` it signs
satisfy `Unforgeable` (this is also the shape of the graph the driver receives). -/
def tableSig (f : Bytes → Option (Bytes × Bytes)) (k m s : Bytes) : Bool := f s == some (k, m)

theorem tableSig_unforgeable (f : Bytes → Option (Bytes × Bytes)) : Unforgeable (tableSig f) := by
  intro s k m k' m' h h'
  simp only [tableSig, beq_iff_eq] at h h'
  rw [h] at h'
  simpa using h'

example : WfRefs exRefs ∧ ∀ e ∈ exRefs, isZero e.2 = false := by
  refine ⟨⟨?_, ?_⟩, ?_⟩
  · unfold Sorted; decide
  · intro e he
    simp only [exRefs, List.mem_cons, List.mem_nil_iff, or_false] at he
    rcases he with rfl | rfl <;> refine ⟨by decide, by decide, by decide⟩
  · intro e he
    simp only [exRefs, List.mem_cons, List.mem_nil_iff, or_false] at he
    rcases he with rfl | rfl <;> decide

example : fromCanonical (canonical exRefs) = .ok exRefs := by decide

/-- The lenient parser: an unsorted blob with an upper-case oid, a short oid, CRLF, a zero oid and no final
newline is accepted, and what is accepted is a canonical ref set. -/
example : ∃ r, fromCanonical
    ([0x41, 0x20, 0x62, 0x0d, 0x0a] ++ [0x30, 0x20, 0x7a, 0x0a] ++ [0x31, 0x20, 0x61]) = .ok r ∧
    r = [([0x61], [1] ++ List.replicate 39 0), ([0x62], [10] ++ List.replicate 39 0)] :=
  ⟨_, by decide, rfl⟩

/-- `loadAt` succeeds on a concrete signed blob (table scheme, identity root bound to the local id), so
the hypotheses of `tamper_fails` are satisfiable; a tampered oid / key is rejected. -/
def exKey : Bytes := List.replicate 32 9
def exSig : Bytes := List.replicate 64 5
def exEnv : Env :=
  { sigVerify := tableSig (fun s => if s = exSig then some (exKey, canonical exRefs) else none)
    identityAt := fun o => if o = exOid2 then some exOid1 else none
    localId := exOid1 }

example : Unforgeable exEnv.sigVerify := tableSig_unforgeable _

example : loadAt exEnv exKey (some (canonical exRefs)) (some exSig) =
    .ok { refs := exRefs, signature := exSig, id := exKey } := by decide

example : loadAt exEnv exKey (some (canonical [(exMain, exOid2), (identityRoot, exOid2)])) (some exSig) =
    .error .invalidSignature := by decide

example : loadAt exEnv (List.replicate 32 8) (some (canonical exRefs)) (some exSig) =
    .error .invalidSignature := by decide

/-- identity root signed but pointing at another repository's identity -/
example : loadAt { exEnv with localId := exOid2 } exKey (some (canonical exRefs)) (some exSig) =
    .error .mismatchedIdentity := by decide

end HeartwoodModel.Refs
