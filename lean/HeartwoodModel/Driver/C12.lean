import HeartwoodModel.Model.Serve
import HeartwoodModel.Driver.Util
/-! Driver entry for C12 (and the header cases of C13c, see `Driver/C13.lean`).

* `h <stream hex> <chunk> <graph>` — `git_request` on the stream. `graph` is the graph of
  `RepoId::from_canonical` on candidate points: comma-separated `<point hex>:<oid hex | x>` (`-` = empty
  graph); `chunk` (read size of the harness' reader) is ignored by the model.
  Output: `ok rid=<oid> path=<hex> host=<hex|~> port=<n|~> extra=<k>=<v|~>;…` | `err:eof` | `err:invalid` |
  `panic` | `no-point` (the model needed `from_canonical` on a point that was not sent).
* `w <policy a|b|n> <vis p|r> <allow r|o|ro|-> <delegate 0|1>` — decision of the worker for a well-formed
  request by node 1 for a repository owned by node 0; policy: `a`llow entry, `b`lock entry, `n`o entry
  (default policy of the test node: block); visibility `p`ublic / p`r`ivate with the allow list holding
  the `r`equester (1) and/or an`o`ther node (2); `delegate` = the requester is a delegate.
  Output: `served` | `refused`.
* `v <init p|e> <steps> <requester e|b>` — a HISTORY: the repository (delegates: the serving node 0 and a
  second delegate 3, seeded) starts `p`ublic or private with the allow list `e` = [requester 1]; every char
  of `steps` (`-` = none) is a visibility change proposed by node 0, accepted by delegate 3 on its own node
  and reaching the serving node through a fetch: `n` = private with an empty allow list, `e` = private with
  allow list [1], `p` = public. Then node 1 (`e`) or the delegate 3 (`b`) requests the repository. The model
  decides on the CANONICAL document after the last step, under the hypothesis `Env.HeadFresh` (the cached
  identity head the worker reads is current after every fetch). Output: `served` | `refused`.
-/
namespace HeartwoodModel.Driver.C12
open HeartwoodModel.Pktline HeartwoodModel.Serve HeartwoodModel.Driver.Util

def toBytes (xs : List Nat) : Bytes := xs.map UInt8.ofNat
def fromBytes (bs : Bytes) : List Nat := bs.map UInt8.toNat
def hex (bs : Bytes) : String := toHex (fromBytes bs)

/-- The graph of `from_canonical`: `(point, some oid | none)` pairs. -/
abbrev Graph := List (Bytes × Option Bytes)

def parseGraph (s : String) : Option Graph :=
  if s == "-" then some [] else
  (splitOn s ',').mapM fun e =>
    match splitOn e ':' with
    | [p, v] => do
      let p ← hexBytes? p
      if v == "x" then some (toBytes p, none) else do
        let v ← hexBytes? v
        some (toBytes p, some (toBytes v))
    | _ => none

/-- `none` = point not in the graph; `some none` = the real function rejected the point. -/
def lookup (g : Graph) (p : Bytes) : Option (Option Bytes) :=
  match g.find? (·.1 == p) with
  | some (_, v) => some v
  | none => none

def showOpt (o : Option Bytes) : String := match o with | none => "~" | some b => hex b

def showReq (r : GitRequest Bytes) : String :=
  let host := match r.host with | none => "~" | some (h, _) => hex h
  let port := match r.host with | some (_, some p) => toString p | _ => "~"
  let extra := if r.extra.isEmpty then "-" else
    joinWith ";" (r.extra.map fun (k, v) => hex k ++ "=" ++ showOpt v)
  s!"ok rid={hex r.repo} path={hex r.path} host={host} port={port} extra={extra}"

def runHeader (stream : Bytes) (g : Graph) : String :=
  -- is the point the model will ask `from_canonical` about in the graph?
  match ridPoint stream with
  | some p =>
    match lookup g p with
    | none => "no-point"
    | some _ =>
      let ridOf : Bytes → Option Bytes := fun b => (lookup g b).bind id
      match gitRequest ridOf stream with
      | .ok r => showReq r
      | .err .eof => "err:eof"
      | .err .invalid => "err:invalid"
      | .panic _ => "panic"
  | none =>
    match gitRequest (fun _ => (none : Option Bytes)) stream with
    | .ok r => showReq r
    | .err .eof => "err:eof"
    | .err .invalid => "err:invalid"
    | .panic _ => "panic"

/-- `0018git-upload-pack /zA\0`: a well-formed header; `zA` is decoded to repository 7 by the scenario's `ridOf`. -/
def wStream : Bytes := [0x30, 0x30, 0x31, 0x38] ++ cmdPrefix ++ [0x2F, 0x7A, 0x41, 0x00]

def runWorker (policy vis allow deleg : String) : String :=
  let pol : Option Policy := match policy with
    | "a" => some .allow | "b" => some .block | "n" => some .block | _ => none
  let al : Option (List Nat) := match allow with
    | "-" => some [] | "r" => some [1] | "o" => some [2] | "ro" => some [1, 2] | _ => none
  let visib : Option (Visibility Nat) := match vis, al with
    | "p", some [] => some .pub
    | "r", some l => some (.priv l)
    | _, _ => none
  match pol, visib, bool? deleg with
  | some pol, some visib, some d =>
    let env : Env Nat Nat := {
      ridOf := fun b => if b = [0x7A, 0x41] then some 7 else none
      policyOf := fun r => if r = 7 then some pol else some .block
      docOf := fun r => if r = 7 then some { visibility := visib, delegates := if d then [0, 1] else [0] } else none
      docCanonical := fun r => if r = 7 then some { visibility := visib, delegates := if d then [0, 1] else [0] } else none
      upload := fun _ => [0x50, 0x41, 0x43, 0x4B] }
    match respond env 1 wStream with
    | (.served _, out) => if out.isEmpty then "served-empty" else "served"
    | (.refused _ _, out) => if out.isEmpty then "refused" else "refused-but-sent"
    | (.parseError _, _) => "parse-error"
    | (.panic _, _) => "panic"
  | _, _, _ => "bad-op"

def visOf (c : Char) : Option (Visibility Nat) :=
  match c with
  | 'p' => some .pub
  | 'n' => some (.priv [])
  | 'e' => some (.priv [1])
  | _ => none

def runHistory (init steps req : String) : String :=
  let chars := (if steps == "-" then [] else steps.toList)
  let requester : Option Nat := match req with | "e" => some 1 | "b" => some 3 | _ => none
  match init.toList, chars.mapM visOf, requester with
  | [i], some vs, some r =>
    match (if i == 'p' || i == 'e' then visOf i else none) with
    | none => "bad-op"
    | some v0 =>
      let current := (vs.getLast?).getD v0
      let doc : Doc Nat := { visibility := current, delegates := [0, 3] }
      let env : Env Nat Nat := {
        ridOf := fun b => if b = [0x7A, 0x41] then some 7 else none
        policyOf := fun _ => some .allow
        docOf := fun rid => if rid = 7 then some doc else none          -- `Env.HeadFresh`
        docCanonical := fun rid => if rid = 7 then some doc else none
        upload := fun _ => [0x50, 0x41, 0x43, 0x4B] }
      match respond env r wStream with
      | (.served _, _) => "served"
      | (.refused _ _, _) => "refused"
      | (.parseError _, _) => "parse-error"
      | (.panic _, _) => "panic"
  | _, _, _ => "bad-op"

def run (args : List String) : String :=
  match args with
  | ["h", stream, chunk, graph] =>
    match hexBytes? stream, nat? chunk, parseGraph graph with
    | some s, some _, some g => runHeader (toBytes s) g
    | _, _, _ => "bad-op"
  | ["w", policy, vis, allow, deleg] => runWorker policy vis allow deleg
  | ["v", init, steps, req] => runHistory init steps req
  | _ => "bad-op"

end HeartwoodModel.Driver.C12
