//! C17 — rate limiter. Runs the real `RateLimiter::limit` on request timelines.
//!
//! Case input: `<bypass nids> <req>…`, `req = host,isIp,routable,nid|-,cap,num,den,now`
//! (the same tokens the Lean driver reads). The host *kind* is derived from the host number
//! (`host % 3`: 0 = DNS name, 1 = routable IP, 2 = non-routable IP) and must agree with the flags;
//! `routable` is checked against the real `address::is_routable`. The rate is `num/den`, `den` a power
//! of two so that the `f64` arithmetic of the code is exact and outputs must be equal.
//! Output: one char per request: `0` admitted, `1` limited, `P` panic (then the run stops).

use std::net::{IpAddr, Ipv4Addr};

use radicle::crypto::{KeyPair, Seed};
use radicle::node::{address, HostName, NodeId};
use radicle_node::service::limiter::{AsTokens, RateLimiter};
use radicle_node::LocalTime;
use verif_common::*;

struct Tokens(usize, f64);
impl AsTokens for Tokens {
    fn capacity(&self) -> usize {
        self.0
    }
    fn rate(&self) -> f64 {
        self.1
    }
}

fn nid(k: u64) -> NodeId {
    let mut seed = [0x5au8; 32];
    seed[..8].copy_from_slice(&k.to_le_bytes());
    NodeId::from(KeyPair::from_seed(Seed::new(seed)).pk)
}

fn host(h: u64) -> HostName {
    let (a, b) = (((h / 3) / 250) as u8, ((h / 3) % 250 + 1) as u8);
    match h % 3 {
        0 => HostName::Dns(format!("h{h}.example.com")),
        1 => HostName::Ip(IpAddr::V4(Ipv4Addr::new(8, 8, a, b))),
        _ => match (h / 3) % 3 {
            0 => HostName::Ip(IpAddr::V4(Ipv4Addr::new(192, 168, a, b))),
            1 => HostName::Ip(IpAddr::V4(Ipv4Addr::new(10, 0, a, b))),
            _ => HostName::Ip(IpAddr::V4(Ipv4Addr::new(127, 0, a, b))),
        },
    }
}

struct Req {
    host: u64,
    is_ip: bool,
    routable: bool,
    nid: Option<u64>,
    cap: u64,
    num: u64,
    den: u64,
    now: u64,
}

fn parse(input: &str) -> Option<(Vec<u64>, Vec<Req>)> {
    let mut toks = input.split(' ').filter(|t| !t.is_empty());
    let byp = toks.next()?;
    let byp: Vec<u64> = if byp == "-" { vec![] } else { byp.split(',').map(|x| x.parse().ok()).collect::<Option<_>>()? };
    let mut reqs = vec![];
    for t in toks {
        let f: Vec<&str> = t.split(',').collect();
        if f.len() != 8 {
            return None;
        }
        reqs.push(Req {
            host: f[0].parse().ok()?,
            is_ip: f[1] == "1",
            routable: f[2] == "1",
            nid: if f[3] == "-" { None } else { Some(f[3].parse().ok()?) },
            cap: f[4].parse().ok()?,
            num: f[5].parse().ok()?,
            den: f[6].parse().ok()?,
            now: f[7].parse().ok()?,
        });
    }
    Some((byp, reqs))
}

fn run_case(input: &str) -> Outcome {
    let Some((byp, reqs)) = parse(input) else { return Outcome::new("bad-case").trivial() };
    let mut limiter = RateLimiter::new(byp.iter().map(|k| nid(*k)));
    let mut out = String::new();
    let mut viol: Vec<(String, String)> = vec![];
    let mut tags = vec![];
    // Oracle bookkeeping: per host, the (time, admitted) history of metered requests.
    let mut hist: std::collections::BTreeMap<u64, (u64, u64, u64, Vec<(u64, bool)>)> = Default::default();
    for r in &reqs {
        let hn = host(r.host);
        let (is_ip, routable) = match &hn {
            HostName::Ip(ip) => (true, address::is_routable(ip)),
            _ => (false, true),
        };
        if is_ip != r.is_ip || (is_ip && routable != r.routable) || !r.den.is_power_of_two() {
            return Outcome::new("bad-case").trivial();
        }
        let n = r.nid.map(nid);
        let t = Tokens(r.cap as usize, r.num as f64 / r.den as f64);
        let res = catch(|| limiter.limit(hn.clone(), n.as_ref(), &t, LocalTime::from_millis(r.now as u128)));
        let bypassed = r.nid.map(|k| byp.contains(&k)).unwrap_or(false);
        match res {
            Err(_) => {
                out.push('P');
                tags.push("panic-backwards-clock".to_string());
                break;
            }
            Ok(limited) => {
                out.push(if limited { '1' } else { '0' });
                tags.push(if limited { "limited" } else { "admitted" }.to_string());
                if bypassed && limited {
                    viol.push(("bypass-limited".into(), format!("bypassed node {:?} was limited", r.nid)));
                }
                if is_ip && !routable && limited {
                    viol.push(("unroutable-limited".into(), format!("non-routable host {} was limited", r.host)));
                }
                if !bypassed && !(is_ip && !routable) {
                    let e = hist.entry(r.host).or_insert((r.cap, r.num, r.den, vec![]));
                    e.3.push((r.now, !limited));
                }
            }
        }
    }
    // Oracle: the property statement itself, on what the real code did: every window of every host.
    for (h, (cap, num, den, evs)) in &hist {
        'outer: for i in 0..evs.len() {
            let mut adm = 0u128;
            for j in i..evs.len() {
                if evs[j].1 {
                    adm += 1;
                }
                if evs[j].0 < evs[i].0 {
                    break; // non-monotone (would have panicked)
                }
                let secs = ((evs[j].0 - evs[i].0) / 1000) as u128;
                // admitted <= cap + rate * secs   <=>   admitted * den <= cap * den + num * secs
                if adm * (*den as u128) > (*cap as u128) * (*den as u128) + (*num as u128) * secs {
                    viol.push((
                        "window-exceeded".into(),
                        format!("host {h}: {adm} admitted in window [{}..{}] cap={cap} rate={num}/{den}", evs[i].0, evs[j].0),
                    ));
                    break 'outer;
                }
            }
        }
    }
    let nontrivial = out.contains('1') && out.contains('0');
    let mut o = Outcome::new(out);
    o.violations = viol;
    o.nontrivial = nontrivial;
    tags.sort();
    tags.dedup();
    o.tags = tags;
    o
}

fn gen_case(rng: &mut Rng, max_reqs: u64) -> String {
    let n_hosts = rng.range(1, 4);
    let hosts: Vec<u64> = (0..n_hosts).map(|_| rng.below(30)).collect();
    let byp: Vec<u64> = (0..rng.below(3)).map(|_| rng.below(4)).collect();
    // per-host parameters
    let params: Vec<(u64, u64, u64)> = hosts
        .iter()
        .map(|_| {
            let cap = if rng.chance(1, 8) { 0 } else { rng.range(1, 8) };
            let den = 1u64 << rng.below(6);
            let num = match rng.below(4) {
                0 => 0,
                1 => den,                  // exactly one token per second
                2 => rng.range(1, den),    // fractional
                _ => rng.range(1, 4 * den), // up to 4/s
            };
            (cap, num, den)
        })
        .collect();
    let mut now = rng.below(5_000);
    let mut s = nats(&byp);
    let n = rng.range(1, max_reqs);
    let backwards = rng.chance(1, 12);
    for i in 0..n {
        let hi = rng.below(n_hosts) as usize;
        let h = hosts[hi];
        let (cap, num, den) = params[hi];
        // time step: burst (0), sub-second, seconds, long idle
        now += match rng.below(10) {
            0..=3 => 0,
            4..=5 => rng.below(1000),
            6..=8 => rng.range(1, 4) * 1000 + rng.below(2) * rng.below(1000),
            _ => rng.range(10, 100_000) * 1000,
        };
        let mut t = now;
        if backwards && i + 1 == n && now > 0 {
            t = now - rng.range(1, now.min(3000));
        }
        let (is_ip, routable) = match h % 3 {
            0 => (false, true),
            1 => (true, true),
            _ => (true, false),
        };
        let nid = if rng.chance(1, 5) { "-".to_string() } else { rng.below(6).to_string() };
        s.push_str(&format!(" {h},{},{},{nid},{cap},{num},{den},{t}", is_ip as u8, routable as u8));
    }
    s
}

fn main() {
    let mut ctx = Ctx::from_args("C17");
    if !ctx.run_fixed(run_case) {
        let mut rng = ctx.rng();
        let n = ctx.size(3_000, 200_000);
        for _ in 0..n {
            let input = gen_case(&mut rng, 60);
            let o = run_case(&input);
            ctx.record(&input, o);
        }
    }
    ctx.finish(
        "random request timelines (bursts, sub-second spacing, idle periods, occasional backwards last step) over 1-4 hosts \
         (DNS / routable IP / non-routable IP), capacities 0..8, dyadic rates 0..4 tokens/s, bypass lists; \
         non-trivial = the real limiter both admitted and limited at least one request; distinct by input text",
        false,
    );
}
