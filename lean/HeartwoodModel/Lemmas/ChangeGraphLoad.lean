import HeartwoodModel.Model.ChangeGraph
import HeartwoodModel.Lemmas.DagFuel
/-!
# `ChangeGraph::load` builds the canonical graph of the reachable, loadable changes

`LInv`: invariant of the LIFO work list; `LoadSpec store P G`: `G` is the graph whose nodes are the
loadable ids satisfying `P`, with the parent edges of `store` between them (dangling dependencies on
unloadable parents included, as in the code). `LoadSpec` determines `G` (`LoadSpec.unique`).
-/
set_option linter.unusedSimpArgs false
set_option linter.unusedVariables false
namespace HeartwoodModel.ChangeGraph
open HeartwoodModel.Dag
variable {E : Type}

/-- `k` is one of the tips or reachable from one through parents of loadable changes. -/
def Reachable (store : Store E) (tips : List K) (k : K) : Prop :=
  ∃ t ∈ tips, k = t ∨ Reach (storeNext store) t k

theorem Reachable.step {store : Store E} {tips : List K} {k p : K} (h : Reachable store tips k)
    (hp : p ∈ storeNext store k) : Reachable store tips p := by
  obtain ⟨t, ht, rfl | hr⟩ := h
  · exact ⟨_, ht, .inr (.step hp)⟩
  · exact ⟨t, ht, .inr (hr.snoc hp)⟩

theorem storeNext_of_none {store : Store E} {k : K} (h : store k = none) : storeNext store k = [] := by
  simp [storeNext, h]

theorem storeNext_of_some {store : Store E} {k : K} {ps : List K} {e : E} (h : store k = some (ps, e)) :
    storeNext store k = ps := by
  simp [storeNext, h]

structure LInv (store : Store E) (tips st : List K) (g : Dag E) (es : List (K × K)) : Prop where
  sorted : g.Sorted
  trc : g.TRC
  node : ∀ k n, g.get k = some n → n.deps = [] ∧ n.dependents = [] ∧ ∃ ps, store k = some (ps, n.value)
  edges : ∀ c p, (c, p) ∈ es ↔ g.contains c = true ∧ p ∈ storeNext store c
  soundG : ∀ k, g.contains k = true → Reachable store tips k
  soundS : ∀ k, k ∈ st → Reachable store tips k
  closT : ∀ t, t ∈ tips → g.contains t = true ∨ t ∈ st ∨ store t = none
  closE : ∀ c, g.contains c = true → ∀ p ∈ storeNext store c, g.contains p = true ∨ p ∈ st ∨ store p = none

theorem LInv.init (store : Store E) (tips : List K) : LInv store tips tips.reverse Dag.empty [] := by
  have hw : (Dag.empty : Dag E).Wf := empty_wf
  refine ⟨hw.toSorted, hw.trc, ?_, ?_, ?_, ?_, ?_, ?_⟩
  · intro k n h; simp [Dag.empty, Dag.get, mget] at h
  · intro c p; simp [Dag.empty, Dag.contains, Dag.get, mget]
  · intro k h; simp [Dag.empty, Dag.contains, Dag.get, mget] at h
  · intro k hk; exact ⟨k, by simpa using hk, .inl rfl⟩
  · intro t ht; exact .inr (.inl (by simpa using ht))
  · intro c h; simp [Dag.empty, Dag.contains, Dag.get, mget] at h

theorem loadLoop_inv {store : Store E} {tips : List K} :
    ∀ (fuel : Nat) (st : List K) (g : Dag E) (es : List (K × K)) (g' : Dag E) (es' : List (K × K)),
      LInv store tips st g es → loadLoop store fuel st g es = some (g', es') →
      LInv store tips [] g' es' := by
  intro fuel
  induction fuel with
  | zero => intro st g es g' es' _ h; simp [loadLoop] at h
  | succ fuel ih =>
    intro st g es g' es' hinv h
    cases st with
    | nil =>
      simp [loadLoop] at h
      obtain ⟨rfl, rfl⟩ := h
      exact hinv
    | cons c st =>
      rw [loadLoop] at h
      by_cases hc : g.contains c = true
      · simp only [hc, if_true] at h
        apply ih _ _ _ _ _ _ h
        refine { hinv with soundS := fun k hk => hinv.soundS k (List.mem_cons_of_mem _ hk), closT := ?_, closE := ?_ }
        · intro t ht
          rcases hinv.closT t ht with h1 | h1 | h1
          · exact .inl h1
          · rcases List.mem_cons.mp h1 with rfl | h1
            · exact .inl hc
            · exact .inr (.inl h1)
          · exact .inr (.inr h1)
        · intro x hx p hp
          rcases hinv.closE x hx p hp with h1 | h1 | h1
          · exact .inl h1
          · rcases List.mem_cons.mp h1 with rfl | h1
            · exact .inl hc
            · exact .inr (.inl h1)
          · exact .inr (.inr h1)
      · have hc' : g.contains c = false := by simpa using hc
        simp only [hc', Bool.false_eq_true, if_false] at h
        cases hs : store c with
        | none =>
          simp only [hs] at h
          apply ih _ _ _ _ _ _ h
          refine { hinv with soundS := fun k hk => hinv.soundS k (List.mem_cons_of_mem _ hk), closT := ?_, closE := ?_ }
          · intro t ht
            rcases hinv.closT t ht with h1 | h1 | h1
            · exact .inl h1
            · rcases List.mem_cons.mp h1 with rfl | h1
              · exact .inr (.inr hs)
              · exact .inr (.inl h1)
            · exact .inr (.inr h1)
          · intro x hx p hp
            rcases hinv.closE x hx p hp with h1 | h1 | h1
            · exact .inl h1
            · rcases List.mem_cons.mp h1 with rfl | h1
              · exact .inr (.inr hs)
              · exact .inr (.inl h1)
            · exact .inr (.inr h1)
        | some pe =>
          obtain ⟨ps, e⟩ := pe
          simp only [hs] at h
          apply ih _ _ _ _ _ _ h
          have hgc : g.get c = none := Dag.not_contains_iff.mp hc'
          have hnext : storeNext store c = ps := storeNext_of_some hs
          have hcont : ∀ x, (g.node c e).contains x = true ↔ x = c ∨ g.contains x = true := by
            intro x
            simp only [Dag.contains, node_get]
            by_cases hxc : x = c <;> simp [hxc]
          have hcR : Reachable store tips c := hinv.soundS c (by simp)
          refine ⟨node_sorted hinv.sorted c e, node_trc hinv.trc e hgc, ?_, ?_, ?_, ?_, ?_, ?_⟩
          · intro k n hk
            rw [node_get] at hk
            by_cases hkc : k = c
            · subst hkc
              simp at hk; subst hk
              exact ⟨rfl, rfl, ps, hs⟩
            · simp [hkc] at hk
              exact hinv.node k n hk
          · intro x p
            simp only [List.mem_append, List.mem_map, Prod.mk.injEq, hinv.edges, hcont]
            constructor
            · rintro (⟨h1, h2⟩ | ⟨q, hq, rfl, rfl⟩)
              · exact ⟨.inr h1, h2⟩
              · exact ⟨.inl rfl, by rw [hnext]; exact hq⟩
            · rintro ⟨rfl | h1, h2⟩
              · rw [hnext] at h2
                exact .inr ⟨p, h2, rfl, rfl⟩
              · exact .inl ⟨h1, h2⟩
          · intro k hk
            rcases (hcont k).mp hk with rfl | hk
            · exact hcR
            · exact hinv.soundG k hk
          · intro k hk
            rcases List.mem_append.mp hk with hk | hk
            · have : k ∈ storeNext store c := by rw [hnext]; simpa using hk
              exact hcR.step this
            · exact hinv.soundS k (List.mem_cons_of_mem _ hk)
          · intro t ht
            rcases hinv.closT t ht with h1 | h1 | h1
            · exact .inl ((hcont t).mpr (.inr h1))
            · rcases List.mem_cons.mp h1 with rfl | h1
              · exact .inl ((hcont _).mpr (.inl rfl))
              · exact .inr (.inl (List.mem_append_right _ h1))
            · exact .inr (.inr h1)
          · intro x hx p hp
            rcases (hcont x).mp hx with rfl | hx
            · rw [hnext] at hp
              exact .inr (.inl (List.mem_append_left _ (by simpa using hp)))
            · rcases hinv.closE x hx p hp with h1 | h1 | h1
              · exact .inl ((hcont p).mpr (.inr h1))
              · rcases List.mem_cons.mp h1 with rfl | h1
                · exact .inl ((hcont _).mpr (.inl rfl))
                · exact .inr (.inl (List.mem_append_right _ h1))
              · exact .inr (.inr h1)

/-- The graph of the loadable ids satisfying `P`, with the parent edges of `store`. -/
structure LoadSpec (store : Store E) (P : K → Prop) (G : Dag E) : Prop where
  sorted : G.Sorted
  trc : G.TRC
  contains : ∀ k, G.contains k = true ↔ P k ∧ (store k).isSome = true
  value : ∀ k n, G.get k = some n → ∃ ps, store k = some (ps, n.value)
  deps : ∀ x y, y ∈ G.depsOf x ↔ G.contains x = true ∧ y ∈ storeNext store x
  dependents : ∀ x y, y ∈ G.dependentsOf x ↔
    G.contains x = true ∧ G.contains y = true ∧ x ∈ storeNext store y

theorem reach_next_ne {store : Store E} {v x : K} (h : Reach (storeNext store) v x) :
    (store v).isSome = true := by
  have : ∃ w, w ∈ storeNext store v := by
    cases h with
    | step e => exact ⟨_, e⟩
    | trans e _ => exact ⟨_, e⟩
  obtain ⟨w, hw⟩ := this
  cases hs : store v with
  | none => simp [storeNext, hs] at hw
  | some _ => rfl

theorem LInv.spec {store : Store E} {tips : List K} {g : Dag E} {es : List (K × K)}
    (h : LInv store tips [] g es) : LoadSpec store (Reachable store tips) (addEdges g es) := by
  have he : EdgesAdded g es (addEdges g es) := addEdges_spec es g
  have hdeps0 : ∀ x, g.depsOf x = [] := by
    intro x
    cases hx : g.get x with
    | none => exact Dag.depsOf_of_none hx
    | some n => rw [Dag.depsOf_of_get hx]; exact (h.node x n hx).1
  have hdependents0 : ∀ x, g.dependentsOf x = [] := by
    intro x
    cases hx : g.get x with
    | none => exact Dag.dependentsOf_of_none hx
    | some n => rw [Dag.dependentsOf_of_get hx]; exact (h.node x n hx).2.1
  have hloadable : ∀ k, g.contains k = true → (store k).isSome = true := by
    intro k hk
    obtain ⟨n, hn⟩ := Dag.contains_iff.mp hk
    obtain ⟨_, _, ps, hps⟩ := h.node k n hn
    simp [hps]
  -- closure: every loadable reachable id is a node
  have hclosed : ∀ s x, Reach (storeNext store) s x → g.contains s = true → (store x).isSome = true →
      g.contains x = true := by
    intro s x hr
    induction hr with
    | step e =>
      intro hs hx
      rcases h.closE _ hs _ e with h1 | h1 | h1
      · exact h1
      · simp at h1
      · rw [h1] at hx; simp at hx
    | trans e hr' ih =>
      intro hs hx
      rcases h.closE _ hs _ e with h1 | h1 | h1
      · exact ih h1 hx
      · simp at h1
      · have := reach_next_ne hr'
        rw [h1] at this; simp at this
  have hcont : ∀ k, g.contains k = true ↔ Reachable store tips k ∧ (store k).isSome = true := by
    intro k
    constructor
    · intro hk; exact ⟨h.soundG k hk, hloadable k hk⟩
    · rintro ⟨⟨t, ht, rfl | hr⟩, hk⟩
      · rcases h.closT _ ht with h1 | h1 | h1
        · exact h1
        · simp at h1
        · rw [h1] at hk; simp at hk
      · have hts : g.contains t = true := by
          rcases h.closT t ht with h1 | h1 | h1
          · exact h1
          · simp at h1
          · have := reach_next_ne hr
            rw [h1] at this; simp at this
        exact hclosed t k hr hts hk
  refine ⟨he.sorted h.sorted, he.trc h.trc, ?_, ?_, ?_, ?_⟩
  · intro k; rw [he.contains, hcont]
  · intro k n hk
    have hv := he.value k
    rw [hk] at hv
    cases hg : g.get k with
    | none => simp [hg] at hv
    | some n0 =>
      simp [hg] at hv
      obtain ⟨_, _, ps, hps⟩ := h.node k n0 hg
      exact ⟨ps, by rw [hv]; exact hps⟩
  · intro x y
    rw [he.deps, hdeps0, he.contains, h.edges]
    simp
  · intro x y
    rw [he.dependents, hdependents0, he.contains, he.contains, h.edges]
    simp only [List.not_mem_nil, false_or]

/-- `LoadSpec` determines the graph. -/
theorem LoadSpec.unique {store : Store E} {P P' : K → Prop} {G G' : Dag E}
    (h : LoadSpec store P G) (h' : LoadSpec store P' G')
    (hP : ∀ k, (store k).isSome = true → (P k ↔ P' k)) : G = G' := by
  have hcont : ∀ k, G.contains k = G'.contains k := by
    intro k
    have h1 := h.contains k
    have h2 := h'.contains k
    cases hs : (store k).isSome with
    | false =>
      rw [hs] at h1 h2
      cases hc : G.contains k <;> cases hc' : G'.contains k <;> simp_all
    | true =>
      have := hP k hs
      rw [hs] at h1 h2
      cases hc : G.contains k <;> cases hc' : G'.contains k <;> simp_all
  have hget : ∀ k, G.get k = G'.get k := by
    intro k
    cases hg : G.get k with
    | none =>
      have : G'.contains k = false := by rw [← hcont k]; exact Dag.not_contains_iff.mpr hg
      exact (Dag.not_contains_iff.mp this).symm
    | some n =>
      have hc : G'.contains k = true := by rw [← hcont k]; exact Dag.contains_iff.mpr ⟨n, hg⟩
      obtain ⟨n', hg'⟩ := Dag.contains_iff.mp hc
      rw [hg']
      congr 1
      obtain ⟨ps, hps⟩ := h.value k n hg
      obtain ⟨ps', hps'⟩ := h'.value k n' hg'
      have hs1 := h.sorted.nodes k n hg
      have hs2 := h'.sorted.nodes k n' hg'
      apply Node.ext'
      · rw [hps] at hps'; simp at hps'; exact hps'.2
      · apply sortedK_ext hs1.1 hs2.1
        intro y
        have a := h.deps k y
        have b := h'.deps k y
        rw [Dag.depsOf_of_get hg] at a
        rw [Dag.depsOf_of_get hg'] at b
        rw [a, b, hcont k]
      · apply sortedK_ext hs1.2 hs2.2
        intro y
        have a := h.dependents k y
        have b := h'.dependents k y
        rw [Dag.dependentsOf_of_get hg] at a
        rw [Dag.dependentsOf_of_get hg'] at b
        rw [a, b, hcont k, hcont y]
  have hdependents : ∀ k, G.dependentsOf k = G'.dependentsOf k := by
    intro k; simp [Dag.dependentsOf, hget k]
  have hdeps : ∀ k, G.depsOf k = G'.depsOf k := by
    intro k; simp [Dag.depsOf, hget k]
  apply Dag.ext_sorted h.sorted h'.sorted hget
  · intro k; rw [h.trc.tips_iff, h'.trc.tips_iff, hcont k, hdependents k]
  · intro k; rw [h.trc.roots_iff, h'.trc.roots_iff, hcont k, hdeps k]

/-- What `load` returns. -/
theorem load_spec {store : Store E} {fuel : Nat} {tips : List K} {r : Option (Dag E)}
    (h : load store fuel tips = some r) :
    ∃ G, LoadSpec store (Reachable store tips) G ∧ r = if G.rootsOf.isEmpty then none else some G := by
  unfold load at h
  cases hl : loadLoop store fuel tips.reverse Dag.empty [] with
  | none => simp [hl] at h
  | some ge =>
    obtain ⟨g, es⟩ := ge
    simp only [hl] at h
    have hinv := loadLoop_inv fuel _ _ _ _ _ (LInv.init store tips) hl
    refine ⟨addEdges g es, hinv.spec, ?_⟩
    split at h <;> simp_all

/-- When every parent of a loaded change can be loaded, the loaded graph is well-formed (closed). -/
theorem LoadSpec.wf {store : Store E} {tips : List K} {G : Dag E}
    (h : LoadSpec store (Reachable store tips) G)
    (hfull : ∀ k, G.contains k = true → ∀ p ∈ storeNext store k, (store p).isSome = true) : G.Wf := by
  refine { toSorted := h.sorted, sym := ?_, tips_iff := h.trc.tips_iff, roots_iff := h.trc.roots_iff }
  intro u v
  rw [h.dependents, h.deps]
  constructor
  · rintro ⟨_, h2, h3⟩; exact ⟨h2, h3⟩
  · rintro ⟨h2, h3⟩
    refine ⟨?_, h2, h3⟩
    rw [h.contains]
    exact ⟨((h.contains v).mp h2).1.step h3, hfull v h2 u h3⟩

/-! ### fuel -/

theorem wt_congr (w : K → Nat) (U : List K) {vis vis' : List K} (h : ∀ x, x ∈ vis ↔ x ∈ vis') :
    wt w U vis = wt w U vis' :=
  Nat.le_antisymm (wt_anti w U (fun x hx => (h x).mpr hx)) (wt_anti w U (fun x hx => (h x).mp hx))

theorem loadLoop_fuel {store : Store E} (ids : List K) (hids : ∀ k, (store k).isSome = true → k ∈ ids) :
    ∀ (fuel : Nat) (st : List K) (g : Dag E) (es : List (K × K)),
      st.length + wt (fun k => (storeNext store k).length) ids g.keys < fuel →
      ∃ r, loadLoop store fuel st g es = some r := by
  intro fuel
  induction fuel with
  | zero => intro st g es h; omega
  | succ fuel ih =>
    intro st g es h
    cases st with
    | nil => exact ⟨(g, es), by simp [loadLoop]⟩
    | cons c st =>
      simp only [List.length_cons] at h
      rw [loadLoop]
      by_cases hc : g.contains c = true
      · simp only [hc, if_true]; exact ih _ _ _ (by omega)
      · have hc' : g.contains c = false := by simpa using hc
        simp only [hc', Bool.false_eq_true, if_false]
        cases hs : store c with
        | none => exact ih _ _ _ (by omega)
        | some pe =>
          obtain ⟨ps, e⟩ := pe
          simp only
          apply ih
          have hcU : c ∈ ids := hids c (by simp [hs])
          have hcv : c ∉ g.keys := by rw [Dag.mem_keys_iff]; simpa using hc'
          have hlt := wt_lt (fun k => (storeNext store k).length) hcU hcv
          have hcg : wt (fun k => (storeNext store k).length) ids (g.node c e).keys =
              wt (fun k => (storeNext store k).length) ids (c :: g.keys) := by
            apply wt_congr
            intro x
            simp only [Dag.mem_keys_iff, Dag.contains, node_get, List.mem_cons]
            by_cases hxc : x = c <;> simp [hxc]
          rw [hcg]
          simp only [List.length_append, List.length_reverse, storeNext_of_some hs] at hlt ⊢
          omega

theorem load_fuel {store : Store E} (ids tips : List K) (hids : ∀ k, (store k).isSome = true → k ∈ ids) :
    ∃ r, load store (loadFuel store ids tips) tips = some r := by
  have h0 : wt (fun k => (storeNext store k).length) ids (Dag.empty : Dag E).keys ≤
      (ids.map fun k => (storeNext store k).length + 1).sum := by
    have : (Dag.empty : Dag E).keys = [] := rfl
    rw [this]
    exact wt_nil_le _ _ (fun _ => Nat.le_refl _) ids
  obtain ⟨⟨g, es⟩, hr⟩ := loadLoop_fuel ids hids (loadFuel store ids tips) tips.reverse Dag.empty []
    (by simp only [loadFuel, List.length_reverse]; omega)
  unfold load
  rw [hr]
  simp only
  split
  · exact ⟨_, rfl⟩
  · exact ⟨_, rfl⟩

end HeartwoodModel.ChangeGraph
