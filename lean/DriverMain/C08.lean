import HeartwoodModel.Driver.Loop
import HeartwoodModel.Driver.C08
def main : IO Unit := HeartwoodModel.Driver.driverMain "C08" HeartwoodModel.Driver.C08.run
