import HeartwoodModel.Model.Varint
import HeartwoodModel.Lemmas.Codec
/-!
# Lemmas about the varint model (C13a, C14)
-/
set_option linter.unusedSimpArgs false
set_option linter.unusedVariables false
namespace HeartwoodModel.Varint
open HeartwoodModel.Codec

/-- The most significant byte of a big-endian encoding. -/
theorem beEnc_succ_left (k n : Nat) :
    beEnc (k + 1) n = UInt8.ofNat (n / 256 ^ k % 256) :: beEnc k (n % 256 ^ k) := by
  induction k generalizing n with
  | zero => simp [beEnc, Nat.mod_one]
  | succ k ih =>
    have e1 : beEnc (k + 1 + 1) n = beEnc (k + 1) (n / 256) ++ [UInt8.ofNat (n % 256)] := rfl
    have e2 : beEnc (k + 1) (n % 256 ^ (k + 1)) =
        beEnc k (n % 256 ^ (k + 1) / 256) ++ [UInt8.ofNat (n % 256 ^ (k + 1) % 256)] := rfl
    rw [e1, ih, e2]
    have h1 : n / 256 / 256 ^ k = n / 256 ^ (k + 1) := by
      rw [Nat.div_div_eq_div_mul, Nat.pow_succ, Nat.mul_comm]
    have h2 : n % 256 ^ (k + 1) / 256 = n / 256 % 256 ^ k := by
      rw [Nat.pow_succ]; exact Nat.mod_mul_left_div_self n 256 (256 ^ k)
    have h3 : n % 256 ^ (k + 1) % 256 = n % 256 := by
      rw [Nat.pow_succ]; exact Nat.mod_mul_left_mod n (256 ^ k) 256
    rw [h1, h2, h3]
    rfl

/-- `decode` is "read one byte, then dispatch on its two top bits". -/
def body (b0 : UInt8) : Dec Nat :=
  match b0.toNat / 64 with
  | 0 => Dec.pure (b0.toNat % 64)
  | 1 => (take 1).map fun t => b0.toNat % 64 * 256 ^ 1 + beVal t
  | 2 => (take 3).map fun t => b0.toNat % 64 * 256 ^ 3 + beVal t
  | 3 => (take 7).map fun t => b0.toNat % 64 * 256 ^ 7 + beVal t
  | _ => fun _ => .panic "varint.rs: unreachable!"

theorem decode_eq_bind : decode = u8.bind body := by
  funext b
  cases b with
  | nil => rfl
  | cons b0 r =>
    simp only [decode, Dec.bind, u8, body]
    generalize b0.toNat / 64 = q
    rcases q with _ | _ | _ | _ | q <;> rfl

theorem body_eq (b0 : UInt8) : body b0 =
    if b0.toNat / 64 = 0 then Dec.pure (b0.toNat % 64)
    else if b0.toNat / 64 = 1 then (take 1).map fun t => b0.toNat % 64 * 256 ^ 1 + beVal t
    else if b0.toNat / 64 = 2 then (take 3).map fun t => b0.toNat % 64 * 256 ^ 3 + beVal t
    else if b0.toNat / 64 = 3 then (take 7).map fun t => b0.toNat % 64 * 256 ^ 7 + beVal t
    else fun _ => .panic "varint.rs: unreachable!" := by
  unfold body
  generalize b0.toNat / 64 = q
  rcases q with _ | _ | _ | _ | q <;> simp

/-- The `unreachable!` in `VarInt::decode` is unreachable: decoding never panics. -/
theorem decode_no_panic : NoPanic decode := by
  rw [decode_eq_bind]
  apply NoPanic.u8.bind
  intro b0
  have h := b0.toNat_lt
  have h4 : b0.toNat / 64 < 4 := by omega
  rw [body_eq]
  split
  · exact NoPanic.pure _
  · split
    · exact (NoPanic.take _).map _
    · split
      · exact (NoPanic.take _).map _
      · split
        · exact (NoPanic.take _).map _
        · omega

/-- A decoded varint is below 2^62 and at least one byte was consumed. -/
theorem decode_ok {b r : Bytes} {n : Nat} (h : decode b = .ok n r) : n < 2 ^ 62 ∧ r.length < b.length := by
  rw [decode_eq_bind, bind_ok_iff] at h
  obtain ⟨b0, r1, h0, hb⟩ := h
  rw [u8_ok_iff] at h0
  subst h0
  have hlt := b0.toNat_lt
  have hmap : ∀ k (hk : 64 * 256 ^ k ≤ 2 ^ 62),
      ((take k).map fun t => b0.toNat % 64 * 256 ^ k + beVal t) r1 = .ok n r →
      n < 2 ^ 62 ∧ r.length < (b0 :: r1).length := by
    intro k hk hb
    rw [map_ok_iff] at hb
    obtain ⟨t, ht, rfl⟩ := hb
    rw [take_ok_iff] at ht
    obtain ⟨hl, rfl⟩ := ht
    have hv := beVal_lt t
    rw [hl] at hv
    simp only [List.length_cons, List.length_append]
    constructor
    · have h64 : b0.toNat % 64 < 64 := Nat.mod_lt _ (by decide)
      have : b0.toNat % 64 * 256 ^ k ≤ 63 * 256 ^ k := Nat.mul_le_mul_right _ (by omega)
      omega
    · omega
  rw [body_eq] at hb
  split at hb
  · rw [pure_ok_iff] at hb
    obtain ⟨rfl, rfl⟩ := hb
    simp; omega
  · split at hb
    · exact hmap 1 (by decide) hb
    · split at hb
      · exact hmap 3 (by decide) hb
      · split at hb
        · exact hmap 7 (by decide) hb
        · cases hb

private theorem ofNat_toNat_mod (m : Nat) (h : m < 256) : (UInt8.ofNat m).toNat = m := by
  rw [UInt8.toNat_ofNat']; omega

/-- Generic width: a `k+1`-byte varint with tag `t`. -/
private theorem enc_width (k t x : Nat) (ht : t < 4) (hx : x < 64 * 256 ^ k)
    (hbody : ∀ b0 : UInt8, b0.toNat / 64 = t →
      body b0 = (if k = 0 then Dec.pure (b0.toNat % 64)
                 else (take k).map fun s => b0.toNat % 64 * 256 ^ k + beVal s)) :
    Enc decode (beEnc (k + 1) (t * (64 * 256 ^ k) + x)) x := by
  rw [beEnc_succ_left, decode_eq_bind]
  have hpos : 0 < 256 ^ k := Nat.pow_pos (by decide)
  have hdiv : (t * (64 * 256 ^ k) + x) / 256 ^ k = t * 64 + x / 256 ^ k := by
    rw [show t * (64 * 256 ^ k) = (t * 64) * 256 ^ k by rw [Nat.mul_assoc]]
    rw [Nat.add_comm, Nat.add_mul_div_right _ _ hpos, Nat.add_comm]
  have hmod : (t * (64 * 256 ^ k) + x) % 256 ^ k = x % 256 ^ k := by
    rw [show t * (64 * 256 ^ k) = (t * 64) * 256 ^ k by rw [Nat.mul_assoc]]
    rw [Nat.add_comm, Nat.add_mul_mod_self_right]
  have hq : x / 256 ^ k < 64 := Nat.div_lt_of_lt_mul (by rw [Nat.mul_comm]; exact hx)
  rw [hdiv, hmod]
  have hsplit : x / 256 ^ k * 256 ^ k + x % 256 ^ k = x := Nat.div_add_mod' x (256 ^ k)
  generalize x / 256 ^ k = q at hq hsplit ⊢
  have hb0 : (UInt8.ofNat ((t * 64 + q) % 256)).toNat = t * 64 + q := by
    rw [ofNat_toNat_mod _ (Nat.mod_lt _ (by decide))]; omega
  have henc : Enc (body (UInt8.ofNat ((t * 64 + q) % 256))) (beEnc k (x % 256 ^ k)) x := by
    rw [hbody _ (by rw [hb0]; omega), hb0]
    have hlow : (t * 64 + q) % 64 = q := by omega
    rw [hlow]
    by_cases hk : k = 0
    · subst hk
      simp only [if_true, beEnc]
      have : q = x := by simp at hsplit; omega
      rw [this]
      exact Enc.pure x
    · rw [if_neg hk]
      have h1 := (Enc.take (length_beEnc k (x % 256 ^ k))).map
        (fun s => q * 256 ^ k + beVal s)
      simp only [beVal_beEnc k _ (Nat.mod_lt _ hpos)] at h1
      rw [hsplit] at h1
      exact h1
  have := Enc.bind (Enc.u8 (UInt8.ofNat ((t * 64 + q) % 256))) henc
  simpa using this

/-- Every encoding produced by `VarInt::encode` is self-delimiting and decodes to the value. -/
theorem encode?_enc {x : Nat} {bs : Bytes} (h : encode? x = some bs) : Enc decode bs x := by
  unfold encode? at h
  split at h
  · cases h
    have := enc_width 0 0 x (by decide) (by simpa using ‹x < 2 ^ 6›)
      (by intro b0 h0; simp [body_eq, h0])
    simpa using this
  · split at h
    · cases h
      have := enc_width 1 1 x (by decide) (by have := ‹x < 2 ^ 14›; omega)
        (by intro b0 h0; simp [body_eq, h0])
      simpa using this
    · split at h
      · cases h
        have := enc_width 3 2 x (by decide) (by have := ‹x < 2 ^ 30›; omega)
          (by intro b0 h0; simp [body_eq, h0])
        simpa using this
      · split at h
        · cases h
          have := enc_width 7 3 x (by decide) (by have := ‹x < 2 ^ 62›; omega)
            (by intro b0 h0; simp [body_eq, h0])
          simpa using this
        · cases h

theorem encode?_isSome {x : Nat} (h : x < 2 ^ 62) : ∃ bs, encode? x = some bs := by
  unfold encode?
  split
  · exact ⟨_, rfl⟩
  · split
    · exact ⟨_, rfl⟩
    · split
      · exact ⟨_, rfl⟩
      · simp [h]

theorem encode?_lt {x : Nat} {bs : Bytes} (h : encode? x = some bs) : x < 2 ^ 62 := by
  unfold encode? at h
  split at h
  · omega
  · split at h
    · omega
    · split at h
      · omega
      · split at h
        · assumption
        · cases h

theorem encode?_ne_nil {x : Nat} {bs : Bytes} (h : encode? x = some bs) : bs ≠ [] := by
  intro hn
  subst hn
  have := (encode?_enc h).1 []
  simp [decode] at this

/-- `varint::payload::encode`/`decode` round-trip, self-delimiting. -/
theorem payload_enc {p x : Bytes} (h : payloadEncode? p = some x) : Enc payloadDecode x p := by
  unfold payloadEncode? at h
  cases he : encode? p.length with
  | none => simp [he] at h
  | some l =>
    simp [he] at h
    subst h
    exact Enc.bind (encode?_enc he) (Enc.take rfl)

theorem payloadDecode_no_panic : NoPanic payloadDecode :=
  decode_no_panic.bind fun n => NoPanic.take n

theorem payloadDecode_ok {b r p : Bytes} (h : payloadDecode b = .ok p r) : r.length < b.length := by
  unfold payloadDecode at h
  rw [bind_ok_iff] at h
  obtain ⟨n, r1, h1, h2⟩ := h
  have := (decode_ok h1).2
  rw [take_ok_iff] at h2
  obtain ⟨_, rfl⟩ := h2
  simp at this ⊢; omega

/-- A complete payload: the declared number of bytes is there. -/
theorem payloadDecode_complete {b r1 : Bytes} {n : Nat} (h : decode b = .ok n r1) (hn : n ≤ r1.length) :
    payloadDecode b = .ok (r1.take n) (r1.drop n) := by
  simp [payloadDecode, Dec.bind, h, take, Nat.not_lt.mpr hn]

/-- The buffer requested by `payload::decode` is bounded by the bytes that are there. -/
theorem payloadAlloc_le (b : Bytes) : payloadAlloc b ≤ 2 * b.length + 32 := by
  unfold payloadAlloc
  cases h : decode b with
  | ok n r =>
    have := (decode_ok h).2
    simp only [growReq]
    have : min n r.length ≤ r.length := Nat.min_le_right _ _
    omega
  | incomplete => simp
  | invalid => simp
  | panic s => simp

end HeartwoodModel.Varint
