import HeartwoodModel.Driver.Loop
import HeartwoodModel.Driver.C14
def main : IO Unit := HeartwoodModel.Driver.driverMain "C14" HeartwoodModel.Driver.C14.run
