import HeartwoodModel.Model.Identity
import HeartwoodModel.Lemmas.Identity
import HeartwoodModel.Lemmas.CobDag
import HeartwoodModel.Props.C06
/-!
# C04 — Identity revisions need a majority of valid delegate signatures

Theorems about `Model/Identity.lean` (the CURRENT `/repo`: `Identity::op` atomic, `RevisionAccept`
checks before it records, an op may create at most one revision). `V` is the Ed25519 verification
predicate — a parameter, universally quantified in every theorem. `MajoritySigned V d r` = a
duplicate-free list of at least `|delegates(d)|/2 + 1` delegates of `d`, each with a recorded `Accept`
verdict on `r` whose signature verifies (`V`) over `r`'s blob.

`Inv V s` (Lemmas/Identity.lean) is the invariant of evaluation; it holds after `from_root` and is
preserved by every applied op (below), so the per-action theorems apply to every reachable state.
-/
set_option linter.unusedVariables false
namespace HeartwoodModel.Identity
open HeartwoodModel.Cob

/-! ### single action -/

/-- **current_needs_majority** (per action, any invariant state, any action / author / op id / `V`).
Whenever an action moves `current` from `r0` to `r1`: `r1` is a live revision whose parent is `r0`, and a
strict majority of the delegates of `r0`'s document have each recorded a valid signature over `r1`'s blob. -/
theorem current_needs_majority {V : Key → Sig → Blob → Bool} {s s' : Identity} {a : Action} {entry : Id}
    {author : Key} (inv : Inv V s) (h : action V s a entry author = .ok s') (hne : s'.current ≠ s.current) :
    ∃ c r1, get? s.current s.revisions = some (some c) ∧ get? s'.current s'.revisions = some (some r1) ∧
      r1.parent = some s.current ∧ MajoritySigned V c.doc r1 := by
  rcases (action_step inv h).trans with h1 | h1
  · exact absurd h1 hne
  · exact h1

/-- **current_is_stable** (per action): an accepted revision — in particular the current one — is never
redacted, edited or otherwise modified, and `current` only ever moves to a revision whose parent is the
previous `current`. -/
theorem current_is_stable {V : Key → Sig → Blob → Bool} {s s' : Identity} {a : Action} {entry : Id}
    {author : Key} (inv : Inv V s) (h : action V s a entry author = .ok s') :
    (∀ id r, get? id s.revisions = some (some r) → r.state = .accepted → get? id s'.revisions = some (some r)) ∧
    (s'.current ≠ s.current → ∃ r1, get? s'.current s'.revisions = some (some r1) ∧ r1.parent = some s.current) := by
  have st := action_step inv h
  refine ⟨st.stable, fun hne => ?_⟩
  obtain ⟨c, r1, _, h2, h3, _⟩ := current_needs_majority inv h hne
  exact ⟨r1, h2, h3⟩

/-! ### whole operations -/

/-- **non_delegate_no_effect**: an op whose author is not a delegate of the current document leaves the
identity state unchanged (whether it is rejected, or — with concurrent entries — skipped action by
action). No invariant is needed. -/
theorem non_delegate_no_effect {V : Key → Sig → Blob → Bool} {s s' : Identity} {o : Op}
    (hnd : ∀ c, s.currentRev = some c → c.doc.isDelegate o.author = false) (h : op V s o = .ok s') :
    s' = s := by
  unfold Identity.op at h
  generalize o.actions = as at h
  induction as with
  | nil => simp only [applyActions] at h; cases h; rfl
  | cons a as ih =>
    simp only [applyActions] at h
    rcases action_non_delegate (V := V) (a := a) (entry := o.id) hnd with he | he
    · rw [he] at h
      simp only at h
      split at h
      · exact ih h
      · cases h
    · rw [he] at h
      cases h

theorem non_delegate_step {V : Key → Sig → Blob → Bool} {s : Identity} {o : Op}
    (hnd : ∀ c, s.currentRev = some c → c.doc.isDelegate o.author = false) : step V s o = s := by
  unfold Identity.step
  cases hop : op V s o with
  | error _ => rfl
  | ok s' => exact non_delegate_no_effect hnd hop

/-- The actions of one applied op preserve the invariant and never touch an accepted revision. -/
theorem applyActions_inv {V : Key → Sig → Blob → Bool} {entry : Id} {author : Key} {conc : Bool}
    (as : List Action) {s s' : Identity} (inv : Inv V s) (h : applyActions V entry author conc s as = .ok s') :
    Inv V s' ∧ s'.root = s.root ∧
    (∀ id r, get? id s.revisions = some (some r) → r.state = .accepted → get? id s'.revisions = some (some r)) := by
  induction as generalizing s with
  | nil => simp only [applyActions] at h; cases h; exact ⟨inv, rfl, fun _ _ h _ => h⟩
  | cons a as ih =>
    simp only [applyActions] at h
    split at h
    · rename_i s1 h1
      have st := action_step inv h1
      obtain ⟨i2, r2, s2⟩ := ih st.inv h
      exact ⟨i2, r2.trans st.root, fun id r hr hacc => s2 id r (st.stable id r hr hacc) hacc⟩
    · split at h
      · exact ih inv h
      · cases h
    · exact ih inv h
    · cases h

/-- An applied op preserves the invariant and never touches an accepted revision. -/
theorem op_inv {V : Key → Sig → Blob → Bool} {s s' : Identity} {o : Op} (inv : Inv V s) (h : op V s o = .ok s') :
    Inv V s' ∧ s'.root = s.root ∧
    (∀ id r, get? id s.revisions = some (some r) → r.state = .accepted → get? id s'.revisions = some (some r)) :=
  applyActions_inv o.actions inv h

/-! ### histories -/

theorem foldl_ins_keys {ds : List Key} {v : Id} {m : List (Key × Id)} (hn : (m.map (·.1)).Nodup) :
    ((ds.foldl (fun m d => ins d v m) m).map (·.1)).Nodup := by
  induction ds generalizing m with
  | nil => exact hn
  | cons d ds ih => exact ih (keys_ins_nodup hn)

theorem foldl_ins_vals {ds : List Key} {v : Id} {m : List (Key × Id)} (hm : ∀ k x, get? k m = some x → x = v)
    (k : Key) (x : Id) (h : get? k (ds.foldl (fun m d => ins d v m) m) = some x) : x = v := by
  induction ds generalizing m with
  | nil => exact hm k x h
  | cons d ds ih =>
    refine ih (fun k' x' h' => ?_) h
    rw [get?_ins] at h'
    split at h'
    · cases h'; rfl
    · exact hm k' x' h'

/-- The state built by `from_root` satisfies the invariant. -/
theorem fromRoot_inv {V : Key → Sig → Blob → Bool} {root : Op} {embedded : Option IdDoc} {repoId : Blob}
    {s0 : Identity} (h : fromRoot V root embedded repoId = .ok s0) : Inv V s0 ∧ s0.root = root.id := by
  unfold Identity.fromRoot at h
  split at h
  · split at h
    · cases h
    · rename_i rootDoc
      repeat' split at h
      all_goals first | cases h | skip
      refine ⟨⟨⟨_, if_pos rfl, rfl⟩, foldl_ins_keys (by simp), ?_, ?_, ?_⟩, rfl⟩
      · intro id r c hr hact _
        simp only [get?] at hr
        split at hr
        · cases hr; cases hact
        · cases hr
      · intro id r hr hacc hroot
        simp only [get?] at hr
        split at hr
        · rename_i hh; exact absurd hh.symm hroot
        · cases hr
      · intro k id hk
        have := foldl_ins_vals (v := root.id) (m := []) (fun k x h => by simp [get?] at h) k id hk
        subst this
        simp [get?]
  · cases h

theorem eval_cons (V : Key → Sig → Blob → Bool) (s : Identity) (o : Op) (os : List Op) :
    eval V s (o :: os) = eval V (step V s o) os := rfl

theorem step_cases (V : Key → Sig → Blob → Bool) (s : Identity) (o : Op) :
    ((∃ e, op V s o = .error e) ∧ step V s o = s) ∨ ∃ s1, op V s o = .ok s1 ∧ step V s o = s1 := by
  unfold Identity.step
  cases hop : op V s o with
  | error e => exact Or.inl ⟨⟨e, rfl⟩, rfl⟩
  | ok s1 => exact Or.inr ⟨s1, rfl, rfl⟩

/-- Evaluating any entries preserves the invariant and never touches an accepted revision. -/
theorem eval_inv {V : Key → Sig → Blob → Bool} (ops : List Op) {s : Identity} (inv : Inv V s) :
    Inv V (eval V s ops) ∧ (eval V s ops).root = s.root ∧
    (∀ id r, get? id s.revisions = some (some r) → r.state = .accepted →
      get? id (eval V s ops).revisions = some (some r)) := by
  induction ops generalizing s with
  | nil => exact ⟨inv, rfl, fun _ _ h _ => h⟩
  | cons o os ih =>
    simp only [eval_cons]
    rcases step_cases V s o with ⟨_, hst⟩ | ⟨s1, hop, hst⟩
    · rw [hst]; exact ih inv
    · rw [hst]
      obtain ⟨i1, r1, st1⟩ := op_inv inv hop
      obtain ⟨i2, r2, st2⟩ := ih i1
      exact ⟨i2, r2.trans r1, fun id r hr hacc => st2 id r (st1 id r hr hacc) hacc⟩

/-- **accepted_has_majority** — the property over whole histories, at full strength: for every `V`, every
valid root op and every list of further entries (any ids, any authors, any actions, in whatever order and
with whatever `concurrent` flags the evaluator used; rejected entries are pruned), in the evaluated state
* the current revision exists and is accepted;
* every accepted revision other than the root — in particular the current one — has a live, accepted
  parent, and a strict majority of the delegates of the PARENT's document have each recorded a valid
  signature over its blob. -/
theorem accepted_has_majority {V : Key → Sig → Blob → Bool} {root : Op} {embedded : Option IdDoc}
    {repoId : Blob} {s0 : Identity} (h0 : fromRoot V root embedded repoId = .ok s0) (ops : List Op) :
    (∃ c, get? (eval V s0 ops).current (eval V s0 ops).revisions = some (some c) ∧ c.state = .accepted) ∧
    ∀ id r, get? id (eval V s0 ops).revisions = some (some r) → r.state = .accepted → id ≠ root.id →
      ∃ pid p, r.parent = some pid ∧ get? pid (eval V s0 ops).revisions = some (some p) ∧
        p.state = .accepted ∧ MajoritySigned V p.doc r := by
  obtain ⟨inv0, hroot0⟩ := fromRoot_inv h0
  obtain ⟨inv, hr, _⟩ := eval_inv ops inv0
  refine ⟨inv.cur, fun id r h1 h2 h3 => inv.accepted id r h1 h2 ?_⟩
  rw [hr, hroot0]; exact h3

/-- **accepted_is_forever** — once a revision is accepted (current), no later entry redacts, edits or
replaces it: it is found unchanged in every later evaluated state. -/
theorem accepted_is_forever {V : Key → Sig → Blob → Bool} {root : Op} {embedded : Option IdDoc}
    {repoId : Blob} {s0 : Identity} (h0 : fromRoot V root embedded repoId = .ok s0) (pre post : List Op)
    {id : Id} {r : Revision} (hr : get? id (eval V s0 pre).revisions = some (some r))
    (hacc : r.state = .accepted) : get? id (eval V s0 (pre ++ post)).revisions = some (some r) := by
  obtain ⟨inv0, _⟩ := fromRoot_inv h0
  obtain ⟨inv1, _, _⟩ := eval_inv pre inv0
  obtain ⟨_, _, st⟩ := eval_inv post inv1
  have : eval V s0 (pre ++ post) = eval V (eval V s0 pre) post := by
    simp [Identity.eval, List.foldl_append]
  rw [this]
  exact st id r hr hacc

/-- **current_moves_only_with_majority** (history form of `current_needs_majority`): at every position of
every history, every single action that moves `current` is justified. Stated for the state reached
after any prefix: it satisfies the invariant the per-action theorems need. -/
theorem reachable_inv {V : Key → Sig → Blob → Bool} {root : Op} {embedded : Option IdDoc}
    {repoId : Blob} {s0 : Identity} (h0 : fromRoot V root embedded repoId = .ok s0) (ops : List Op) :
    Inv V (eval V s0 ops) :=
  (eval_inv ops (fromRoot_inv h0).1).1

/-! ### every change graph -/

section Graph
open HeartwoodModel.Dag HeartwoodModel.ChangeGraph

/-- `Evaluate::init` for identities: `embeddedOf` gives the document embedded in a commit
(`Doc::load_at`), `repoId` the blob the repository is named after. -/
def graphInit (V : Key → Sig → Blob → Bool) (embeddedOf : Op → Option IdDoc) (repoId : Blob) (o : Op) :
    Option Identity :=
  match fromRoot V o (embeddedOf o) repoId with
  | .ok s => some s
  | .error _ => none

/-- **accepted_has_majority_dag** — the property for the state produced by the real evaluation algorithm
(`ChangeGraph::evaluate` as modelled in `Model/ChangeGraph.lean`, with `Identity::op` reading
`concurrent.is_empty()` off the evaluator's sibling list) on EVERY well-formed acyclic change graph, for
every verification predicate `V`: the current revision exists and is accepted, and every accepted
revision other than the root has a live accepted parent a strict majority of whose document's delegates
have each recorded a valid signature over its blob; moreover the evaluated state is a linear run over
validly signed entries of the graph, reached through states that all satisfy the invariant `Inv`. -/
theorem accepted_has_majority_dag {V : Key → Sig → Blob → Bool} {embeddedOf : Op → Option IdDoc}
    {repoId : Blob} {g g' : Dag Op} (hwf : g.Wf) (hac : Acyclic g.dependentsOf)
    {sigOk : Op → Bool} {ts : Op → Nat} {fuel : Nat} {root : K} {s : Identity}
    (h : evaluate sigOk ts (graphInit V embeddedOf repoId) (identityApplyM V) fuel g root = .ok s g') :
    ∃ (rootOp : Op), (∃ rn, g.get root = some rn ∧ rn.value = rootOp) ∧ Inv V s ∧
      (∃ c, get? s.current s.revisions = some (some c) ∧ c.state = .accepted) ∧
      ∀ id r, get? id s.revisions = some (some r) → r.state = .accepted → id ≠ rootOp.id →
        ∃ pid p, r.parent = some pid ∧ get? pid s.revisions = some (some p) ∧ p.state = .accepted ∧
          MajoritySigned V p.doc r := by
  obtain ⟨rn, s0, calls, hr, hi, _, _, _, hs⟩ :=
    evaluate_is_fold (stepf := step V)
      (entryOf := fun (c : Call Op) => ({ c.2.1.value with concurrent := !c.2.2.isEmpty } : Op)) hwf hac
      (fun s k n sibs => by simp [identityApplyM]) h
  have hi' : fromRoot V rn.value (embeddedOf rn.value) repoId = .ok s0 := by
    unfold graphInit at hi
    split at hi
    · rename_i q hq; cases hi; exact hq
    · cases hi
  have := accepted_has_majority hi' (calls.map fun (c : Call Op) => ({ c.2.1.value with concurrent := !c.2.2.isEmpty } : Op))
  have hinv := reachable_inv hi' (calls.map fun (c : Call Op) => ({ c.2.1.value with concurrent := !c.2.2.isEmpty } : Op))
  rw [show eval V s0 _ = s from hs.symm] at this hinv
  exact ⟨rn.value, ⟨rn, hr, rfl⟩, hinv, this.1, this.2⟩

end Graph

/-! ### regression: an op with two `Revision` actions (fix a66814b) -/

section Regression

def Vtrue : Key → Sig → Blob → Bool := fun _ _ _ => true
def d0 : IdDoc := { blob := 0, delegates := [0] }
def d1 : IdDoc := { blob := 1, delegates := [0, 1, 2] }
def d2 : IdDoc := { blob := 2, delegates := [0, 3] }
def rootOp : Op := { id := 0, author := 0, concurrent := false, actions := [.revision 1 (some d0) none 0] }
/-- one op, two `Revision` actions: before the fix the first was adopted (the author is the only delegate
of `d0`) and the second — whose parent is the root — overwrote it in place under the same id. -/
def twoRevisions : Op :=
  { id := 1, author := 0, concurrent := false,
    actions := [.revision 1 (some d1) (some 0) 0, .revision 2 (some d2) (some 0) 0] }

/-- The op is now rejected as a whole and leaves the identity untouched; its first action alone is fine. -/
theorem double_revision_rejected :
    ∃ s0, fromRoot Vtrue rootOp (some d0) 0 = .ok s0 ∧ op Vtrue s0 twoRevisions = .error .init ∧
      eval Vtrue s0 [twoRevisions] = s0 ∧
      (eval Vtrue s0 [{ twoRevisions with actions := [.revision 1 (some d1) (some 0) 0] }]).currentRev.map
        (fun r => (r.doc.blob, r.state)) = some (1, RState.accepted) :=
  ⟨_, rfl, rfl, by decide, by decide⟩

end Regression

/-! ### non-vacuity -/

section Examples

def dA : IdDoc := { blob := 0, delegates := [0, 1, 2, 3] }
def dB : IdDoc := { blob := 1, delegates := [0, 1, 2] }
def root4 : Op := { id := 0, author := 0, concurrent := false, actions := [.revision 1 (some dA) none 0] }
/-- signature token `k` is key `k`'s signature over blob 1 (and key 0's token 0 also over the root blob);
token `9` verifies for nobody. -/
def Vroot : Key → Sig → Blob → Bool := fun k s b => (s = k ∧ b = 1) ∨ (k = 0 ∧ s = 0 ∧ b = 0)
def propose : Op := { id := 1, author := 0, concurrent := false, actions := [.revision 2 (some dB) (some 0) 0] }
def forged : Op := { id := 2, author := 1, concurrent := false, actions := [.revisionAccept 1 9] }
def honest2 : Op := { id := 3, author := 2, concurrent := false, actions := [.revisionAccept 1 2] }
def honest3 : Op := { id := 4, author := 3, concurrent := false, actions := [.revisionAccept 1 3] }

/-- The C04 witness of the pre-fix code (4 delegates, majority 3): alice proposes, bob's accept carries a
signature over other bytes (rejected, pruned, and — now — without any effect), carol accepts honestly:
the proposal is NOT adopted with 2 valid signatures; a third valid signature adopts it. -/
example : ∃ s0, fromRoot Vroot root4 (some dA) 0 = .ok s0 ∧
    (eval Vroot s0 [propose, forged, honest2]).current = 0 ∧
    (eval Vroot s0 [propose, forged, honest2, honest3]).current = 1 :=
  ⟨_, rfl, by decide, by decide⟩

/-- the hypotheses of `current_needs_majority` are satisfiable (a transition really happens). -/
example : ∃ s0, fromRoot Vroot root4 (some dA) 0 = .ok s0 ∧
    (eval Vroot s0 [propose, honest2]).current ≠ (eval Vroot s0 [propose, honest2, honest3]).current :=
  ⟨_, rfl, by decide⟩

end Examples

end HeartwoodModel.Identity
