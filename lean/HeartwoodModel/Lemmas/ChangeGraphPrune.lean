import HeartwoodModel.Lemmas.ChangeGraphLoad
/-!
# Pruning again changes nothing (C06)

For a filter that is *atomic* (a `Break` leaves the state as it was) and looks only at the value of the
node it is called on, running `prune_by` on the pruned graph — from the surviving roots — visits the
survivors in the same order, accepts all of them and ends in the same state and the same graph.
-/
set_option linter.unusedSimpArgs false
set_option linter.unusedVariables false
namespace HeartwoodModel.Dag
variable {V S : Type}

/-- A `Break` leaves the state untouched. -/
def FilterAtomic (F : S → K → Node V → List (K × Node V) → S × Bool) : Prop :=
  ∀ s k n sibs, (F s k n sibs).2 = false → (F s k n sibs).1 = s

/-- The filter depends on the node only through its value, and not on the siblings. -/
def FilterLocal (F : S → K → Node V → List (K × Node V) → S × Bool) : Prop :=
  ∀ s k n n' sibs sibs', n.value = n'.value → F s k n sibs = F s k n' sibs'

/-! ### the successor function of `visit_by` on the pruned graph -/

theorem filter_filterMap_key {α : Type} (p : K → Bool) (f : K → Option (K × α))
    (hf : ∀ d q, f d = some q → q.1 = d) (ds : List K) :
    (ds.filter p).filterMap f = (ds.filterMap f).filter (fun q => p q.1) := by
  induction ds with
  | nil => rfl
  | cons d ds ih =>
    simp only [List.filter_cons, List.filterMap_cons]
    cases hfd : f d with
    | none =>
      by_cases hp : p d = true
      · simp [hp, hfd, ih]
      · simp [hp, ih]
    | some q =>
      have hq := hf d q hfd
      by_cases hp : p d = true
      · simp [hp, hfd, List.filter_cons, hq, ih]
      · simp [hp, List.filter_cons, hq, ih]

theorem filterMap_congr' {α β : Type} {f f' : α → Option β} {l : List α} (h : ∀ x ∈ l, f x = f' x) :
    l.filterMap f = l.filterMap f' := by
  induction l with
  | nil => rfl
  | cons a t ih =>
    simp only [List.filterMap_cons]
    rw [h a (by simp), ih (fun x hx => h x (List.mem_cons_of_mem _ hx))]

theorem visitByNext_rel {g0 g : Dag V} {R : List K} (hrel : Rel g0 R g)
    {le : K × V → K × V → Bool} (hle : TotalPreorder le) (k : K) (hk : k ∉ R) :
    g.visitByNext le k = (g0.visitByNext le k).filter (fun y => decide (y ∉ R)) := by
  have hdep : g.dependentsOf k = (g0.dependentsOf k).filter (fun y => decide (y ∉ R)) := by
    simp only [Dag.dependentsOf, hrel.get k, hk, if_false]
    cases g0.get k <;> simp
  have hfm : ∀ d, (fun d => (g.get d).map fun n => (d, n.value)) d =
      if d ∈ R then none else (fun d => (g0.get d).map fun n => (d, n.value)) d := by
    intro d
    simp only [hrel.get d]
    by_cases hd : d ∈ R
    · simp [hd]
    · simp only [hd, if_false]
      cases g0.get d <;> simp
  have hL : ((g.dependentsOf k).filterMap fun d => (g.get d).map fun n => (d, n.value)) =
      ((g0.dependentsOf k).filterMap fun d => (g0.get d).map fun n => (d, n.value)).filter
        (fun q => decide (q.1 ∉ R)) := by
    rw [hdep]
    have h1 : ((g0.dependentsOf k).filter fun y => decide (y ∉ R)).filterMap
          (fun d => (g.get d).map fun n => (d, n.value)) =
        ((g0.dependentsOf k).filter fun y => decide (y ∉ R)).filterMap
          (fun d => (g0.get d).map fun n => (d, n.value)) := by
      apply filterMap_congr'
      intro d hd
      have hdR : d ∉ R := by simpa using (List.mem_filter.mp hd).2
      have := hfm d
      simp only [hdR, if_false] at this
      exact this
    rw [h1]
    apply filter_filterMap_key (fun y => decide (y ∉ R))
    intro d q hq
    cases hg : g0.get d with
    | none => simp [hg] at hq
    | some n => simp [hg] at hq; rw [← hq]
  simp only [Dag.visitByNext, hL, ← isort_filter hle, List.filter_reverse, List.filter_map]
  rfl

theorem visitByNext_removed {g0 : Dag V} {R : List K}
    (hcl : ∀ x, x ∈ R → ∀ y ∈ g0.dependentsOf x, y ∈ R) {le : K × V → K × V → Bool} (k : K) (hk : k ∈ R) :
    (g0.visitByNext le k).filter (fun y => decide (y ∉ R)) = [] := by
  apply List.filter_eq_nil_iff.mpr
  intro y hy
  have := hcl k hk y (mem_visitByNext.mp hy).1
  simpa using this

/-! ### simulation of the loop -/

theorem pruneLoop_sim {g0 : Dag V} (hwf : g0.Wf) (hac : Acyclic g0.dependentsOf) (fuel : Nat)
    (F : S → K → Node V → List (K × Node V) → S × Bool) (hA : FilterAtomic F) (hL : FilterLocal F) :
    ∀ (ks : List K) (gc : Dag V) (sc : S) (Rc : List K) (g' : Dag V) (s' : S),
      Topo g0.dependentsOf ks → Rel g0 Rc gc → (∀ x, x ∈ Rc → ∀ y ∈ g0.dependentsOf x, y ∈ Rc) →
      Dag.pruneLoop fuel F gc sc ks = some (g', s') →
      ∃ R, Rel g0 R g' ∧ (∀ x, x ∈ R → ∀ y ∈ g0.dependentsOf x, y ∈ R) ∧ (∀ x, x ∈ Rc → x ∈ R) ∧
        (∀ x, x ∈ R → x ∈ Rc ∨ (g0.contains x = true ∧ ∃ b ∈ ks, x = b ∨ g0.Desc b x)) ∧
        (∀ fuel' r, Dag.pruneLoop fuel' F g' sc (ks.filter fun y => decide (y ∉ R)) = some r → r = (g', s')) := by
  intro ks
  induction ks with
  | nil =>
    intro gc sc Rc g' s' _ hrel hcl h
    simp [Dag.pruneLoop] at h
    obtain ⟨rfl, rfl⟩ := h
    refine ⟨Rc, hrel, hcl, fun _ hx => hx, fun _ hx => .inl hx, ?_⟩
    intro fuel' r hr
    simp [Dag.pruneLoop] at hr
    exact hr.symm
  | cons k ks ih =>
    intro gc sc Rc g' s' htopo hrel hcl h
    have hn := List.nodup_cons.mp htopo.nodup
    rw [Dag.pruneLoop] at h
    cases hk : gc.get k with
    | none =>
      simp only [hk] at h
      obtain ⟨R, hR, hRcl, hmono, hsound, hrun⟩ := ih _ _ _ _ _ htopo.tail hrel hcl h
      refine ⟨R, hR, hRcl, hmono, ?_, ?_⟩
      · intro x hx
        rcases hsound x hx with h1 | ⟨hc, b, hb, h1⟩
        · exact .inl h1
        · exact .inr ⟨hc, b, List.mem_cons_of_mem _ hb, h1⟩
      · intro fuel' r hr
        rcases hrel.get_none hk with hkR | hk0
        · have : k ∈ R := hmono k hkR
          simp only [List.filter_cons, this, not_true_eq_false, decide_false, Bool.false_eq_true, if_false] at hr
          exact hrun fuel' r hr
        · by_cases hkR : k ∈ R
          · simp only [List.filter_cons, hkR, not_true_eq_false, decide_false, Bool.false_eq_true, if_false] at hr
            exact hrun fuel' r hr
          · simp only [List.filter_cons, hkR, not_false_eq_true, decide_true, if_true] at hr
            rw [Dag.pruneLoop] at hr
            have : g'.get k = none := by rw [hR.get k]; simp [hkR, hk0]
            simp only [this] at hr
            exact hrun fuel' r hr
    | some n =>
      simp only [hk] at h
      obtain ⟨hkRc, n0, hn0, hnn⟩ := hrel.get_some hk
      have hkc : g0.contains k = true := Dag.contains_iff.mpr ⟨n0, hn0⟩
      cases hsib : gc.siblingsOf fuel k n with
      | none => simp [hsib] at h
      | some sibs =>
        simp only [hsib] at h
        by_cases hc : (F sc k n sibs).2 = true
        · -- accepted
          simp only [hc, if_true] at h
          obtain ⟨R, hR, hRcl, hmono, hsound, hrun⟩ := ih _ _ _ _ _ htopo.tail hrel hcl h
          have hkR : k ∉ R := by
            intro hkR
            rcases hsound k hkR with h1 | ⟨_, b, hb, h1⟩
            · exact hkRc h1
            · rcases h1 with rfl | h1
              · exact hn.1 hb
              · exact htopo.head_not_reached hb h1
          refine ⟨R, hR, hRcl, hmono, ?_, ?_⟩
          · intro x hx
            rcases hsound x hx with h1 | ⟨hc', b, hb, h1⟩
            · exact .inl h1
            · exact .inr ⟨hc', b, List.mem_cons_of_mem _ hb, h1⟩
          · intro fuel' r hr
            simp only [List.filter_cons, hkR, not_false_eq_true, decide_true, if_true] at hr
            rw [Dag.pruneLoop] at hr
            have hg'k : g'.get k = some (n0.strip R) := by rw [hR.get k]; simp [hkR, hn0]
            simp only [hg'k] at hr
            cases hsib' : g'.siblingsOf fuel' k (n0.strip R) with
            | none => simp [hsib'] at hr
            | some sibs' =>
              simp only [hsib'] at hr
              have heq : F sc k (n0.strip R) sibs' = F sc k n sibs :=
                hL sc k _ _ sibs' sibs (by rw [hnn]; rfl)
              rw [heq] at hr
              simp only [hc, if_true] at hr
              exact hrun fuel' r hr
        · -- rejected
          have hc' : (F sc k n sibs).2 = false := by simpa using hc
          have hs1 : (F sc k n sibs).1 = sc := hA sc k n sibs hc'
          simp only [hc', Bool.false_eq_true, if_false, hs1] at h
          cases hrm : gc.remove fuel k with
          | none => simp [hrm] at h
          | some g1 =>
            simp only [hrm] at h
            obtain ⟨R1, hp1⟩ := removeL_post hwf fuel gc Rc [k] g1 hrel hrm
            have hcl1 : ∀ x, x ∈ R1 → ∀ y ∈ g0.dependentsOf x, y ∈ R1 := by
              intro x hx
              rcases hp1.closed x hx with h1 | h1
              · exact fun y hy => hp1.mono y (hcl x h1 y hy)
              · exact h1
            have hkR1 : k ∈ R1 := hp1.done k (by simp) hkc
            obtain ⟨R, hR, hRcl, hmono, hsound, hrun⟩ := ih _ _ _ _ _ htopo.tail hp1.rel hcl1 h
            have hkR : k ∈ R := hmono k hkR1
            refine ⟨R, hR, hRcl, fun x hx => hmono x (hp1.mono x hx), ?_, ?_⟩
            · intro x hx
              rcases hsound x hx with h1 | ⟨hc'', b, hb, h1⟩
              · rcases hp1.sound x h1 with h2 | ⟨hc'', d, hd, h2⟩
                · exact .inl h2
                · simp at hd; subst hd
                  exact .inr ⟨hc'', d, by simp, h2⟩
              · exact .inr ⟨hc'', b, List.mem_cons_of_mem _ hb, h1⟩
            · intro fuel' r hr
              simp only [List.filter_cons, hkR, not_true_eq_false, decide_false, Bool.false_eq_true, if_false] at hr
              exact hrun fuel' r hr

/-- **Pruning the pruned graph again, from the surviving roots, is the identity** and ends in the same
state. `R` is the set of removed keys. -/
theorem pruneBy_idem {g g' : Dag V} (hwf : g.Wf) (hac : Acyclic g.dependentsOf)
    {F : S → K → Node V → List (K × Node V) → S × Bool} (hA : FilterAtomic F) (hL : FilterLocal F)
    {le : K × V → K × V → Bool} (hle : TotalPreorder le) {fuel : Nat} {roots : List K} {s s' : S}
    (h : g.pruneBy fuel roots F le s = some (g', s')) :
    ∃ R, Rel g R g' ∧ (∀ x, x ∈ R → ∀ y ∈ g.dependentsOf x, y ∈ R) ∧
      (∀ x, x ∈ R → g.contains x = true ∧ ∃ b ∈ roots, x = b ∨ g.Desc b x) ∧
      ∀ fuel' r, g'.pruneBy fuel' (roots.filter fun y => decide (y ∉ R)) F le s = some r → r = (g', s') := by
  unfold Dag.pruneBy at h
  cases hd : dfs (g.visitByNext le) fuel roots ([], []) with
  | none => simp [hd] at h
  | some vo =>
    obtain ⟨vis, ord⟩ := vo
    simp only [hd] at h
    obtain ⟨htopo, hmem⟩ := order_topo (acyclic_visitByNext hac le) hd
    have htopo' : Topo g.dependentsOf ord :=
      ⟨htopo.nodup, fun u v hu hv hr => htopo.order u v hu hv ((reach_visitByNext_iff hwf).mpr hr)⟩
    obtain ⟨R, hR, hRcl, _, hsound, hrun⟩ :=
      pruneLoop_sim hwf hac fuel F hA hL ord g s [] g' s' htopo' (Rel.refl hwf) (by simp) h
    refine ⟨R, hR, hRcl, ?_, ?_⟩
    · intro x hx
      rcases hsound x hx with h1 | ⟨hc, b, hb, h1⟩
      · simp at h1
      · refine ⟨hc, ?_⟩
        obtain ⟨r0, hr0, h2⟩ := (hmem b).mp hb
        refine ⟨r0, hr0, ?_⟩
        rcases h2 with rfl | h2
        · exact h1
        · have h2' := (reach_visitByNext_iff hwf).mp h2
          rcases h1 with rfl | h1
          · exact .inr h2'
          · exact .inr (h2'.append h1)
    · intro fuel' r hr
      obtain ⟨f2, hf2⟩ := dfs_filter (next := g.visitByNext le) (next' := g'.visitByNext le)
        (fun y => decide (y ∉ R))
        (fun k hk => visitByNext_rel hR hle k (by simpa using hk))
        (fun k hk => visitByNext_removed hRcl k (by simpa using hk))
        fuel roots [] [] vis ord hd
      simp only [List.filter_nil] at hf2
      generalize (roots.filter fun y => decide (y ∉ R)) = roots' at hr hf2
      rw [Dag.pruneBy] at hr
      cases hd' : dfs (g'.visitByNext le) fuel' roots' ([], []) with
      | none => simp [hd'] at hr
      | some vo' =>
        obtain ⟨vis', ord'⟩ := vo'
        simp only [hd'] at hr
        have := dfs_det hd' hf2
        simp only [Prod.mk.injEq] at this
        rw [this.2] at hr
        exact hrun fuel' r hr

/-- The traced run projects onto the plain run. -/
theorem pruneLoop_traced {fuel : Nat} (F : S → K → Node V → List (K × Node V) → S × Bool) :
    ∀ (ks : List K) (g : Dag V) (s : S) (tr : List (K × Bool)),
      (Dag.pruneLoop fuel (traced F) g (s, tr) ks).map (fun r => (r.1, r.2.1)) =
        Dag.pruneLoop fuel F g s ks := by
  intro ks
  induction ks with
  | nil => intro g s tr; simp [Dag.pruneLoop]
  | cons k ks ih =>
    intro g s tr
    rw [Dag.pruneLoop, Dag.pruneLoop]
    cases g.get k with
    | none => exact ih g s tr
    | some n =>
      simp only
      cases g.siblingsOf fuel k n with
      | none => rfl
      | some sibs =>
        simp only [traced]
        by_cases hc : (F s k n sibs).2 = true
        · simp only [hc, if_true]; exact ih _ _ _
        · simp only [hc, Bool.false_eq_true, if_false]
          cases g.remove fuel k with
          | none => rfl
          | some g1 => exact ih _ _ _

theorem pruneBy_traced {g g' : Dag V} {fuel : Nat} {roots : List K}
    {F : S → K → Node V → List (K × Node V) → S × Bool} {le : K × V → K × V → Bool} {s s' : S}
    (h : g.pruneBy fuel roots F le s = some (g', s')) :
    ∃ tr, g.pruneBy fuel roots (traced F) le (s, []) = some (g', (s', tr)) := by
  unfold Dag.pruneBy at h ⊢
  cases hd : dfs (g.visitByNext le) fuel roots ([], []) with
  | none => simp [hd] at h
  | some vo =>
    simp only [hd] at h ⊢
    have := pruneLoop_traced (fuel := fuel) F vo.2 g s []
    rw [h] at this
    cases hl : Dag.pruneLoop fuel (traced F) g (s, []) vo.2 with
    | none => simp [hl] at this
    | some r =>
      simp [hl] at this
      obtain ⟨g1, s1, tr⟩ := r
      simp at this
      exact ⟨tr, by rw [this.1, this.2]⟩

end HeartwoodModel.Dag
