import HeartwoodModel.Model.Issue
import HeartwoodModel.Model.Patch
import HeartwoodModel.Model.Identity
/-!
# Atomicity of `Cob::op` for the Issue, Patch and Identity models (for C06)

The models return `Except Err State` — an error carries no state — so atomicity is stated about the
evaluator step `step s e := match op s e with | ok s' => s' | error _ => s`, which is what
`ChangeGraph::evaluate` + the (now transactional) `Cob::op` implement: if `op` returns an error, the state
is unchanged; if it succeeds, the state is exactly the result of `op`.
-/
namespace HeartwoodModel

theorem op_atomic_issue (s : Issue.Issue) (e : Issue.Op) :
    (∀ err, Issue.op s e = .error err → Issue.step s e = s) ∧
    (∀ s', Issue.op s e = .ok s' → Issue.step s e = s') := by
  constructor <;> intro x h <;> simp [Issue.step, h]

theorem op_atomic_patch (s : Patch.Patch) (e : Patch.Op) :
    (∀ err, Patch.op s e = .error err → Patch.step s e = s) ∧
    (∀ s', Patch.op s e = .ok s' → Patch.step s e = s') := by
  constructor <;> intro x h <;> simp [Patch.step, h]

theorem op_atomic_identity (V : Identity.Key → Identity.Sig → Identity.Blob → Bool) (s : Identity.Identity)
    (e : Identity.Op) :
    (∀ err, Identity.op V s e = .error err → Identity.step V s e = s) ∧
    (∀ s', Identity.op V s e = .ok s' → Identity.step V s e = s') := by
  constructor <;> intro x h <;> simp [Identity.step, h]

theorem op_atomic_thread (s : Cob.Thread) (e : Cob.TOp) :
    (∀ err, s.op e = .error err → s.step e = s) ∧ (∀ s', s.op e = .ok s' → s.step e = s') := by
  constructor <;> intro x h <;> simp [Cob.Thread.step, h]

/-- `apply` (the `S → Entry → Option S` form consumed by the generic change-graph evaluator) agrees with
`step`: `none` ⇒ the state is kept. -/
theorem step_eq_apply_issue (s : Issue.Issue) (e : Issue.Op) :
    Issue.step s e = (Issue.apply s e).getD s := by
  unfold Issue.step Issue.apply; cases Issue.op s e <;> rfl

theorem step_eq_apply_patch (s : Patch.Patch) (e : Patch.Op) :
    Patch.step s e = (Patch.apply s e).getD s := by
  unfold Patch.step Patch.apply; cases Patch.op s e <;> rfl

theorem step_eq_apply_identity (V : Identity.Key → Identity.Sig → Identity.Blob → Bool) (s : Identity.Identity)
    (e : Identity.Op) : Identity.step V s e = (Identity.apply V s e).getD s := by
  unfold Identity.step Identity.apply; cases Identity.op V s e <;> rfl

end HeartwoodModel
