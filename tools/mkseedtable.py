#!/usr/bin/env python3
"""Print the markdown table of seeded changes (DESIGN.md §11.4) from seeded/*/meta.json + seeded/results.json."""
import json, glob, os
res = json.load(open('/verif/seeded/results.json'))
print("| seeded change | prop | what it does (short) | needs to manifest | first run | strengthened | now |")
print("|---|---|---|---|---|---|---|")
for d in sorted(glob.glob('/verif/seeded/*/meta.json')):
    name = os.path.basename(os.path.dirname(d))
    m = json.load(open(d))
    r = res.get(name, {})
    def cut(s, n):
        s = " ".join(s.split()).replace("|", "/")
        return s if len(s) <= n else s[:n - 1] + "…"
    print(f"| `{name}` | {m['property']} | {cut(m['summary'], 170)} | {cut(m['needs_to_manifest'], 130)} | {r.get('first','—')} | {cut(r.get('action','—'), 160)} | {r.get('final','—')} |")
