import HeartwoodModel.Model.Term
import HeartwoodModel.Lemmas.Term
/-!
# C26 — Terminal truncation stays within width and never panics

Property theorems about `Model/Term.lean` (the code as it is on `/repo` main, with
`fix: term: cut truncated text at the grapheme boundary`), for **all** strings (any list of measured
grapheme clusters: wide, zero-width, multi-scalar, multi-byte whitespace), all widths and all
delimiters (including the empty one):

* `truncate_no_panic` — `str::truncate` returns a string: neither slicing operation panics and the cut
  is never inside a cluster;
* `truncate_within_width` — the clusters it returns have total width `≤ width`; with the explicit
  additivity hypothesis `Measures W out` ("the display width `W` of the returned *bytes* is the sum of
  the widths of the clusters it was assembled from") this is `W (bytesOf out) ≤ width`
  (`truncate_within_width_measured`);
* `line_truncate_terminates` — the `while` loop of `Line::truncate` finishes within
  `items.len() + 2` evaluations of its condition (the fuel the driver uses);
* `line_truncate_within_width` — for any fuel, if it finishes, it did not panic and the line fits;
* histories on the same value: `truncate_idempotent`, `truncate_twice`, `line_truncate_twice`,
  `line_truncate_idempotent`, `line_run_total` (any sequence of push/space/pad/truncate on any line value
  runs to the end), `line_pad_width`.
-/
set_option linter.unusedSimpArgs false
set_option linter.unusedVariables false
namespace HeartwoodModel.Term

/-! ## `str::truncate` -/

/-- **C26, never panics.** For every string, width and delimiter `truncate` yields a string. -/
theorem truncate_no_panic (s : Str) (w : Nat) (d : Str) : ∃ out, truncate s w d = .ok out := by
  obtain ⟨out, h, _⟩ := truncate_spec s w d
  exact ⟨out, h⟩

/-- **C26, within width.** What `truncate` returns is never wider than requested. -/
theorem truncate_within_width {s : Str} {w : Nat} {d out : Str} (h : truncate s w d = .ok out) :
    gwidth out ≤ w := by
  obtain ⟨out', h', hw, _⟩ := truncate_spec s w d
  rw [h] at h'
  cases h'
  exact hw

/-- The result is the input, the empty string, or a prefix of the input's clusters, alone or followed
by the delimiter. -/
theorem truncate_shape {s : Str} {w : Nat} {d out : Str} (h : truncate s w d = .ok out) :
    out = s ∨ out = [] ∨ ∃ j, out = s.take j ∨ out = s.take j ++ d := by
  obtain ⟨out', h', _, hs⟩ := truncate_spec s w d
  rw [h] at h'
  cases h'
  exact hs

/-- **Additivity hypothesis.** `W` stands for the real `Cell::width` on byte strings (segmentation,
per-cluster width, sum — Unicode tables, not modelled). `Measures W out` says that the bytes of `out`
are measured as the sum of the widths of the clusters `out` was assembled from, i.e. that display
width is additive over the concatenation `truncate` performed (a prefix of the input's clusters, then
possibly the delimiter's). It can fail only when re-segmentation merges clusters across the join (a
delimiter that starts with a combining mark, say); the harness checks it on every case. -/
def Measures (W : List Nat → Nat) (out : Str) : Prop := W (bytesOf out) = gwidth out

/-- **C26, within width, on the real measure**, under the additivity hypothesis. -/
theorem truncate_within_width_measured (W : List Nat → Nat) {s : Str} {w : Nat} {d out : Str}
    (h : truncate s w d = .ok out) (hadd : Measures W out) : W (bytesOf out) ≤ w := by
  rw [hadd]
  exact truncate_within_width h

/-! ## `Line::truncate` -/

/-- **C26, `Line::truncate`, partial correctness for every fuel.** If the loop finishes, it finishes
without panic and the line fits. -/
theorem line_truncate_within_width (fuel : Nat) (items : Line) (w : Nat) (d : Str) (r : Res Line)
    (h : lineTruncate fuel items w d = some r) : ∃ out, r = .ok out ∧ lwidth out ≤ w := by
  induction fuel generalizing items with
  | zero => simp [lineTruncate] at h
  | succ f ih =>
    by_cases hle : lwidth items ≤ w
    · rw [lineTruncate_done hle] at h
      cases h
      exact ⟨items, rfl, hle⟩
    · rcases eq_nil_or_snoc items with rfl | ⟨init, last, rfl⟩
      · simp [lwidth] at hle
      · by_cases h2 : w < lwidth init
        · rw [lineTruncate_pop h2] at h
          exact ih _ h
        · obtain ⟨item', _, _, heq⟩ :=
            lineTruncate_cut (f := f) (d := d) (last := last) (by omega : w < lwidth (init ++ [last]))
              (by omega : lwidth init ≤ w)
          rw [heq] at h
          exact ih _ h

/-- Fuel sufficiency (= termination): `items.len() + 2` evaluations of the loop condition suffice. -/
theorem line_truncate_fuel (fuel : Nat) (items : Line) (w : Nat) (d : Str)
    (hf : items.length + 2 ≤ fuel) : ∃ r, lineTruncate fuel items w d = some r := by
  induction fuel generalizing items with
  | zero => omega
  | succ f ih =>
    by_cases hle : lwidth items ≤ w
    · exact ⟨_, lineTruncate_done hle⟩
    · rcases eq_nil_or_snoc items with rfl | ⟨init, last, rfl⟩
      · simp [lwidth] at hle
      · simp only [List.length_append, List.length_cons, List.length_nil] at hf
        by_cases h2 : w < lwidth init
        · rw [lineTruncate_pop h2]
          exact ih _ (by omega)
        · obtain ⟨item', _, hw, heq⟩ :=
            lineTruncate_cut (f := f) (d := d) (last := last) (by omega : w < lwidth (init ++ [last]))
              (by omega : lwidth init ≤ w)
          rw [heq]
          obtain ⟨f', rfl⟩ : ∃ f', f = f' + 1 := ⟨f - 1, by omega⟩
          have hfit : lwidth (init ++ [item']) ≤ w := by rw [lwidth_concat]; omega
          exact ⟨_, lineTruncate_done hfit⟩

/-- **C26, `Line::truncate` terminates** with the fuel the driver uses, without panic, and fits. -/
theorem line_truncate_terminates (items : Line) (w : Nat) (d : Str) :
    ∃ out, lineTruncate (items.length + 2) items w d = some (.ok out) ∧ lwidth out ≤ w := by
  obtain ⟨r, hr⟩ := line_truncate_fuel (items.length + 2) items w d (by omega)
  obtain ⟨out, rfl, hw⟩ := line_truncate_within_width _ _ _ _ _ hr
  exact ⟨out, hr, hw⟩

/-- More fuel never changes the answer. -/
theorem line_truncate_fuel_mono (fuel : Nat) (items : Line) (w : Nat) (d : Str) (r : Res Line)
    (h : lineTruncate fuel items w d = some r) : lineTruncate (fuel + 1) items w d = some r := by
  induction fuel generalizing items with
  | zero => simp [lineTruncate] at h
  | succ f ih =>
    by_cases hle : lwidth items ≤ w
    · rw [lineTruncate_done hle] at h ⊢
      exact h
    · rcases eq_nil_or_snoc items with rfl | ⟨init, last, rfl⟩
      · simp [lwidth] at hle
      · by_cases h2 : w < lwidth init
        · rw [lineTruncate_pop h2] at h ⊢
          exact ih _ h
        · obtain ⟨item', ht, _, heq⟩ :=
            lineTruncate_cut (f := f) (d := d) (last := last) (by omega : w < lwidth (init ++ [last]))
              (by omega : lwidth init ≤ w)
          obtain ⟨item'', ht', _, heq'⟩ :=
            lineTruncate_cut (f := f + 1) (d := d) (last := last)
              (by omega : w < lwidth (init ++ [last])) (by omega : lwidth init ≤ w)
          rw [ht] at ht'
          cases ht'
          rw [heq] at h
          rw [heq']
          exact ih _ h

/-! ## histories: the same value truncated again -/

/-- **C26, repeated `str::truncate`.** What a truncation returned is left alone by any later
truncation to the same or a larger width (whatever the delimiter), and a later truncation to any width
again yields a string that fits. -/
theorem truncate_idempotent {s : Str} {w : Nat} {d out : Str} (h : truncate s w d = .ok out)
    (w' : Nat) (d' : Str) (hw : w ≤ w') : truncate out w' d' = .ok out := by
  have := truncate_within_width h
  unfold truncate
  have hn : ¬ (w' < gwidth out) := by omega
  simp [hn]

theorem truncate_twice (s : Str) (w₁ w₂ : Nat) (d₁ d₂ : Str) :
    ∃ out₁ out₂, truncate s w₁ d₁ = .ok out₁ ∧ truncate out₁ w₂ d₂ = .ok out₂ ∧ gwidth out₂ ≤ w₂ := by
  obtain ⟨out₁, h₁⟩ := truncate_no_panic s w₁ d₁
  obtain ⟨out₂, h₂⟩ := truncate_no_panic out₁ w₂ d₂
  exact ⟨out₁, out₂, h₁, h₂, truncate_within_width h₂⟩

/-- **C26, repeated `Line::truncate`.** From *any* line value two successive truncations (any
widths, any delimiters) both terminate without panic, and the result fits the second width. -/
theorem line_truncate_twice (items : Line) (w₁ w₂ : Nat) (d₁ d₂ : Str) :
    ∃ out₁ out₂, lineTruncate (items.length + 2) items w₁ d₁ = some (.ok out₁) ∧
      lineTruncate (out₁.length + 2) out₁ w₂ d₂ = some (.ok out₂) ∧ lwidth out₁ ≤ w₁ ∧
      lwidth out₂ ≤ w₂ := by
  obtain ⟨out₁, h₁, hw₁⟩ := line_truncate_terminates items w₁ d₁
  obtain ⟨out₂, h₂, hw₂⟩ := line_truncate_terminates out₁ w₂ d₂
  exact ⟨out₁, out₂, h₁, h₂, hw₁, hw₂⟩

/-- A line that fits is left alone: truncating a truncated line to the same or a larger width changes
nothing. -/
theorem line_truncate_idempotent {items out : Line} {w : Nat} {d : Str}
    (h : lineTruncate (items.length + 2) items w d = some (.ok out)) (w' : Nat) (d' : Str)
    (hw : w ≤ w') : lineTruncate (out.length + 2) out w' d' = some (.ok out) := by
  obtain ⟨out', ho, hfit⟩ := line_truncate_within_width _ _ _ _ _ h
  cases ho
  exact lineTruncate_done (by omega)

/-- Every operation on every line value yields a line; after a `truncate` it fits. -/
theorem line_apply_total (l : Line) (op : LineOp) :
    ∃ out, lineApply l op = some (.ok out) ∧
      (∀ w d, op = .truncate w d → lwidth out ≤ w) := by
  cases op with
  | push s => exact ⟨_, rfl, by intro w d h; cases h⟩
  | space => exact ⟨_, rfl, by intro w d h; cases h⟩
  | pad w => exact ⟨_, rfl, by intro w' d h; cases h⟩
  | truncate w d =>
    obtain ⟨out, h, hw⟩ := line_truncate_terminates l w d
    exact ⟨out, h, by intro w' d' e; cases e; exact hw⟩

/-- **C26, histories.** Any sequence of `push`/`space`/`pad`/`truncate` on any line value runs to the
end: every truncation in it terminates and none panics. -/
theorem line_run_total (l : Line) (ops : List LineOp) : ∃ out, lineRun l ops = some (.ok out) := by
  induction ops generalizing l with
  | nil => exact ⟨l, rfl⟩
  | cons op ops ih =>
    obtain ⟨l', h, _⟩ := line_apply_total l op
    obtain ⟨out, ho⟩ := ih l'
    exact ⟨out, by simp [lineRun, h, ho]⟩

/-- `pad` never narrows a line, and pads exactly to `width` when the line was narrower. -/
theorem line_pad_width (l : Line) (w : Nat) : lwidth (linePad l w) = max (lwidth l) w := by
  have hrep : ∀ n, gwidth (List.replicate n spaceG) = n := by
    intro n
    induction n with
    | zero => rfl
    | succ n ih =>
      simp only [List.replicate_succ, gwidth]
      rw [ih]
      simp [spaceG]
      omega
  unfold linePad
  split
  · rw [lwidth_concat, hrep]; omega
  · omega

/-- The real width of a line is the sum of the real widths of its labels. -/
def lineMeasure (W : List Nat → Nat) : Line → Nat
  | [] => 0
  | i :: l => W (bytesOf i) + lineMeasure W l

/-- On the real measure, under the additivity hypothesis for every label of the result. -/
theorem line_truncate_within_width_measured (W : List Nat → Nat) (fuel : Nat) (items : Line) (w : Nat)
    (d : Str) (out : Line) (h : lineTruncate fuel items w d = some (.ok out))
    (hadd : ∀ i ∈ out, Measures W i) : lineMeasure W out ≤ w := by
  obtain ⟨out', ho, hw⟩ := line_truncate_within_width _ _ _ _ _ h
  cases ho
  have : lineMeasure W out = lwidth out := by
    clear h hw
    induction out with
    | nil => rfl
    | cons i l ih =>
      simp only [lineMeasure, lwidth]
      rw [hadd i (by simp), ih (fun j hj => hadd j (by simp [hj]))]
  omega

/-! ## non-vacuity, the additivity hypothesis is satisfiable, and the pre-fix witnesses -/

def a : Grapheme := ⟨[⟨[0x61], false⟩], 1⟩
def b : Grapheme := ⟨[⟨[0x62], false⟩], 1⟩
def sp : Grapheme := ⟨[⟨[0x20], true⟩], 1⟩
/-- U+3000 IDEOGRAPHIC SPACE: three bytes, whitespace, two columns. -/
def isp : Grapheme := ⟨[⟨[0xe3, 0x80, 0x80], true⟩], 2⟩
/-- `界`: three bytes, two columns. -/
def kai : Grapheme := ⟨[⟨[0xe7, 0x95, 0x8c], false⟩], 2⟩
/-- `é` as `e` + U+0301: two scalar values, one column. -/
def eacute : Grapheme := ⟨[⟨[0x65], false⟩, ⟨[0xcc, 0x81], false⟩], 1⟩
/-- `…` -/
def ellipsis : Grapheme := ⟨[⟨[0xe2, 0x80, 0xa6], false⟩], 1⟩

/-- Pre-fix panic witness `"ab\u{3000}".truncate(3, "…")`: now `"ab"`. -/
example : truncate [a, b, isp] 3 [ellipsis] = .ok [a, b] := by decide
/-- Pre-fix over-width witness `"ab ".truncate(2, "")`: now `"ab"`. -/
example : truncate [a, b, sp] 2 [] = .ok [a, b] := by decide
/-- Pre-fix non-termination witness: `Line ["ab "]` to width 2 with the empty delimiter. -/
example : lineTruncate 3 [[a, b, sp]] 2 [] = some (.ok [[a, b]]) := by decide
example : truncate [a, kai, eacute, b] 4 [ellipsis] = .ok [a, kai, ellipsis] := by decide
example : truncate [kai, kai] 2 [ellipsis] = .ok [ellipsis] := by decide
example : truncate [kai] 1 [kai] = .ok [] := by decide
example : lineTruncate 4 [[a, b], [kai, kai], [b]] 5 [ellipsis] = some (.ok [[a, b], [kai, ellipsis]]) := by
  decide
/-- The seeded history: `🍍🍍` to 1 (empty result, one column of slack), then to 0; and a padded line
cut inside its padding, then cut again. -/
example : lineRun [[⟨[⟨[0xf0, 0x9f, 0x8d, 0x8d], false⟩], 2⟩, ⟨[⟨[0xf0, 0x9f, 0x8d, 0x8d], false⟩], 2⟩]]
    [.truncate 1 [], .truncate 0 []] = some (.ok [[]]) := by decide
example : lineRun [[a, b]] [.pad 10, .truncate 6 [b, b, b], .truncate 2 [b, b, b]] =
    some (.ok [[a, b], []]) := by decide
/-- A cut inside a cluster, or off a `char` boundary, is what the model reports for other offsets. -/
example : splitAtByte [eacute, b] 1 = .cutInsideGrapheme := by decide
example : splitAtByte [a, isp] 2 = .panic "byte index is not a char boundary" := by decide
example : splitAtByte [a] 2 = .panic "byte index out of bounds" := by decide

/-- The additivity hypothesis is satisfiable: on strings whose clusters are single one-byte,
one-column scalar values (ASCII), the byte length is a measure for which it holds. -/
theorem ascii_measures (s : Str) (h : ∀ g ∈ s, g.width = 1 ∧ ∃ c, g.chars = [c] ∧ c.bytes.length = 1) :
    Measures List.length s := by
  unfold Measures
  induction s with
  | nil => rfl
  | cons g s ih =>
    obtain ⟨hw, c, hc, hl⟩ := h g (by simp)
    have := ih (fun g' hg' => h g' (by simp [hg']))
    simp only [bytesOf, List.flatMap_cons, List.length_append, gwidth, hc, List.flatMap_nil,
      List.append_nil, hl, hw] at this ⊢
    omega

example : Measures List.length [a, b, sp] := ascii_measures _ (by simp [a, b, sp])

end HeartwoodModel.Term
