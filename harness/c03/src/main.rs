//! C03 harness (stub: not implemented yet).
fn main() {
    eprintln!("C03: harness not implemented");
    std::process::exit(3);
}
