import HeartwoodModel.Model.Clean
/-!
# C28 — Storage cleanup never deletes the local or delegate namespaces

Property theorems about `Model/Clean.lean` (`Storage::clean` / `Repository::clean`), for every local node,
every delegate set and every list of namespaces (with or without `rad/sigrefs`, with parsable or stray
names, the local node's sigrefs missing / valid / corrupt).
-/
set_option linter.unusedSimpArgs false
set_option linter.unusedVariables false
namespace HeartwoodModel.Clean

/-- The local node's namespace (the first one, names being distinct), if any. -/
def localNs (me : Nat) (nss : List Ns) : Option Ns := nss.find? (fun ns => ns.valid && ns.id == me)

theorem localSigrefs_eq (me : Nat) (nss : List Ns) :
    localSigrefs me nss =
      match localNs me nss with
      | none => some false
      | some ns => ns.sig.load := by
  induction nss with
  | nil => rfl
  | cons ns rest ih =>
    unfold localSigrefs localNs
    by_cases h : (ns.valid && ns.id == me) = true
    · simp only [h, if_true, List.find?_cons_of_pos]
    · simp only [h, Bool.false_eq_true, if_false]
      rw [List.find?_cons_of_neg (by simpa using h)]
      exact ih

theorem mem_toDelete (me : Nat) (ds : List Nat) (nss : List Ns) (d : Nat) :
    d ∈ toDelete me ds nss ↔
      ∃ ns ∈ nss, ns.id = d ∧ ns.valid = true ∧ ns.sig ≠ .missing ∧ d ≠ me ∧ d ∉ ds := by
  induction nss with
  | nil => simp [toDelete]
  | cons ns rest ih =>
    unfold toDelete
    by_cases h1 : (ns.sig == Sig.missing) = true
    · have h1' : ns.sig = .missing := by simpa using h1
      simp only [h1, if_true, ih, List.mem_cons]
      constructor
      · rintro ⟨x, hx, hh⟩; exact ⟨x, Or.inr hx, hh⟩
      · rintro ⟨x, hx | hx, hh⟩
        · subst hx; exact absurd h1' hh.2.2.1
        · exact ⟨x, hx, hh⟩
    · have h1' : ns.sig ≠ .missing := by simpa using h1
      simp only [h1, Bool.false_eq_true, if_false]
      by_cases h2 : ns.valid = true
      · simp only [h2, Bool.not_true, Bool.false_eq_true, if_false]
        by_cases h3 : (ns.id == me || ds.contains ns.id) = true
        · simp only [h3, if_true, ih, List.mem_cons]
          have h3' : ns.id = me ∨ ns.id ∈ ds := by simpa using h3
          constructor
          · rintro ⟨x, hx, hh⟩; exact ⟨x, Or.inr hx, hh⟩
          · rintro ⟨x, hx | hx, hh⟩
            · subst hx
              obtain ⟨rfl, _, _, hm, hd⟩ := hh
              rcases h3' with h | h
              · exact absurd h hm
              · exact absurd h hd
            · exact ⟨x, hx, hh⟩
        · simp only [h3, Bool.false_eq_true, if_false, List.mem_cons, ih]
          have h3' : ¬ (ns.id = me ∨ ns.id ∈ ds) := by simpa using h3
          constructor
          · rintro (rfl | ⟨x, hx, hh⟩)
            · exact ⟨ns, Or.inl rfl, rfl, h2, h1', fun e => h3' (Or.inl e), fun e => h3' (Or.inr e)⟩
            · exact ⟨x, Or.inr hx, hh⟩
          · rintro ⟨x, hx | hx, hh⟩
            · subst hx; exact Or.inl hh.1.symm
            · exact Or.inr ⟨x, hx, hh⟩
      · have h2' : ns.valid = false := by simpa using h2
        simp only [h2', Bool.not_false, if_true, ih, List.mem_cons]
        constructor
        · rintro ⟨x, hx, hh⟩; exact ⟨x, Or.inr hx, hh⟩
        · rintro ⟨x, hx | hx, hh⟩
          · subst hx; rw [h2'] at hh; exact absurd hh.2.1 (by simp)
          · exact ⟨x, hx, hh⟩

/-- **C28 (1).** When `clean` deletes namespaces: every deleted one belongs to a peer with a parsable
name and a `rad/sigrefs` that is neither the local node nor a delegate; every namespace of the local node
and of every delegate is kept; and nothing but the listed peers' namespaces disappears. -/
theorem clean_keeps_local_and_delegates (me : Nat) (delegates : Option (List Nat)) (nss : List Ns)
    (del : List Nat) (rem : List Ns) (h : clean me delegates nss = (.cleaned del, rem)) :
    ∃ ds, delegates = some ds ∧
      (∀ d ∈ del, d ≠ me ∧ d ∉ ds ∧ ∃ ns ∈ nss, ns.id = d ∧ ns.valid = true ∧ ns.sig ≠ .missing) ∧
      (∀ ns ∈ nss, (ns.id = me ∨ ns.id ∈ ds) → ns ∈ rem) ∧
      (∀ ns ∈ nss, ns ∈ rem ∨ (ns.valid = true ∧ ns.id ∈ del)) ∧
      (∀ ns ∈ rem, ns ∈ nss) := by
  unfold clean at h
  split at h
  · simp at h
  · split at h
    · simp at h
    · rename_i ds
      simp only [Prod.mk.injEq, Out.cleaned.injEq] at h
      obtain ⟨rfl, rfl⟩ := h
      refine ⟨ds, rfl, ?_, ?_, ?_, ?_⟩
      · intro d hd
        obtain ⟨ns, hns, h1, h2, h3, h4, h5⟩ := (mem_toDelete me ds nss d).mp hd
        exact ⟨h4, h5, ns, hns, h1, h2, h3⟩
      · intro ns hns hk
        apply List.mem_filter.mpr
        refine ⟨hns, ?_⟩
        have hnot : ns.id ∉ toDelete me ds nss := by
          intro hm
          obtain ⟨_, _, _, _, _, h4, h5⟩ := (mem_toDelete me ds nss ns.id).mp hm
          rcases hk with hk | hk
          · exact h4 hk
          · exact h5 hk
        simp only [Bool.not_eq_true', Bool.and_eq_false_iff, List.contains_iff_mem,
          decide_eq_false_iff_not]
        first | exact Or.inr hnot | (simp; exact Or.inr hnot)
      · intro ns hns
        by_cases hc : (ns.valid && (toDelete me ds nss).contains ns.id) = true
        · right; simpa using hc
        · left
          apply List.mem_filter.mpr
          refine ⟨hns, ?_⟩
          cases hb : (ns.valid && (toDelete me ds nss).contains ns.id) with
          | true => exact absurd hb hc
          | false => rfl
      · intro ns hns
        exact (List.mem_filter.mp hns).1
  · split at h <;> simp at h

/-- **C28 (2).** The whole repository is removed only when the local node has no signed refs in it
(no namespace of its own, or one without `rad/sigrefs`); and whenever the local node *has* valid signed
refs the repository is not removed. -/
theorem removes_repo_only_without_local_sigrefs (me : Nat) (delegates : Option (List Nat))
    (nss : List Ns) :
    (∀ ids rem, clean me delegates nss = (.removedRepo ids, rem) →
      rem = [] ∧ ((localNs me nss) = none ∨ ∃ ns, localNs me nss = some ns ∧ ns.sig = .missing)) ∧
    ((∃ ns, localNs me nss = some ns ∧ ns.sig = .valid) →
      ∀ ids rem, clean me delegates nss ≠ (.removedRepo ids, rem)) := by
  have hl := localSigrefs_eq me nss
  constructor
  · intro ids rem h
    unfold clean at h
    split at h
    · simp at h
    · split at h <;> simp at h
    · rename_i hls
      split at h
      · simp at h
      · simp only [Prod.mk.injEq, Out.removedRepo.injEq] at h
        refine ⟨h.2.symm, ?_⟩
        rw [hls] at hl
        cases hn : localNs me nss with
        | none => exact Or.inl rfl
        | some ns =>
          right
          refine ⟨ns, rfl, ?_⟩
          simp only [hn] at hl
          cases hs : ns.sig <;> simp [hs, Sig.load] at hl
          rfl
  · rintro ⟨ns, hn, hs⟩ ids rem h
    simp only [hn, hs, Sig.load] at hl
    unfold clean at h
    simp only [hl] at h
    split at h <;> simp at h

/-- … and conversely it *is* removed when the local node has no signed refs and every namespace with a
`rad/sigrefs` has a parsable name. -/
theorem removes_repo_when_no_local_sigrefs (me : Nat) (delegates : Option (List Nat)) (nss : List Ns)
    (hno : (localNs me nss) = none ∨ ∃ ns, localNs me nss = some ns ∧ ns.sig = .missing)
    (ids : List Nat) (hids : remoteIds nss = some ids) :
    clean me delegates nss = (.removedRepo ids, []) := by
  have hl := localSigrefs_eq me nss
  have : localSigrefs me nss = some false := by
    rcases hno with hno | ⟨ns, hn, hs⟩
    · simpa [hno] using hl
    · simpa [hn, hs, Sig.load] using hl
  unfold clean
  simp [this, hids]

/-- An error leaves the repository untouched. -/
theorem clean_err_unchanged (me : Nat) (delegates : Option (List Nat)) (nss rem : List Ns)
    (h : clean me delegates nss = (.err, rem)) : rem = nss := by
  unfold clean at h
  split at h
  · simp only [Prod.mk.injEq] at h; exact h.2.symm
  · split at h
    · simp only [Prod.mk.injEq] at h; exact h.2.symm
    · simp at h
  · split at h
    · simp only [Prod.mk.injEq] at h; exact h.2.symm
    · simp at h

/-! ### Repeated cleaning -/

theorem localSigrefs_filter (me : Nat) (p : Ns → Bool) (nss : List Ns)
    (hp : ∀ ns ∈ nss, (ns.valid && ns.id == me) = true → p ns = true) :
    localSigrefs me (nss.filter p) = localSigrefs me nss := by
  induction nss with
  | nil => rfl
  | cons ns rest ih =>
    have ih' := ih (fun x hx => hp x (List.mem_cons_of_mem _ hx))
    by_cases h : (ns.valid && ns.id == me) = true
    · have hpn := hp ns (List.mem_cons_self ..) h
      rw [List.filter_cons_of_pos hpn]
      simp only [localSigrefs, h, if_true]
    · by_cases hpn : p ns = true
      · rw [List.filter_cons_of_pos hpn]
        simp only [localSigrefs, h, Bool.false_eq_true, if_false]
        exact ih'
      · rw [List.filter_cons_of_neg hpn]
        simp only [localSigrefs, h, Bool.false_eq_true, if_false]
        exact ih'

theorem toDelete_filter_nil (me : Nat) (ds : List Nat) (p : Ns → Bool) (nss : List Ns)
    (hp : ∀ ns ∈ nss, ns.valid = true → ns.sig ≠ .missing → ns.id ≠ me → ns.id ∉ ds → p ns = false) :
    toDelete me ds (nss.filter p) = [] := by
  induction nss with
  | nil => rfl
  | cons ns rest ih =>
    have ih' := ih (fun x hx => hp x (List.mem_cons_of_mem _ hx))
    by_cases hpn : p ns = true
    · rw [List.filter_cons_of_pos hpn]
      unfold toDelete
      by_cases h1 : ns.sig = .missing
      · simp [h1, ih']
      · by_cases h2 : ns.valid = true
        · by_cases h3 : ns.id = me
          · simp [h1, h2, h3, ih']
          · by_cases h4 : ns.id ∈ ds
            · simp [h1, h2, h3, h4, ih']
            · have := hp ns (List.mem_cons_self ..) h2 h1 h3 h4
              rw [this] at hpn
              exact absurd hpn (by simp)
        · simp [h1, h2, ih']
    · rw [List.filter_cons_of_neg hpn]
      exact ih'

/-- **Cleaning is idempotent**: after a successful `clean`, cleaning again with the same delegates
deletes nothing and keeps every remaining namespace — in particular those of the local node and of the
delegates survive any number of cleanups. -/
theorem clean_idempotent (me : Nat) (ds : List Nat) (nss : List Ns) (del : List Nat) (rem : List Ns)
    (h : clean me (some ds) nss = (.cleaned del, rem)) :
    clean me (some ds) rem = (.cleaned [], rem) := by
  unfold clean at h
  split at h
  · simp at h
  · rename_i hloc
    simp only [Prod.mk.injEq, Out.cleaned.injEq] at h
    obtain ⟨rfl, rfl⟩ := h
    have hl : localSigrefs me (nss.filter fun ns => !(ns.valid && (toDelete me ds nss).contains ns.id))
        = some true := by
      rw [localSigrefs_filter, hloc]
      intro ns hns hv
      simp only [Bool.and_eq_true, beq_iff_eq] at hv
      have hnot : ns.id ∉ toDelete me ds nss := by
        intro hm
        obtain ⟨_, _, _, _, _, h4, _⟩ := (mem_toDelete me ds nss ns.id).mp hm
        exact h4 hv.2
      simp [hv.1, hnot]
    have ht : toDelete me ds (nss.filter fun ns => !(ns.valid && (toDelete me ds nss).contains ns.id))
        = [] := by
      apply toDelete_filter_nil
      intro ns hns h2 h1 h3 h4
      have hm : ns.id ∈ toDelete me ds nss :=
        (mem_toDelete me ds nss ns.id).mpr ⟨ns, hns, rfl, h2, h1, h3, h4⟩
      simp [h2, hm]
    unfold clean
    rw [hl]
    simp only [ht]
    congr 1
    apply List.filter_eq_self.mpr
    intro ns _
    simp
  · split at h <;> simp at h

example :
    clean 0 (some [0, 1]) [⟨0, true, .valid⟩, ⟨1, true, .valid⟩, ⟨4, true, .missing⟩, ⟨2, false, .missing⟩] =
    (.cleaned [], [⟨0, true, .valid⟩, ⟨1, true, .valid⟩, ⟨4, true, .missing⟩, ⟨2, false, .missing⟩]) := by
  decide

/-! ### Non-vacuity: local node 0, delegates {0, 1}; peers 2, 3 with sigrefs, peer 4 without, a stray
directory named after peer 2. -/

example :
    clean 0 (some [0, 1])
      [⟨0, true, .valid⟩, ⟨1, true, .valid⟩, ⟨2, true, .valid⟩, ⟨3, true, .corrupt⟩, ⟨4, true, .missing⟩,
       ⟨2, false, .missing⟩] =
    (.cleaned [2, 3], [⟨0, true, .valid⟩, ⟨1, true, .valid⟩, ⟨4, true, .missing⟩, ⟨2, false, .missing⟩]) := by
  decide

example :
    clean 0 (some [1]) [⟨0, true, .missing⟩, ⟨1, true, .valid⟩, ⟨2, true, .valid⟩] =
    (.removedRepo [1, 2], []) := by decide

example : clean 0 (some [1]) [⟨1, true, .valid⟩] = (.removedRepo [1], []) := by decide

example : clean 0 (some [1]) [⟨0, true, .corrupt⟩, ⟨1, true, .valid⟩] =
    (.err, [⟨0, true, .corrupt⟩, ⟨1, true, .valid⟩]) := by decide

end HeartwoodModel.Clean
