import HeartwoodModel.Model.Ssh
/-!
Helper lemmas for C27: exact behaviour of the cursor reads (never a panic; reading back what the
writers wrote), `NoPanic` and its closure under `bind`.
-/
set_option linter.unusedSimpArgs false
set_option linter.unusedVariables false
namespace HeartwoodModel.Ssh

/-- The outcome is a value or an error. -/
def NoPanic {α : Type} (r : Res α) : Prop := ∀ site, r ≠ .panic site

@[simp] theorem ok_bind {α β : Type} (a : α) (f : α → Res β) : (Res.ok a >>= f) = f a := rfl
@[simp] theorem err_bind {α β : Type} (e : Err) (f : α → Res β) : (Res.err e >>= f) = .err e := rfl
@[simp] theorem panic_bind {α β : Type} (s : String) (f : α → Res β) :
    (Res.panic s >>= f) = .panic s := rfl
@[simp] theorem pure_eq {α : Type} (a : α) : (pure a : Res α) = .ok a := rfl

@[simp] theorem noPanic_ok {α : Type} (a : α) : NoPanic (Res.ok a) := by intro s h; cases h
@[simp] theorem noPanic_err {α : Type} (e : Err) : NoPanic (Res.err e : Res α) := by
  intro s h; cases h

theorem NoPanic.bind {α β : Type} {x : Res α} {f : α → Res β} (hx : NoPanic x)
    (hf : ∀ a, x = .ok a → NoPanic (f a)) : NoPanic (x >>= f) := by
  cases x with
  | ok a => simpa using hf a rfl
  | err e => simp
  | panic s => exact absurd rfl (hx s)

theorem noPanic_cases {α : Type} {r : Res α} (h : NoPanic r) : (∃ a, r = .ok a) ∨ (∃ e, r = .err e) := by
  cases r with
  | ok a => exact .inl ⟨a, rfl⟩
  | err e => exact .inr ⟨e, rfl⟩
  | panic s => exact absurd rfl (h s)

/-! ### cursor reads: exact case analysis -/

theorem beU32_of_length {b : Bytes} (h : 4 ≤ b.length) : ∃ u, beU32 b = .ok u := by
  match b, h with
  | a :: b :: c :: d :: _, _ => exact ⟨_, rfl⟩

theorem readU32_cases (c : Cursor) :
    (∃ u, c.readU32 = .ok (u, ⟨c.s, c.pos + 4⟩) ∧ c.pos + 4 ≤ c.s.length) ∨ c.readU32 = .err .oob := by
  unfold Cursor.readU32
  split
  · rename_i h
    left
    have h1 : c.pos ≤ c.s.length := by omega
    have h2 : 4 ≤ (c.s.drop c.pos).length := by simp; omega
    obtain ⟨u, hu⟩ := beU32_of_length h2
    exact ⟨u, by simp [sliceFrom, h1, hu], h⟩
  · right; rfl

theorem readString_cases (c : Cursor) :
    (∃ len, c.readString = .ok ((c.s.drop (c.pos + 4)).take len, ⟨c.s, c.pos + 4 + len⟩) ∧
        c.pos + 4 + len ≤ c.s.length) ∨ c.readString = .err .oob := by
  unfold Cursor.readString
  rcases readU32_cases c with ⟨u, hu, hle⟩ | hu
  · rw [hu]
    simp only [ok_bind]
    split
    · rename_i h
      left
      refine ⟨u, ?_, h⟩
      have h1 : ¬ (c.pos + 4 + u < c.pos + 4) := by omega
      have h2 : ¬ (c.s.length < c.pos + 4 + u) := by omega
      simp [slice, h1, h2]
    · right; rfl
  · right; rw [hu]; rfl

theorem readByte_cases (c : Cursor) :
    (∃ b, c.readByte = .ok (b, ⟨c.s, c.pos + 1⟩)) ∨ c.readByte = .err .oob := by
  unfold Cursor.readByte
  split
  · rename_i h
    left
    refine ⟨c.s[c.pos], ?_⟩
    simp [index, h]
  · right; rfl

theorem readU32_noPanic (c : Cursor) : NoPanic c.readU32 := by
  rcases readU32_cases c with ⟨u, h, _⟩ | h <;> rw [h] <;> simp

theorem readString_noPanic (c : Cursor) : NoPanic c.readString := by
  rcases readString_cases c with ⟨u, h, _⟩ | h <;> rw [h] <;> simp

theorem readByte_noPanic (c : Cursor) : NoPanic c.readByte := by
  rcases readByte_cases c with ⟨u, h⟩ | h <;> rw [h] <;> simp

theorem fromSlice_noPanic (n : Nat) (s : Bytes) : NoPanic (fromSlice n s) := by
  unfold fromSlice copyFromSlice
  split
  · simp
  · rename_i h
    have : s.length = n := by simpa using h
    simp [this]

theorem index_zero_of_nonempty {s : Bytes} (h : s.isEmpty = false) : ∃ b, index s 0 = .ok b := by
  cases s with
  | nil => simp at h
  | cons a t => exact ⟨a, rfl⟩

/-! ### reading back what the writers wrote -/

theorem beU32_u32be (n : Nat) (h : n < 4294967296) (rest : Bytes) :
    beU32 (u32be n ++ rest) = .ok n := by
  simp only [u32be, beU32, List.cons_append, List.nil_append, UInt8.toNat_ofNat']
  congr 1
  omega

theorem u32be_length (n : Nat) : (u32be n).length = 4 := rfl

theorem sshString_length (s : Bytes) : (sshString s).length = 4 + s.length := by
  simp [sshString, u32be_length]

theorem readU32_u32be (buf : Bytes) (p : Nat) {pre rest : Bytes} {n : Nat} (hn : n < 4294967296)
    (hs : buf = pre ++ (u32be n ++ rest)) (hp : p = pre.length) :
    (Cursor.mk buf p).readU32 = .ok (n, ⟨buf, p + 4⟩) := by
  unfold Cursor.readU32
  have hlen : p + 4 ≤ buf.length := by
    rw [hs, hp]; simp [u32be_length] <;> omega
  have h1 : p ≤ buf.length := by omega
  have hdrop : buf.drop p = u32be n ++ rest := by
    rw [hs, hp]; simp
  simp [hlen, sliceFrom, h1, hdrop, beU32_u32be n hn]

/-- `read_string` positioned at an `extend_ssh_string(s)` reads `s` and advances past it. -/
theorem readString_sshString (buf : Bytes) (p : Nat) {pre rest s : Bytes} (hn : s.length < 4294967296)
    (hs : buf = pre ++ (sshString s ++ rest)) (hp : p = pre.length) :
    (Cursor.mk buf p).readString = .ok (s, ⟨buf, p + 4 + s.length⟩) := by
  unfold Cursor.readString
  have hs' : buf = pre ++ (u32be s.length ++ (s ++ rest)) := by
    rw [hs]; simp [sshString]
  rw [readU32_u32be buf p hn hs' hp]
  have hlen : p + 4 + s.length ≤ buf.length := by
    rw [hs', hp]; simp [u32be_length] <;> omega
  have h1 : ¬ (p + 4 + s.length < p + 4) := by omega
  have h2 : ¬ (buf.length < p + 4 + s.length) := by omega
  have hdrop : buf.drop (p + 4) = s ++ rest := by
    rw [hs', hp]
    have : pre.length + 4 = (pre ++ u32be s.length).length := by simp [u32be_length]
    rw [this, ← List.append_assoc, List.drop_left]
  simp [hlen, slice, h1, h2, hdrop]

theorem sshEd25519_length : sshEd25519.length = 11 := rfl
theorem radicleComment_length : radicleComment.length = 7 := rfl

end HeartwoodModel.Ssh
