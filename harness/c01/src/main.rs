//! C01 harness (stub: not implemented yet).
fn main() {
    eprintln!("C01: harness not implemented");
    std::process::exit(3);
}
