//! C16 — fetch scheduling: at most one fetch per repository, attributed to the right peer.
//!
//! Drives the REAL `radicle_node::service::Service` (through `radicle_node::test::peer::Peer` with a
//! `MockStorage`) with a schedule of the events that `Wire`, the control socket and the timer can
//! deliver, and prints after every event the scheduling-relevant projection of the service state.
//!
//! Case text: `<conc>,<peers>,<repos>,<persist>,<have>,<seed> <op> <op> …`
//!   * `conc`    `limits.fetch_concurrency`
//!   * `peers`   number of remote nodes `1..=peers`, `repos` number of repositories `1..=repos`
//!   * `persist` dot-separated list of persistent peers (`config.connect`), `-` = none
//!   * `have`    dot-separated list of refs-announcement variants whose tip is already in the refs
//!               cache (`refs_status_of` then wants nothing), `-` = none
//!   * `seed`    seed of the service RNG (the session shuffle in `dequeue_fetches` and the seeds shuffle use it)
//!   * optional 7th field, flags: `m` = the repositories are NOT in storage (inventory announcements and
//!     the sync task `fetch_missing_repositories` then fetch them); `w` = worker results are delivered only
//!     while their node has a connected session (what `Wire::worker_result` forwards), else consumed
//! Ops (`n` peer, `r` repo, `v` refs variant ≥ 1, `k` index of the k-th `Io::Fetch` emitted):
//!   `i<n>`            `Service::connected(n, Inbound)`
//!   `o<n>`            `Service::connected(n, Outbound)`
//!   `d<n>`            `Command::Connect(n)`, followed (as `Wire` does on `Io::Connect`) by `attempted(n)`
//!   `xi<n>:<perm>`    `Service::disconnected(n, Inbound)`;  `xo<n>:<perm>` with `Outbound`
//!   `c<r>.<n>`        `Command::Fetch(r, n)` (with a result channel)
//!   `a<r>.<n>.<v>`    refs announcement of `n` for `r` (variant `v`), received from `n`
//!   `r<k>s:<perm>`    worker result (success) of the k-th fetch: `Service::fetched(rid_k, nid_k, Ok)`;
//!   `r<k>f:<perm>`    the same with an error result. A `k` that is not outstanding is skipped (`K`).
//!   `w:<perm>`        61 minutes pass, `Service::wake()`, then `attempted` for every `Io::Connect`;
//!   `w:<perm>:<plan>` with flag `m`: `<plan>` = `r=n.n,r=n` the missing repositories and their connected seeds
//!                     in the order `fetch_missing_repositories` visits them (computed by the real code)
//!   `v<r>.<n>`        (flag `m`) inventory announcement of `n` listing `r`, received from `n`
//! `<perm>` is the order in which `Sessions::shuffled()` will present the sessions to
//! `dequeue_fetches` in this step (an opaque function of the RNG: its value is computed by the real
//! code and passed to the model); `?` asks the harness to fill it in, a wrong value is `bad-case`.
//! Generator-only shorthands, resolved against the real state and replaced in the recorded text:
//!   `x*<n>:?` (disconnect with the link the session currently has), `r*<j>s:?` (j-th outstanding result).
//!
//! Oracle (the property statement on the real state after every event; classes): `panic`,
//! `double-fetch` / `fetch-not-registered` / `untracked-fetch` (Io::Fetch vs `Service.fetching`),
//! `fetch-from-unconnected-session`, `session-set-orphan`, `fetch-missing-from-session-set`
//! (`fetching-lost-on-session-reset` if `connected` was delivered for the connected session before),
//! `concurrency-exceeded` (`…-after-session-reset`), `queue-overflow`, and — with the harness' own
//! per-fetch ids — `stale-result-other-peer` / `stale-result-same-peer` (a result completed the entry of
//! another fetch; the latter is a known finding).
//!
//! Output: one item per op, separated by spaces: `P` (panic, run stops), `K` (skipped) or
//!   `<emitted>/<fetching>/<sessions>` with
//!   emitted  = `r<rid>n<nid>v<refs>` of every `Io::Fetch` of this step in order (`-` none)
//!   fetching = `Service.fetching` sorted by rid, same item syntax
//!   sessions = `n<nid><link i|o><state I|A|C|D>[fetching set].(queue: rid:refs:chan …)` joined by `;`

use std::collections::{BTreeMap, BTreeSet, HashSet};
use std::net::{IpAddr, Ipv4Addr, SocketAddr};
use std::str::FromStr;
use std::sync::OnceLock;

use crossbeam_channel as chan;
use radicle::crypto::test::signer::MockSigner;
use radicle::git::Oid;
use radicle::identity::{DocAt, RepoId};
use radicle::node::address::{KnownAddress, Source, Store as _};
use radicle::node::config::PeerConfig;
use radicle::node::device::Device;
use radicle::node::refs::Store as _;
use radicle::node::{Address, Alias, ConnectOptions, Features, NodeId, UserAgent, DEFAULT_TIMEOUT, PROTOCOL_VERSION};
use radicle::storage::refs::{RefsAt, SIGREFS_BRANCH};
use radicle::storage::ReadStorage as _;
use radicle::test::storage::MockStorage;
use radicle_node::service::io::Io;
use radicle_node::service::message::{AnnouncementMessage, InventoryAnnouncement, Message, RefsAnnouncement};
use radicle_node::service::policy::{Scope, SeedingPolicy};
use radicle_node::service::session::{Session, State};
use radicle_node::service::{self, Command, DisconnectReason, ServiceState as _};
use radicle_node::test::peer::{self, Peer};
use radicle_node::worker::{fetch, FetchError};
use radicle_node::{Link, LocalDuration, LocalTime, Timestamp};
use verif_common::*;

const MAX_QUEUE: usize = 128;
const VARIANTS: usize = 3;

// ---------------------------------------------------------------------------------------------
// Case text

#[derive(Clone, Debug)]
struct Cfg {
    conc: usize,
    peers: usize,
    repos: usize,
    persist: Vec<usize>,
    have: Vec<usize>,
    seed: u64,
    /// flag `m`: the repositories are NOT in storage (inventory announcements and the sync task fetch them)
    missing: bool,
    /// flag `w`: worker results are only delivered while their node has a connected session
    wire: bool,
}

/// Sync plan of a wake: the missing repositories with their connected seeds, in visiting order.
type Plan = Option<Vec<(usize, Vec<usize>)>>;

type Perm = Option<Vec<usize>>;

#[derive(Clone, Debug)]
enum Op {
    In(usize),
    Out(usize),
    Dial(usize),
    /// `None` link = resolve to the link the session has now.
    Dis(Option<Link>, usize, Perm),
    Cmd(usize, usize),
    Ann(usize, usize, usize),
    /// `Ok(k)` = k-th fetch; `Err(j)` = j-th outstanding one (resolved when executed).
    Res(Result<usize, usize>, bool, Perm),
    Wake(Perm, Plan),
    Inv(usize, usize),
}

fn dots(s: &str) -> Option<Vec<usize>> {
    if s == "-" {
        return Some(vec![]);
    }
    s.split('.').map(|x| x.parse().ok()).collect()
}

fn show_dots(v: &[usize]) -> String {
    if v.is_empty() {
        "-".into()
    } else {
        v.iter().map(|x| x.to_string()).collect::<Vec<_>>().join(".")
    }
}

fn parse_perm(s: &str) -> Option<Perm> {
    if s == "?" {
        Some(None)
    } else {
        dots(s).map(Some)
    }
}

fn parse_cfg(s: &str) -> Option<Cfg> {
    let f: Vec<&str> = s.split(',').collect();
    if f.len() != 6 && f.len() != 7 {
        return None;
    }
    let flags = if f.len() == 7 && f[6] != "-" { f[6] } else { "" };
    if flags.chars().any(|c| c != 'm' && c != 'w') {
        return None;
    }
    let cfg = Cfg {
        conc: f[0].parse().ok()?,
        peers: f[1].parse().ok()?,
        repos: f[2].parse().ok()?,
        persist: dots(f[3])?,
        have: dots(f[4])?,
        seed: f[5].parse().ok()?,
        missing: flags.contains('m'),
        wire: flags.contains('w'),
    };
    if cfg.peers == 0 || cfg.peers > 9 || cfg.repos == 0 || cfg.repos > 9 || cfg.conc > 64 {
        return None;
    }
    if cfg.persist.iter().any(|p| *p == 0 || *p > cfg.peers) || cfg.have.iter().any(|v| *v == 0 || *v > VARIANTS) {
        return None;
    }
    Some(cfg)
}

fn parse_op(t: &str, cfg: &Cfg) -> Option<Op> {
    let peer = |s: &str| -> Option<usize> {
        let n: usize = s.parse().ok()?;
        (n >= 1 && n <= cfg.peers).then_some(n)
    };
    let repo = |s: &str| -> Option<usize> {
        let n: usize = s.parse().ok()?;
        (n >= 1 && n <= cfg.repos).then_some(n)
    };
    let mut parts = t.split(':');
    let head = parts.next()?;
    let perm = match parts.next() {
        Some(p) => Some(parse_perm(p)?),
        None => None,
    };
    let plan_txt = parts.next();
    if parts.next().is_some() || (plan_txt.is_some() && head != "w") {
        return None;
    }
    let c = head.chars().next()?;
    let rest = &head[c.len_utf8()..];
    match (c, perm) {
        ('i', None) => Some(Op::In(peer(rest)?)),
        ('o', None) => Some(Op::Out(peer(rest)?)),
        ('d', None) => Some(Op::Dial(peer(rest)?)),
        ('x', Some(p)) => {
            let l = rest.chars().next()?;
            let n = peer(&rest[1..])?;
            match l {
                'i' => Some(Op::Dis(Some(Link::Inbound), n, p)),
                'o' => Some(Op::Dis(Some(Link::Outbound), n, p)),
                '*' => Some(Op::Dis(None, n, p)),
                _ => None,
            }
        }
        ('c', None) => {
            let (r, n) = rest.split_once('.')?;
            Some(Op::Cmd(repo(r)?, peer(n)?))
        }
        ('a', None) => {
            let f: Vec<&str> = rest.split('.').collect();
            if f.len() != 3 {
                return None;
            }
            let v: usize = f[2].parse().ok()?;
            (v >= 1 && v <= VARIANTS).then_some(())?;
            Some(Op::Ann(repo(f[0])?, peer(f[1])?, v))
        }
        ('r', Some(p)) => {
            let ok = match rest.chars().last()? {
                's' => true,
                'f' => false,
                _ => return None,
            };
            let mid = &rest[..rest.len() - 1];
            if let Some(j) = mid.strip_prefix('*') {
                Some(Op::Res(Err(j.parse().ok()?), ok, p))
            } else {
                let k: usize = mid.parse().ok()?;
                (k >= 1).then_some(())?;
                Some(Op::Res(Ok(k), ok, p))
            }
        }
        ('w', Some(p)) if rest.is_empty() => {
            let plan = match plan_txt {
                None | Some("?") => None,
                Some("-") => Some(vec![]),
                Some(txt) => {
                    let mut v = vec![];
                    for g in txt.split(',') {
                        let (r, ns) = g.split_once('=')?;
                        let ns: Option<Vec<usize>> = ns.split('.').map(|n| peer(n)).collect();
                        v.push((repo(r)?, ns?));
                    }
                    Some(v)
                }
            };
            Some(Op::Wake(p, plan))
        }
        ('v', None) if cfg.missing => {
            let (r, n) = rest.split_once('.')?;
            Some(Op::Inv(repo(r)?, peer(n)?))
        }
        _ => None,
    }
}

fn link_char(l: Link) -> char {
    if l.is_inbound() {
        'i'
    } else {
        'o'
    }
}

// ---------------------------------------------------------------------------------------------
// The real service

fn doc() -> DocAt {
    static DOC: OnceLock<DocAt> = OnceLock::new();
    DOC.get_or_init(|| radicle::test::arbitrary::gen::<DocAt>(1)).clone()
}

fn oid(tag: u8, i: usize) -> Oid {
    Oid::from_str(&format!("{:02x}{:02x}{}", tag, i, "00".repeat(18))).expect("oid")
}

struct World {
    alice: Peer<MockStorage, MockSigner>,
    signers: Vec<Device<MockSigner>>,
    nids: Vec<NodeId>,
    addrs: Vec<Address>,
    rids: Vec<RepoId>,
    /// Namespace whose `rad/sigrefs` the announcements talk about.
    ns: NodeId,
    persist: Vec<usize>,
    /// The state of the service's own RNG (it is only ever cloned by the service, never advanced).
    service_rng: fastrand::Rng,
    _rx: Vec<chan::Receiver<radicle::node::FetchResult>>,
}

impl World {
    fn new(cfg: &Cfg) -> World {
        let signers: Vec<Device<MockSigner>> =
            (1..=cfg.peers).map(|i| Device::mock_from_seed([i as u8; 32])).collect();
        let nids: Vec<NodeId> = signers.iter().map(|s| *s.public_key()).collect();
        let addrs: Vec<Address> = (1..=cfg.peers)
            .map(|i| Address::from(SocketAddr::new(IpAddr::V4(Ipv4Addr::new(192, 168, 7, 10 + i as u8)), 8776)))
            .collect();
        let ns = *Device::<MockSigner>::mock_from_seed([0xee; 32]).public_key();
        let rids: Vec<RepoId> = (1..=cfg.repos).map(|j| RepoId::from(oid(0x1d, j))).collect();
        let storage = MockStorage::new(if cfg.missing { vec![] } else { rids.iter().map(|r| (*r, doc())).collect() });

        let mut config = service::Config::test(Alias::from_str("alice").unwrap());
        // `maintain_connections` (dialling peers from the address book) is represented by the explicit
        // `d<n>` op; with a static peer set it never dials on its own.
        config.peers = PeerConfig::Static;
        config.limits.fetch_concurrency = cfg.conc;
        for p in &cfg.persist {
            config.connect.insert((nids[*p - 1], addrs[*p - 1].clone()).into());
        }
        let start = LocalTime::from_secs(1_700_000_000);
        let base_rng = fastrand::Rng::with_seed(cfg.seed);
        // `Peer::config` draws one `u16` (the port) before handing the RNG to `Service::new`.
        let mut service_rng = base_rng.clone();
        service_rng.u16(..);
        let pc = peer::Config {
            config,
            local_time: start,
            policy: SeedingPolicy::default(),
            signer: Device::mock_from_seed([0xa1; 32]),
            rng: base_rng.clone(),
            tmp: tempfile::TempDir::new().expect("tempdir"),
        };
        let mut alice = Peer::config("alice", [192, 168, 7, 1], storage, pc).initialized();
        for r in &rids {
            alice.seed(r, Scope::All).expect("seed");
        }
        // Every remote node is known (as after its node announcement), so that its refs
        // announcements are processed.
        let ts = alice.timestamp();
        for (i, nid) in nids.iter().enumerate() {
            alice
                .database_mut()
                .addresses_mut()
                .insert(
                    nid,
                    PROTOCOL_VERSION,
                    Features::default(),
                    &Alias::from_str(&format!("peer{}", i + 1)).unwrap(),
                    0,
                    &UserAgent::default(),
                    ts,
                    Some(KnownAddress::new(addrs[i].clone(), Source::Peer)),
                )
                .expect("address insert");
        }
        for v in &cfg.have {
            for r in &rids {
                alice
                    .database_mut()
                    .refs_mut()
                    .set(r, &ns, &SIGREFS_BRANCH, oid(0xaa, *v), start)
                    .expect("refs set");
            }
        }
        let mut w = World { alice, signers, nids, addrs, rids, ns, persist: cfg.persist.clone(), service_rng, _rx: vec![] };
        w.drain(); // Io::Connect of the persistent peers → attempted
        w
    }

    fn peer_ix(&self, nid: &NodeId) -> usize {
        self.nids.iter().position(|n| n == nid).map(|i| i + 1).unwrap_or(0)
    }

    fn repo_ix(&self, rid: &RepoId) -> usize {
        self.rids.iter().position(|r| r == rid).map(|i| i + 1).unwrap_or(0)
    }

    fn refs_token(&self, refs: &[RefsAt]) -> String {
        match refs {
            [] => "0".into(),
            [r] if r.remote == self.ns => {
                (1..=VARIANTS).find(|v| oid(0xaa, *v) == r.at).map(|v| v.to_string()).unwrap_or("X".into())
            }
            _ => "X".into(),
        }
    }

    /// Drain the outbox: `Io::Fetch`es are returned, `Io::Connect` is answered with `attempted`
    /// (what `Wire` does when it processes the connect), everything else is dropped.
    fn drain(&mut self) -> Vec<(usize, usize, String)> {
        let ios: Vec<Io> = self.alice.outbox().collect();
        let mut out = vec![];
        for io in ios {
            match io {
                Io::Fetch { rid, remote, refs_at, .. } => {
                    let tok = self.refs_token(refs_at.as_deref().unwrap_or(&[]));
                    out.push((self.repo_ix(&rid), self.peer_ix(&remote), tok));
                }
                Io::Connect(nid, addr) => {
                    self.alice.attempted(nid, addr);
                }
                _ => {}
            }
        }
        out
    }

    /// The order in which the next `Sessions::shuffled()` call presents the sessions, if the session
    /// of `removed` is dropped first.
    fn predict_perm(&self, removed: Option<usize>) -> Vec<usize> {
        let mut s = self.alice.sessions().clone();
        if let Some(n) = removed {
            s.remove(&self.nids[n - 1]);
        }
        let v: Vec<usize> = s.shuffled().map(|(k, _)| self.peer_ix(k)).collect();
        v
    }

    /// What `fetch_missing_repositories` will visit: the seeded repositories missing from storage, in
    /// policy order, each with `self.seeds(rid).connected()`. `Command::Seeds` returns the same `Seeds` value
    /// but has already shuffled it once (`partition`), so it is given a fresh clone of the service RNG again.
    fn predict_plan(&mut self) -> Vec<(usize, Vec<usize>)> {
        let mut plan = vec![];
        let policies: Vec<_> = self.alice.policies().seed_policies().expect("policies").collect();
        for p in policies {
            if !p.is_allow() || self.alice.storage().contains(&p.rid).unwrap_or(true) {
                continue;
            }
            let (tx, rx) = chan::bounded(1);
            self.alice.command(Command::Seeds(p.rid, tx));
            if let Ok(seeds) = rx.try_recv() {
                let seeds = seeds.with(self.service_rng.clone());
                let ns: Vec<usize> = seeds.connected().map(|s| self.peer_ix(&s.nid)).collect();
                if !ns.is_empty() {
                    plan.push((self.repo_ix(&p.rid), ns));
                }
            }
        }
        plan
    }

    fn session(&self, n: usize) -> Option<&Session> {
        self.alice.sessions().get(&self.nids[n - 1])
    }

    fn fetching_map(&self) -> BTreeMap<usize, (usize, String)> {
        self.alice
            .fetching()
            .iter()
            .map(|(rid, f)| (self.repo_ix(rid), (self.peer_ix(&f.from), self.refs_token(&f.refs_at))))
            .collect()
    }

    fn session_set(&self, n: usize) -> Option<BTreeSet<usize>> {
        match &self.session(n)?.state {
            State::Connected { fetching, .. } => Some(fetching.iter().map(|r| self.repo_ix(r)).collect()),
            _ => None,
        }
    }

    fn show_state(&self, peers: usize) -> String {
        let f = self.fetching_map();
        let fs = if f.is_empty() {
            "-".to_string()
        } else {
            f.iter().map(|(r, (n, v))| format!("r{r}n{n}v{v}")).collect::<Vec<_>>().join(",")
        };
        let mut ss = vec![];
        for n in 1..=peers {
            if let Some(s) = self.session(n) {
                let (st, set) = match &s.state {
                    State::Initial => ('I', vec![]),
                    State::Attempted => ('A', vec![]),
                    State::Connected { fetching, .. } => {
                        let mut v: Vec<usize> = fetching.iter().map(|r| self.repo_ix(r)).collect();
                        v.sort();
                        ('C', v)
                    }
                    State::Disconnected { .. } => ('D', vec![]),
                };
                let q: Vec<String> = s
                    .queue
                    .iter()
                    .map(|q| {
                        format!(
                            "{}:{}:{}{}",
                            self.repo_ix(&q.rid),
                            self.refs_token(&q.refs_at),
                            q.channel.is_some() as u8,
                            if q.from == self.nids[n - 1] { "".to_string() } else { format!("@{}", self.peer_ix(&q.from)) }
                        )
                    })
                    .collect();
                ss.push(format!(
                    "n{n}{}{st}[{}]({})",
                    link_char(s.link),
                    set.iter().map(|x| x.to_string()).collect::<Vec<_>>().join("."),
                    q.join(",")
                ));
            }
        }
        format!("{fs}/{}", if ss.is_empty() { "-".to_string() } else { ss.join(";") })
    }
}

// ---------------------------------------------------------------------------------------------
// One case

struct Run {
    /// The case text with every `?`/`*` resolved: what is recorded and what the model reads.
    text: String,
    /// Per step: the state part of the output (used to recognise steps that changed nothing).
    noop_last: bool,
    panicked: bool,
    /// Outstanding results (fetch indices) at the end, number of fetches emitted.
    pending: Vec<usize>,
    nfetch: usize,
    len: usize,
}

fn bad() -> (Run, Outcome) {
    (
        Run { text: String::new(), noop_last: true, panicked: false, pending: vec![], nfetch: 0, len: 0 },
        Outcome::new("bad-case").trivial().tag("bad-case"),
    )
}

fn execute(input: &str) -> (Run, Outcome) {
    let mut toks = input.split(' ');
    let Some(cfg) = toks.next().and_then(parse_cfg) else { return bad() };
    let mut ops = vec![];
    for t in toks {
        match parse_op(t, &cfg) {
            Some(op) => ops.push(op),
            None => return bad(),
        }
    }
    let cfg_text = input.split(' ').next().unwrap().to_string();
    // The whole run is under `catch`: a panic while building the world is a harness bug and is reported as such.
    let mut world = match catch(|| World::new(&cfg)) {
        Ok(w) => w,
        Err(e) => return (bad().0, Outcome::new(format!("setup-panic:{e}")).trivial().violation("harness-setup-panic", e)),
    };

    let mut text = vec![cfg_text];
    let mut outs: Vec<String> = vec![];
    let mut viol: Vec<(String, String)> = vec![];
    let mut tags: BTreeSet<String> = BTreeSet::new();
    // k-th emitted fetch (1-based) → (repo, peer)
    let mut fetches: Vec<(usize, usize)> = vec![];
    let mut pending: BTreeSet<usize> = BTreeSet::new();
    // repo → index of the fetch that the entry of `Service.fetching` stands for
    let mut current: BTreeMap<usize, usize> = BTreeMap::new();
    let mut reset_seen: HashSet<usize> = HashSet::new();
    let mut prev_state = world.show_state(cfg.peers);
    let mut noop_last = true;
    let mut panicked = false;
    let mut bad_case = false;
    tags.insert(format!("conc-{}", cfg.conc.min(3)));
    tags.insert(format!("peers-{}", cfg.peers));
    tags.insert(format!("repos-{}", cfg.repos));
    if !cfg.persist.is_empty() {
        tags.insert("persistent-peer".into());
    }

    for (step, op) in ops.iter().enumerate() {
        let before_map = world.fetching_map();
        let before_q: usize = (1..=cfg.peers).filter_map(|n| world.session(n)).map(|s| s.queue.len()).sum();
        // Resolve shorthands and the permutation against the real state.
        let check_perm = |given: &Perm, predicted: &Vec<usize>| -> bool { given.as_ref().map(|g| g == predicted).unwrap_or(true) };
        let mut skipped = false;
        // (kind tag, repo completed by a result, peer whose disconnect/result may free a repo)
        let (tok, action): (String, Box<dyn FnOnce(&mut World)>) = match op.clone() {
            Op::In(n) => {
                if world.session(n).map(|s| s.is_connected()).unwrap_or(false) {
                    reset_seen.insert(n);
                    tags.insert("connected-while-connected".into());
                }
                tags.insert("op-in".into());
                (format!("i{n}"), Box::new(move |w: &mut World| {
                    let (nid, addr) = (w.nids[n - 1], w.addrs[n - 1].clone());
                    w.alice.connected(nid, addr, Link::Inbound);
                }))
            }
            Op::Out(n) => {
                if world.session(n).map(|s| s.is_connected()).unwrap_or(false) {
                    reset_seen.insert(n);
                    tags.insert("connected-while-connected".into());
                }
                tags.insert("op-out".into());
                (format!("o{n}"), Box::new(move |w: &mut World| {
                    let (nid, addr) = (w.nids[n - 1], w.addrs[n - 1].clone());
                    w.alice.connected(nid, addr, Link::Outbound);
                }))
            }
            Op::Dial(n) => {
                tags.insert("op-dial".into());
                (format!("d{n}"), Box::new(move |w: &mut World| {
                    let (nid, addr) = (w.nids[n - 1], w.addrs[n - 1].clone());
                    w.alice.command(Command::Connect(nid, addr, ConnectOptions::default()));
                }))
            }
            Op::Dis(l, n, p) => {
                let cur = world.session(n).map(|s| s.link);
                let l = l.or(cur).unwrap_or(Link::Inbound);
                let removed = (cur == Some(l) && !world.persist.contains(&n)).then_some(n);
                let perm = world.predict_perm(removed);
                if !check_perm(&p, &perm) {
                    bad_case = true;
                }
                tags.insert(if cur == Some(l) { "op-disconnect" } else { "op-disconnect-ignored" }.into());
                (format!("x{}{n}:{}", link_char(l), show_dots(&perm)), Box::new(move |w: &mut World| {
                    let nid = w.nids[n - 1];
                    w.alice.disconnected(nid, l, &DisconnectReason::connection());
                }))
            }
            Op::Cmd(r, n) => {
                tags.insert("op-fetch-command".into());
                (format!("c{r}.{n}"), Box::new(move |w: &mut World| {
                    let (tx, rx) = chan::bounded::<radicle::node::FetchResult>(4);
                    w._rx.push(rx);
                    let (rid, nid) = (w.rids[r - 1], w.nids[n - 1]);
                    w.alice.command(Command::Fetch(rid, nid, DEFAULT_TIMEOUT, tx));
                }))
            }
            Op::Ann(r, n, v) => {
                if matches!(world.session(n).map(|s| &s.state), Some(State::Attempted | State::Initial)) {
                    tags.insert("message-from-connecting-peer".into());
                }
                tags.insert(format!("op-refs-announcement-v{v}"));
                (format!("a{r}.{n}.{v}"), Box::new(move |w: &mut World| {
                    let ann = RefsAnnouncement {
                        rid: w.rids[r - 1],
                        refs: vec![RefsAt { remote: w.ns, at: oid(0xaa, v) }].try_into().expect("bounded"),
                        timestamp: Timestamp::from(*w.alice.clock()) + (step as u64 + 1),
                    };
                    let msg: Message = AnnouncementMessage::from(ann).signed(&w.signers[n - 1]).into();
                    let nid = w.nids[n - 1];
                    w.alice.receive(nid, msg);
                }))
            }
            Op::Res(sel, ok, p) => {
                let k = match sel {
                    Ok(k) => k,
                    Err(j) => pending.iter().nth(j % pending.len().max(1)).copied().unwrap_or(fetches.len() + 1),
                };
                let perm = world.predict_perm(None);
                if !check_perm(&p, &perm) {
                    bad_case = true;
                }
                let tok = format!("r{k}{}:{}", if ok { 's' } else { 'f' }, show_dots(&perm));
                if !pending.remove(&k) {
                    skipped = true;
                    tags.insert("op-result-skipped".into());
                    (tok, Box::new(|_: &mut World| {}))
                } else if cfg.wire && !world.session(fetches[k - 1].1).map(|s| s.is_connected()).unwrap_or(false) {
                    // `Wire::worker_result` drops results of unknown / disconnecting peers
                    tags.insert("op-result-dropped-by-wire".into());
                    (tok, Box::new(|_: &mut World| {}))
                } else {
                    let (r, n) = fetches[k - 1];
                    tags.insert(if ok { "op-result-ok" } else { "op-result-err" }.into());
                    (tok, Box::new(move |w: &mut World| {
                        let (rid, nid) = (w.rids[r - 1], w.nids[n - 1]);
                        let res = if ok {
                            Ok(fetch::FetchResult { updated: vec![], namespaces: HashSet::new(), clone: false, doc: doc() })
                        } else {
                            Err(FetchError::Io(std::io::ErrorKind::ConnectionReset.into()))
                        };
                        w.alice.fetched(rid, nid, res);
                    }))
                }
            }
            Op::Wake(p, pl) => {
                let perm = world.predict_perm(None);
                if !check_perm(&p, &perm) {
                    bad_case = true;
                }
                let plan = if cfg.missing { world.predict_plan() } else { vec![] };
                if pl.as_ref().map(|g| *g != plan).unwrap_or(false) {
                    bad_case = true;
                }
                tags.insert("op-wake".into());
                let tok = if plan.is_empty() {
                    format!("w:{}", show_dots(&perm))
                } else {
                    tags.insert("op-wake-sync-fetch".into());
                    let groups: Vec<String> = plan.iter().map(|(r, ns)| format!("{r}={}", show_dots(ns))).collect();
                    format!("w:{}:{}", show_dots(&perm), groups.join(","))
                };
                (tok, Box::new(|w: &mut World| {
                    w.alice.elapse(LocalDuration::from_mins(61));
                }))
            }
            Op::Inv(r, n) => {
                if matches!(world.session(n).map(|s| &s.state), Some(State::Attempted | State::Initial)) {
                    tags.insert("message-from-connecting-peer".into());
                }
                tags.insert("op-inventory-announcement".into());
                (format!("v{r}.{n}"), Box::new(move |w: &mut World| {
                    let ann = InventoryAnnouncement {
                        inventory: vec![w.rids[r - 1]].try_into().expect("bounded"),
                        timestamp: Timestamp::from(*w.alice.clock()) + (step as u64 + 1),
                    };
                    let msg: Message = AnnouncementMessage::from(ann).signed(&w.signers[n - 1]).into();
                    let nid = w.nids[n - 1];
                    w.alice.receive(nid, msg);
                }))
            }
        };
        text.push(tok);
        // A wrong `perm`/`plan` annotation (replay of a case recorded against other code) makes the case
        // `bad-case` for the correspondence, but the real code is still run to the end and the oracle is
        // still evaluated on every step: the annotations are not inputs of the real code.
        if skipped {
            outs.push("K".into());
            noop_last = true;
            continue;
        }
        let res = catch(|| {
            action(&mut world);
            world.drain()
        });
        let emitted = match res {
            Err(msg) => {
                outs.push("P".into());
                panicked = true;
                noop_last = false;
                tags.insert("panic".into());
                viol.push(("panic".into(), format!("step {} ({}): {}", step + 1, text.last().unwrap(), msg.replace('\n', " "))));
                break;
            }
            Ok(e) => e,
        };
        // ---- bookkeeping for the oracle --------------------------------------------------------
        let after_map = world.fetching_map();
        let here = format!("step {} ({})", step + 1, text.last().unwrap());
        let mut emitted_repos = BTreeSet::new();
        for (r, n, _) in &emitted {
            if !emitted_repos.insert(*r) {
                viol.push(("double-fetch".into(), format!("{here}: two Io::Fetch for repo {r} in one step")));
            }
            if let Some((from, _)) = before_map.get(r) {
                let legit = match op {
                    Op::Res(..) => {
                        // the result of this step completed the previous fetch of `r`
                        text.last().and_then(|t| t[1..].split(|c| c == 's' || c == 'f').next().and_then(|k| k.parse::<usize>().ok()))
                            .map(|k| fetches[k - 1] == (*r, *from))
                            .unwrap_or(false)
                    }
                    Op::Dis(_, m, _) => m == from,
                    _ => false,
                };
                if !legit {
                    viol.push(("double-fetch".into(), format!("{here}: Io::Fetch for repo {r} from {n} while it is being fetched from {from}")));
                }
            }
        }
        if let Op::Res(..) = op {
            let k: usize = text.last().unwrap()[1..].split(|c| c == 's' || c == 'f').next().unwrap().parse().unwrap();
            let (r, n) = fetches[k - 1];
            let completed = before_map.contains_key(&r) && (!after_map.contains_key(&r) || emitted_repos.contains(&r));
            if completed {
                tags.insert("result-completes-fetch".into());
                match current.get(&r) {
                    Some(c) if *c == k => {}
                    Some(c) => {
                        let (_, cn) = fetches[*c - 1];
                        let class = if cn == n { "stale-result-same-peer" } else { "stale-result-other-peer" };
                        tags.insert(class.into());
                        viol.push((class.into(), format!(
                            "{here}: the result of fetch #{k} (repo {r} from peer {n}) completed fetch #{c} (repo {r} from peer {cn})"
                        )));
                    }
                    None => viol.push(("untracked-fetch".into(), format!("{here}: completed an entry that no Io::Fetch stands for"))),
                }
                current.remove(&r);
            } else {
                tags.insert("result-ignored".into());
            }
        }
        for (r, n, _) in &emitted {
            fetches.push((*r, *n));
            pending.insert(fetches.len());
            current.insert(*r, fetches.len());
            match after_map.get(r) {
                Some((from, _)) if from == n => {}
                other => viol.push(("fetch-not-registered".into(), format!("{here}: Io::Fetch for repo {r} from {n}, but fetching[{r}] = {other:?}"))),
            }
        }
        current.retain(|r, _| after_map.contains_key(r));
        for r in after_map.keys() {
            if !current.contains_key(r) {
                viol.push(("untracked-fetch".into(), format!("{here}: fetching[{r}] exists but no Io::Fetch was emitted for it")));
            }
        }
        // ---- the property, evaluated on the real state ------------------------------------------
        let mut per_peer: BTreeMap<usize, usize> = BTreeMap::new();
        for (r, (from, _)) in &after_map {
            *per_peer.entry(*from).or_default() += 1;
            match world.session_set(*from) {
                None => viol.push(("fetch-from-unconnected-session".into(), format!("{here}: fetching[{r}].from = {from}, which has no connected session"))),
                Some(set) => {
                    if !set.contains(r) {
                        let class = if reset_seen.contains(from) { "fetching-lost-on-session-reset" } else { "fetch-missing-from-session-set" };
                        tags.insert(class.into());
                        viol.push((class.into(), format!("{here}: fetching[{r}].from = {from} but session {from} is not marked as fetching {r}")));
                    }
                }
            }
        }
        for n in 1..=cfg.peers {
            if let Some(set) = world.session_set(n) {
                for r in &set {
                    if after_map.get(r).map(|(f, _)| *f) != Some(n) {
                        viol.push(("session-set-orphan".into(), format!("{here}: session {n} is marked as fetching {r} but fetching[{r}] = {:?}", after_map.get(r))));
                    }
                }
                if set.len() > cfg.conc {
                    viol.push(("concurrency-exceeded".into(), format!("{here}: session {n} fetches {} repos, limit {}", set.len(), cfg.conc)));
                }
            }
            if let Some(s) = world.session(n) {
                if s.queue.len() > MAX_QUEUE {
                    viol.push(("queue-overflow".into(), format!("{here}: queue of {n} has {} entries", s.queue.len())));
                }
                if s.queue.len() == MAX_QUEUE {
                    tags.insert("queue-full".into());
                }
            }
            let c = per_peer.get(&n).copied().unwrap_or(0);
            if c > cfg.conc && world.session_set(n).map(|s| s.len() <= cfg.conc).unwrap_or(true) {
                let class = if reset_seen.contains(&n) { "concurrency-exceeded-after-session-reset" } else { "concurrency-exceeded" };
                tags.insert(class.into());
                viol.push((class.into(), format!("{here}: {c} fetches from peer {n} are registered, limit {}", cfg.conc)));
            }
            if c == cfg.conc && cfg.conc > 0 {
                tags.insert("at-capacity".into());
            }
        }
        // ---- output ------------------------------------------------------------------------------
        let after_q: usize = (1..=cfg.peers).filter_map(|n| world.session(n)).map(|s| s.queue.len()).sum();
        if after_q > before_q {
            tags.insert("queued".into());
        }
        if !emitted.is_empty() {
            tags.insert(match op {
                Op::Cmd(..) | Op::Ann(..) | Op::Inv(..) => "fetch-started-directly",
                _ => "fetch-started-from-queue",
            }.into());
        }
        let st = world.show_state(cfg.peers);
        let em = if emitted.is_empty() {
            "-".to_string()
        } else {
            emitted.iter().map(|(r, n, v)| format!("r{r}n{n}v{v}")).collect::<Vec<_>>().join(",")
        };
        noop_last = emitted.is_empty() && st == prev_state;
        outs.push(format!("{em}/{st}"));
        prev_state = st;
    }
    // first violation of each class only (a broken state usually stays broken for the rest of the run)
    let mut seen = HashSet::new();
    viol.retain(|(c, _)| seen.insert(c.clone()));
    let nfetch = fetches.len();
    tags.insert(format!("len-{:02}", ops.len().min(40)));
    tags.insert(format!("fetches-{}", nfetch.min(6)));
    let mut o = Outcome::new(if bad_case { "bad-case".to_string() } else { outs.join(" ") });
    if bad_case {
        tags.insert("bad-case".into());
    }
    o.violations = viol;
    o.nontrivial = nfetch > 0 && !bad_case;
    o.tags = tags.into_iter().collect();
    (
        Run { text: text.join(" "), noop_last, panicked, pending: pending.into_iter().collect(), nfetch, len: ops.len() },
        o,
    )
}

fn run_and_record(ctx: &mut Ctx, input: &str) -> Run {
    let (run, o) = execute(input);
    let text = if run.text.is_empty() { input.to_string() } else { run.text.clone() };
    ctx.record(&text, o);
    run
}

// ---------------------------------------------------------------------------------------------
// Generation

/// Alphabet for the exhaustive enumeration after `prefix` (a fully resolved case text).
fn alphabet(cfg: &Cfg, run: &Run, max_peer: usize, max_repo: usize, rich: bool) -> Vec<(String, usize, usize)> {
    // (op text, highest peer mentioned, highest repo mentioned)
    let mut v = vec![];
    let np = if cfg.persist.is_empty() { (max_peer + 1).min(cfg.peers) } else { cfg.peers };
    let nr = (max_repo + 1).min(cfg.repos);
    for n in 1..=np {
        v.push((format!("i{n}"), n, 0));
        v.push((format!("xi{n}:?"), n, 0));
        if rich || cfg.persist.contains(&n) {
            v.push((format!("d{n}"), n, 0));
            v.push((format!("o{n}"), n, 0));
            v.push((format!("xo{n}:?"), n, 0));
        }
        for r in 1..=nr {
            v.push((format!("c{r}.{n}"), n, r));
            v.push((format!("a{r}.{n}.1"), n, r));
            if cfg.missing {
                v.push((format!("v{r}.{n}"), n, r));
            }
        }
    }
    for k in &run.pending {
        v.push((format!("r{k}f:?"), 0, 0));
    }
    if rich {
        if let Some(k) = run.pending.first() {
            v.push((format!("r{k}s:?"), 0, 0));
        }
    }
    v.push(("w:?".into(), 0, 0));
    v
}

struct Enum<'a> {
    ctx: &'a mut Ctx,
    cfg: Cfg,
    depth: usize,
    rich: bool,
    count: u64,
    budget: u64,
    truncated: bool,
}

impl Enum<'_> {
    fn dfs(&mut self, prefix: &str, run: &Run, max_peer: usize, max_repo: usize) {
        if run.len >= self.depth {
            return;
        }
        for (op, p, r) in alphabet(&self.cfg, run, max_peer, max_repo, self.rich) {
            if self.count >= self.budget {
                self.truncated = true;
                return;
            }
            let text = format!("{prefix} {op}");
            let child = run_and_record(self.ctx, &text);
            self.count += 1;
            // A step that changed nothing and emitted nothing leads to states already reached by the
            // shorter schedule: it is recorded (the model must agree that it is a no-op) but not extended.
            if child.noop_last || child.panicked || child.text.is_empty() {
                continue;
            }
            let t = child.text.clone();
            self.dfs(&t, &child, max_peer.max(p), max_repo.max(r));
        }
    }
}

fn cfg_text(c: &Cfg) -> String {
    let mut t = format!("{},{},{},{},{},{}", c.conc, c.peers, c.repos, show_dots(&c.persist), show_dots(&c.have), c.seed);
    if c.missing || c.wire {
        t.push(',');
        if c.missing {
            t.push('m');
        }
        if c.wire {
            t.push('w');
        }
    }
    t
}

fn enumerate(ctx: &mut Ctx, cfg: Cfg, depth: usize, rich: bool, budget: u64) -> (u64, bool) {
    let prefix = cfg_text(&cfg);
    let root = Run { text: prefix.clone(), noop_last: false, panicked: false, pending: vec![], nfetch: 0, len: 0 };
    let mut e = Enum { ctx, cfg, depth, rich, count: 0, budget, truncated: false };
    e.dfs(&prefix, &root, 0, 0);
    (e.count, e.truncated)
}

fn gen_random(rng: &mut Rng, long: bool) -> String {
    let peers = rng.range(2, 3) as usize;
    let max_repos = 2 + rng.below(2);
    let repos = rng.range(1, max_repos) as usize;
    let cfg = Cfg {
        conc: *rng.pick(&[1, 1, 1, 2, 2, 3]),
        peers,
        repos,
        persist: if rng.chance(1, 3) { vec![rng.range(1, peers as u64) as usize] } else { vec![] },
        have: if rng.chance(1, 4) { vec![3] } else { vec![] },
        seed: rng.below(1 << 32),
        missing: rng.chance(1, 3),
        wire: rng.chance(1, 3),
    };
    let len = if long { rng.range(20, 60) } else { rng.range(6, 24) };
    let mut s = cfg_text(&cfg);
    // A rough picture of who is probably connected, only to bias towards meaningful events.
    let mut up = vec![false; peers + 1];
    for _ in 0..len {
        let n = rng.range(1, peers as u64) as usize;
        let r = rng.range(1, repos as u64) as usize;
        let op = if !up[n] && rng.chance(2, 3) {
            up[n] = true;
            match rng.below(4) {
                0 => format!("d{n} o{n}"),
                _ => format!("i{n}"),
            }
        } else {
            match rng.below(20) {
                0..=4 => format!("c{r}.{n}"),
                5..=6 if cfg.missing => format!("v{r}.{n}"),
                5..=8 => format!("a{r}.{n}.{}", *rng.pick(&[1, 1, 1, 2, 2, 3])),
                9..=12 => format!("r*{}{}:?", rng.below(4), if rng.chance(1, 3) { 's' } else { 'f' }),
                13..=14 => {
                    up[n] = false;
                    format!("x*{n}:?")
                }
                15 => format!("x{}{n}:?", if rng.bool() { 'i' } else { 'o' }),
                16 => format!("i{n}"),
                17 => format!("o{n}"),
                18 => format!("d{n}"),
                _ => "w:?".to_string(),
            }
        };
        s.push(' ');
        s.push_str(&op);
    }
    s
}

/// Fill one queue up to (and past) its capacity: `conc = 1`, one fetch in flight, then 130 distinct
/// queued commands for the same peer.
fn queue_capacity_case(extra: usize) -> String {
    let mut s = String::from("1,2,2,-,-,7 i1 i2 c1.1");
    for _ in 0..(MAX_QUEUE + extra) {
        s.push_str(" c2.1");
    }
    s.push_str(" r1f:? r2f:? r3f:?");
    s
}

/// A full queue (128) behind `conc` fetches in flight, then a disconnect on the matching link, a
/// reconnect, a late result of an interrupted fetch and a drain. The queue bound is checked by the
/// oracle after every step, for a persistent peer (session and queue survive the disconnect) and a
/// non-persistent one.
fn queue_full_disconnect_case(conc: usize, persistent: bool) -> String {
    let q = conc + 1;
    let mut s = format!("{conc},2,{q},{},-,7 {} i2", if persistent { "1" } else { "-" }, if persistent { "o1" } else { "i1" });
    for r in 1..=conc {
        s.push_str(&format!(" c{r}.1"));
    }
    for _ in 0..(MAX_QUEUE + 1) {
        s.push_str(&format!(" c{q}.1"));
    }
    s.push_str(&format!(" x*1:? {} r1f:? w:? r*0f:? w:? r*0s:? c1.1 x*1:? w:?", if persistent { "o1" } else { "i1" }));
    s
}

fn main() {
    // sqlite files of the throw-away node databases: keep them off the disk if possible
    if std::path::Path::new("/dev/shm").is_dir() && std::env::var_os("TMPDIR").is_none() {
        std::env::set_var("TMPDIR", "/dev/shm");
    }
    if let Ok(f) = std::env::var("C16_ANNOTATE") {
        // authoring aid: print the resolved form and the real output of every line of a file
        for l in std::fs::read_to_string(f).expect("file").lines() {
            if l.trim().is_empty() || l.starts_with('#') {
                println!("{l}");
                continue;
            }
            let (run, o) = execute(l.trim());
            println!("{}\n#  => {}", run.text, o.output);
            for (c, m) in o.violations {
                println!("#  !! {c}: {m}");
            }
        }
        return;
    }
    let mut ctx = Ctx::from_args("C16");
    let (fixed, is_replay) = ctx.fixed_inputs();
    for i in fixed {
        ctx.count("corpus-or-replay");
        run_and_record(&mut ctx, &i);
    }
    let mut exhaustive_note = vec![];
    if !is_replay {
        let quick = ctx.quick();
        let t0 = std::time::Instant::now();
        let base = |conc, peers, repos, persist: Vec<usize>| Cfg { conc, peers, repos, persist, have: vec![], seed: 1, missing: false, wire: false };
        let flagged = |conc, peers, repos, missing, wire| Cfg { conc, peers, repos, persist: vec![], have: vec![], seed: 1, missing, wire };
        // (config, depth quick, depth thorough, rich alphabet)
        let plans: Vec<(Cfg, usize, usize, bool)> = vec![
            (base(1, 2, 1, vec![]), 5, 7, false),
            (base(1, 2, 2, vec![]), 4, 6, false),
            (base(2, 2, 2, vec![]), 4, 6, false),
            (base(1, 2, 1, vec![]), 4, 5, true),
            (base(1, 2, 1, vec![2]), 4, 5, false),
            (base(1, 3, 1, vec![]), 4, 6, false),
            // repositories not in storage: inventory announcements and the sync task of `wake` fetch
            (flagged(1, 2, 2, true, false), 4, 5, false),
            // worker results only forwarded for connected peers (as `Wire::worker_result` does)
            (flagged(1, 2, 1, false, true), 4, 6, false),
            (flagged(2, 2, 2, true, true), 3, 5, false),
        ];
        for (cfg, dq, dt, rich) in plans {
            let d = if quick { dq } else { dt };
            let label = format!("{}{}", cfg_text(&cfg), if rich { "+rich" } else { "" });
            let (n, trunc) = enumerate(&mut ctx, cfg, d, rich, if quick { 8_000 } else { 60_000 });
            exhaustive_note.push(format!("{label}: depth {d}, {n} schedules{}", if trunc { " (TRUNCATED by budget)" } else { "" }));
        }
        ctx.note("enumeration_seconds", format!("{:.1}", t0.elapsed().as_secs_f64()));
        let mut rng = ctx.rng();
        run_and_record(&mut ctx, &queue_capacity_case(3));
        for (conc, persistent) in [(1, true), (2, true), (1, false), (2, false)] {
            run_and_record(&mut ctx, &queue_full_disconnect_case(conc, persistent));
        }
        let n = ctx.size(1_500, 20_000);
        for i in 0..n {
            let input = gen_random(&mut rng, i % 4 == 0);
            run_and_record(&mut ctx, &input);
        }
    }
    ctx.note("exhaustive", exhaustive_note.join("; "));
    ctx.finish(
        "corpus witnesses; exhaustive enumeration (DFS over event schedules, modulo renaming of non-persistent peers and of \
         repositories, not extending steps that neither changed the observed state nor emitted anything) for the configurations \
         listed in notes.exhaustive; queue-capacity cases (131 queued fetches; a full queue behind 1-2 fetches in flight, then disconnect / reconnect / late result / drain, persistent and non-persistent peer); random schedules of 6-60 events over 2-3 peers, \
         1-3 repos, fetch_concurrency 1-3, optional persistent peer, already-cached refs variant, repositories missing from \
         storage (inventory announcements, sync task) and Wire-filtered worker results. The session shuffle order of \
         every dequeue is computed by the real code and passed to the model. non-trivial = at least one Io::Fetch was emitted; \
         distinct by resolved case text",
        false,
    );
}
