import HeartwoodModel.Model.Quorum
import HeartwoodModel.Lemmas.Quorum
/-!
# C03 — Canonical branch head is backed by the delegate threshold

Property theorems about `Model/Quorum.lean` (`Canonical::quorum`, as repaired by the `fix:` commit
"count one quorum vote per delegate for each canonical tip").

All theorems hold for **every** ancestry relation `le` that is a partial order (`PartialOrderB`), every
"has a common ancestor" relation `rel`, every list of `(delegate, tip)` entries and every threshold.
`tips` is the `BTreeMap<Did, Oid>` of the code, so delegates are pairwise distinct (`Nodup` of the first
components); this is only needed to read the number of supporting *entries* as a number of *distinct
delegates* (`supporters_distinct`).
-/
set_option linter.unusedSimpArgs false
set_option linter.unusedVariables false
namespace HeartwoodModel.Quorum

/-- The delegates whose tip is `c` or a descendant of `c`. -/
def supporters (le : Nat → Nat → Bool) (tips : List (Nat × Nat)) (c : Nat) : List Nat :=
  (tips.filter (fun p => le c p.2)).map (·.1)

/-- `c` is one of the tips and at least `t` delegates have it in their history. -/
def Supported (le : Nat → Nat → Bool) (tips : List (Nat × Nat)) (t c : Nat) : Prop :=
  c ∈ tips.map (·.2) ∧ t ≤ (supporters le tips c).length

/-- No pair of tips makes `git_merge_base` fail (all tips share history, the normal situation). -/
def AllRelated (le rel : Nat → Nat → Bool) (tips : List (Nat × Nat)) : Prop :=
  ∀ a ∈ tips.map (·.2), ∀ b ∈ tips.map (·.2), le a b = true ∨ le b a = true ∨ rel a b = true

/-- The supporters are pairwise distinct delegates, each of whose tip is `c` or descends from `c`. -/
theorem supporters_distinct (le : Nat → Nat → Bool) (tips : List (Nat × Nat)) (c : Nat)
    (hd : (tips.map (·.1)).Nodup) :
    (supporters le tips c).Nodup ∧
    ∀ d ∈ supporters le tips c, ∃ o, (d, o) ∈ tips ∧ le c o = true := by
  refine ⟨?_, ?_⟩
  · unfold supporters
    exact List.Nodup.sublist (List.Sublist.map _ List.filter_sublist) hd
  · intro d hdm
    unfold supporters at hdm
    obtain ⟨⟨d', o⟩, hm, rfl⟩ := List.mem_map.mp hdm
    simp only [List.mem_filter] at hm
    exact ⟨o, hm.1, hm.2⟩

/-- Structure of a run: phase one either fails with the git error or yields the exact vote table;
the candidates are exactly the supported tips. -/
theorem quorum_unfold (le rel : Nat → Nat → Bool) (po : PartialOrderB le) (tips : List (Nat × Nat))
    (t : Nat) :
    (∃ e, outer le rel (direct tips) (direct tips) = .error e ∧ quorum le rel tips t = .error e) ∨
    (∃ cands, outer le rel (direct tips) (direct tips) = .ok cands ∧
      (∀ c, c ∈ retained t cands ↔ Supported le tips t c) ∧
      quorum le rel tips t = phase2 le rel (retained t cands)) := by
  cases ho : outer le rel (direct tips) (direct tips) with
  | error e => exact Or.inl ⟨e, rfl, by simp [quorum, ho]⟩
  | ok cands =>
    refine Or.inr ⟨cands, rfl, ?_, by unfold quorum; simp only [ho]⟩
    obtain ⟨hs, hmem, hwt⟩ := phase1_votes le rel po tips cands ho
    intro c
    rw [mem_retained t cands hs c]
    unfold Supported supporters
    rw [List.length_map]
    constructor
    · rintro ⟨hk, ht⟩
      rw [hwt c hk] at ht
      exact ⟨(hmem c).mp hk, ht⟩
    · rintro ⟨hk, ht⟩
      have hk' := (hmem c).mpr hk
      rw [hwt c hk']
      exact ⟨hk', ht⟩

/-- **C03 (1).** A head that is returned is one of the tips, at least `t` distinct delegates have it in
their history (`supporters_distinct`), and every sufficiently supported tip is an ancestor of it or
equal to it — in particular no other sufficiently supported tip descends from it. -/
theorem quorum_ok_supported (le rel : Nat → Nat → Bool) (po : PartialOrderB le)
    (tips : List (Nat × Nat)) (t c : Nat) (h : quorum le rel tips t = .ok c) :
    c ∈ tips.map (·.2) ∧ t ≤ (supporters le tips c).length ∧
    (∀ c', Supported le tips t c' → le c' c = true) ∧
    (∀ c', Supported le tips t c' → le c c' = true → c' = c) := by
  rcases quorum_unfold le rel po tips t with ⟨e, _, he⟩ | ⟨cands, _, hret, hq⟩
  · rw [he] at h; simp at h
  · rw [hq] at h
    cases hr : retained t cands with
    | nil => simp [hr, phase2] at h
    | cons x xs =>
      simp only [hr, phase2] at h
      obtain ⟨f1, f2, f3⟩ := fold2_ok le rel po x xs c h
      have hall : ∀ c', Supported le tips t c' → le c' c = true := by
        intro c' hc'
        have : c' ∈ retained t cands := (hret c').mpr hc'
        rw [hr] at this
        rcases List.mem_cons.mp this with rfl | hm
        · exact f1
        · exact f2 c' hm
      have hc : Supported le tips t c := by
        apply (hret c).mp
        rw [hr]
        rcases f3 with rfl | f3
        · simp
        · simp [f3]
      exact ⟨hc.1, hc.2, hall, fun c' hc' hle => po.antisymm _ _ (hall c' hc') hle⟩

/-- **C03 (2).** When no tip has `t` distinct supporters, no head is returned: the result is the
`NoCandidates` error (or the git error, when two tips share no history at all). -/
theorem quorum_none_when_unsupported (le rel : Nat → Nat → Bool) (po : PartialOrderB le)
    (tips : List (Nat × Nat)) (t : Nat) (hno : ∀ c, ¬ Supported le tips t c) :
    quorum le rel tips t = .error .noCandidates ∨ quorum le rel tips t = .error .git := by
  rcases quorum_unfold le rel po tips t with ⟨e, ho, he⟩ | ⟨cands, _, hret, hq⟩
  · obtain ⟨rfl, _⟩ := outer_error le rel _ _ e ho
    exact Or.inr he
  · cases hr : retained t cands with
    | nil => left; rw [hq, hr]; rfl
    | cons x xs =>
      exact absurd ((hret x).mp (by simp [hr])) (hno x)

/-- `NoCandidates` is only ever returned when no tip is sufficiently supported. -/
theorem quorum_noCandidates_only (le rel : Nat → Nat → Bool) (po : PartialOrderB le)
    (tips : List (Nat × Nat)) (t : Nat) (h : quorum le rel tips t = .error .noCandidates) :
    ∀ c, ¬ Supported le tips t c := by
  rcases quorum_unfold le rel po tips t with ⟨e, ho, he⟩ | ⟨cands, _, hret, hq⟩
  · rw [he] at h
    obtain ⟨rfl, _⟩ := outer_error le rel _ _ e ho
    simp at h
  · intro c hc
    have hm := (hret c).mpr hc
    rw [hq] at h
    cases hr : retained t cands with
    | nil => rw [hr] at hm; simp at hm
    | cons x xs =>
      simp only [hr, phase2] at h
      rcases fold2_error le rel x xs _ h with ⟨e1, _⟩ | ⟨e1, _⟩ <;> simp at e1

/-- … and it is precisely `NoCandidates` when all tips are related. -/
theorem quorum_noCandidates_iff (le rel : Nat → Nat → Bool) (po : PartialOrderB le)
    (tips : List (Nat × Nat)) (t : Nat) (hrel : AllRelated le rel tips) :
    quorum le rel tips t = .error .noCandidates ↔ ∀ c, ¬ Supported le tips t c := by
  refine ⟨quorum_noCandidates_only le rel po tips t, fun hno => ?_⟩
  rcases quorum_none_when_unsupported le rel po tips t hno with h | h
  · exact h
  · have htot : ∃ c', outer le rel (direct tips) (direct tips) = .ok c' :=
      outer_total le rel _ _ (fun a ha b hb =>
        hrel a ((direct_mem tips a).mp ha) b ((direct_mem tips b).mp hb))
    rcases quorum_unfold le rel po tips t with ⟨e, ho, _⟩ | ⟨cands, _, hret, hq⟩
    · obtain ⟨c', hc'⟩ := htot; rw [hc'] at ho; simp at ho
    · cases hr : retained t cands with
      | nil => rw [hq, hr] at h; simp [phase2] at h
      | cons x xs => exact absurd ((hret x).mp (by simp [hr])) (hno x)

/-- **C03 (3).** When some tip is sufficiently supported but no sufficiently supported tip descends from
all of them (they are mutually divergent), an error is returned instead of a head — and the error is not
`NoCandidates`. -/
theorem quorum_error_when_divergent (le rel : Nat → Nat → Bool) (po : PartialOrderB le)
    (tips : List (Nat × Nat)) (t : Nat) (hsome : ∃ c, Supported le tips t c)
    (hdiv : ¬ ∃ m, Supported le tips t m ∧ ∀ c, Supported le tips t c → le c m = true) :
    quorum le rel tips t = .error .diverging ∨ quorum le rel tips t = .error .git := by
  cases hq : quorum le rel tips t with
  | ok c =>
    obtain ⟨h1, h2, h3, _⟩ := quorum_ok_supported le rel po tips t c hq
    exact absurd ⟨c, ⟨h1, h2⟩, h3⟩ hdiv
  | error e =>
    cases e with
    | diverging => exact Or.inl rfl
    | git => exact Or.inr rfl
    | noCandidates =>
      obtain ⟨c, hc⟩ := hsome
      exact absurd hc (quorum_noCandidates_only le rel po tips t hq c)

/-- The `Diverging` error is only returned when two sufficiently supported tips are incomparable;
the git error only when two tips have no common ancestor. -/
theorem quorum_error_reasons (le rel : Nat → Nat → Bool) (po : PartialOrderB le)
    (tips : List (Nat × Nat)) (t : Nat) :
    (quorum le rel tips t = .error .diverging →
      ∃ a b, Supported le tips t a ∧ Supported le tips t b ∧ le a b = false ∧ le b a = false) ∧
    (quorum le rel tips t = .error .git →
      ∃ a ∈ tips.map (·.2), ∃ b ∈ tips.map (·.2),
        le a b = false ∧ le b a = false ∧ rel a b = false) := by
  rcases quorum_unfold le rel po tips t with ⟨e, ho, he⟩ | ⟨cands, ho, hret, hq⟩
  · obtain ⟨rfl, a, ha, b, hb, hab⟩ := outer_error le rel _ _ e ho
    refine ⟨fun h => by rw [he] at h; simp at h, fun _ => ?_⟩
    exact ⟨a, (direct_mem tips a).mp ha, b, (direct_mem tips b).mp hb, hab⟩
  · cases hr : retained t cands with
    | nil => rw [hq, hr]; simp [phase2]
    | cons x xs =>
      rw [hq, hr]
      simp only [phase2]
      have hsup : ∀ y, y ∈ x :: xs → Supported le tips t y := fun y hy => (hret y).mp (hr ▸ hy)
      constructor
      · intro h
        rcases fold2_error le rel x xs _ h with ⟨_, a, ha, b, hb, hab⟩ | ⟨e1, _⟩
        · exact ⟨a, b, hsup a ha, hsup b hb, hab⟩
        · simp at e1
      · intro h
        rcases fold2_error le rel x xs _ h with ⟨e1, _⟩ | ⟨_, a, ha, b, hb, hab⟩
        · simp at e1
        · exact ⟨a, (hsup a ha).1, b, (hsup b hb).1, hab⟩

/-- Conversely (liveness): when all tips are related and the sufficiently supported tips form a
non-empty chain, a head *is* returned. -/
theorem quorum_ok_when_chain (le rel : Nat → Nat → Bool) (po : PartialOrderB le)
    (tips : List (Nat × Nat)) (t : Nat) (hrel : AllRelated le rel tips)
    (hsome : ∃ c, Supported le tips t c)
    (hch : ∀ a b, Supported le tips t a → Supported le tips t b → le a b = true ∨ le b a = true) :
    ∃ c, quorum le rel tips t = .ok c := by
  have htot : ∃ c', outer le rel (direct tips) (direct tips) = .ok c' :=
    outer_total le rel _ _ (fun a ha b hb =>
      hrel a ((direct_mem tips a).mp ha) b ((direct_mem tips b).mp hb))
  rcases quorum_unfold le rel po tips t with ⟨e, ho, _⟩ | ⟨cands, _, hret, hq⟩
  · obtain ⟨c', hc'⟩ := htot; rw [hc'] at ho; simp at ho
  · obtain ⟨c, hc⟩ := hsome
    have hm := (hret c).mpr hc
    cases hr : retained t cands with
    | nil => rw [hr] at hm; simp at hm
    | cons x xs =>
      rw [hq, hr]
      simp only [phase2]
      exact fold2_chain le rel x xs (fun a ha b hb =>
        hch a b ((hret a).mp (hr ▸ ha)) ((hret b).mp (hr ▸ hb)))

/-! ### Non-vacuity and the pre-fix witness

Commits `0` (root), `1 = A` (child of 0), `2 = B` (child of A), `3 = C` (child of 0, sibling of A). -/

def le0 (a b : Nat) : Bool := a == b || a == 0 || (a == 1 && b == 2)
def rel0 (_ _ : Nat) : Bool := true

theorem le0_partialOrder : PartialOrderB le0 := by
  refine ⟨?_, ?_, ?_⟩
  · intro a; simp [le0]
  · intro a b c h1 h2
    simp only [le0, Bool.or_eq_true, Bool.and_eq_true, beq_iff_eq] at h1 h2 ⊢
    omega
  · intro a b h1 h2
    simp only [le0, Bool.or_eq_true, Bool.and_eq_true, beq_iff_eq] at h1 h2
    omega

/-- The pre-fix witness `d1:A d2:A d3:B d4:C`: with threshold 4 the repaired code returns no head
(the unrepaired code returned `A`), with threshold 3 it returns `A`, with threshold 1 `B` and `C` are
both supported and divergent. -/
example : quorum le0 rel0 [(1, 1), (2, 1), (3, 2), (4, 3)] 4 = .error .noCandidates := by rfl
example : quorum le0 rel0 [(1, 1), (2, 1), (3, 2), (4, 3)] 3 = .ok 1 := by rfl
example : quorum le0 rel0 [(1, 1), (2, 1), (3, 2), (4, 3)] 1 = .error .diverging := by rfl
example : (supporters le0 [(1, 1), (2, 1), (3, 2), (4, 3)] 1).length = 3 := by decide
/-- two unrelated roots -/
example : quorum (fun a b => a == b) (fun _ _ => false) [(1, 5), (2, 6)] 1 = .error .git := by rfl

end HeartwoodModel.Quorum
