import HeartwoodModel.Model.Thread
/-!
# Model of `crates/radicle/src/cob/issue.rs` (`Issue::authorization`, `op_action`, `action`, `op`, `from_root`)

Import-free (only `Model/Thread.lean`). One Lean arm per Rust `match` arm.

* `Op.doc` — the identity document `op.identity_doc(repo)` resolved to (`none` = no `resource`).
* A title is a token plus a kind: `0` plain, otherwise the string contains `'\n'` / `'\r'` (rejected).
* Projection: reactions, embeds, timestamps dropped.
* `Issue::author()` / `Issue::root()` `expect` a live comment: modelled as the `panic` outcome.
-/
namespace HeartwoodModel.Issue
open HeartwoodModel.Cob

inductive IState
  | opened
  | closed (solved : Bool)
  deriving DecidableEq, Repr

structure Issue where
  assignees : List Actor
  title : Nat
  state : IState
  labels : List Nat
  thread : Thread
  deriving DecidableEq, Repr

inductive Action
  | assign (assignees : List Actor)
  | edit (title : Nat) (kind : Nat)
  | lifecycle (state : IState)
  | label (labels : List Nat)
  | comment (body : Nat) (replyTo : Option Id)
  | commentEdit (id : Id) (body : Nat)
  | commentRedact (id : Id)
  | commentReact (id : Id)
  deriving DecidableEq, Repr

structure Op where
  id : Id
  author : Actor
  doc : Option Doc
  actions : List Action
  deriving DecidableEq, Repr

/-- `Issue::author`: author of the first live comment (`none` = the `expect` panics). -/
def Issue.author (i : Issue) : Option Actor := i.thread.firstLive.map (·.2.author)

/-- `Issue::authorization`. -/
def authorization (i : Issue) (a : Action) (actor : Actor) (doc : Doc) : Except Err Auth :=
  if doc.isDelegate actor then .ok .allow
  else
    match i.author with
    | none => .error .panic
    | some author =>
      match a with
      | .assign assignees => .ok (if canon assignees = i.assignees then .allow else .deny)
      | .edit _ _ => .ok (Auth.ofBool (actor = author))
      | .lifecycle _ => .ok (Auth.ofBool (actor = author))
      | .label labels => .ok (if canon labels = i.labels then .allow else .deny)
      | .comment _ _ => .ok .allow
      | .commentEdit id _ | .commentRedact id =>
        match get? id i.thread.comments with
        | some (some c) => .ok (Auth.ofBool (actor = c.author))
        | some none => .ok .unknown
        | none => .error .missing
      | .commentReact _ => .ok .allow

def liftThread (i : Issue) (r : Except Err Thread) : Except Err Issue :=
  match r with
  | .ok t => .ok { i with thread := t }
  | .error e => .error e

/-- `Issue::action`. -/
def action (i : Issue) (a : Action) (entry : Id) (author : Actor) : Except Err Issue :=
  match a with
  | .assign assignees => .ok { i with assignees := canon assignees }
  | .edit title kind => if kind = 0 then .ok { i with title := title } else .error .invalidTitle
  | .lifecycle state => .ok { i with state := state }
  | .label labels => .ok { i with labels := canon labels }
  | .comment body replyTo => liftThread i (i.thread.comment entry author body replyTo)
  | .commentEdit id body => liftThread i (i.thread.edit entry author id body)
  | .commentRedact id =>
    match i.thread.firstLive with
    | none => .error .panic
    | some (root, _) =>
      if id = root then .error .notAllowed else liftThread i (i.thread.redact entry id)
  | .commentReact id => liftThread i (i.thread.react entry id)

/-- `Issue::op_action`. -/
def opAction (i : Issue) (a : Action) (entry : Id) (author : Actor) (doc : Doc) : Except Err Issue :=
  match authorization i a author doc with
  | .error e => .error e
  | .ok .allow => action i a entry author
  | .ok .deny => .error .notAuthorized
  | .ok .unknown => .ok i

def applyActions (entry : Id) (author : Actor) (doc : Doc) : Issue → List Action → Except Err Issue
  | i, [] => .ok i
  | i, a :: as =>
    match opAction i a entry author doc with
    | .ok i' => applyActions entry author doc i' as
    | .error e => .error e

/-- `Issue::op` (atomic). -/
def op (i : Issue) (o : Op) : Except Err Issue :=
  match o.doc with
  | none => .error .missingIdentity
  | some doc => applyActions o.id o.author doc i o.actions

/-- The loop of `from_root` over the remaining actions (`Unknown` ⇒ `continue`). -/
def rootActions (entry : Id) (author : Actor) (doc : Doc) : Issue → List Action → Except Err Issue
  | i, [] => .ok i
  | i, a :: as =>
    match authorization i a author doc with
    | .error e => .error e
    | .ok .allow =>
      match action i a entry author with
      | .ok i' => rootActions entry author doc i' as
      | .error e => .error e
    | .ok .deny => .error .notAuthorized
    | .ok .unknown => rootActions entry author doc i as

/-- `Issue::from_root` (the first comment is stored without the empty-body check of `thread::comment`). -/
def fromRoot (o : Op) : Except Err Issue :=
  match o.doc with
  | none => .error .missingIdentity
  | some doc =>
    match o.actions with
    | .comment body none :: rest =>
      let c : Comment := { author := o.author, edits := [(o.author, body)], replyTo := none, resolved := false }
      let i : Issue := { assignees := [], title := 0, state := .opened, labels := [],
                         thread := { comments := [(o.id, some c)], timeline := [o.id] } }
      rootActions o.id o.author doc i rest
    | _ => .error .init

/-- `Evaluate::apply` as `S → Entry → Option S`. -/
def apply (i : Issue) (o : Op) : Option Issue :=
  match op i o with
  | .ok i' => some i'
  | .error _ => none

/-- One evaluator step: a rejected entry is pruned and leaves the state unchanged. -/
def step (i : Issue) (o : Op) : Issue :=
  match op i o with
  | .ok i' => i'
  | .error _ => i

def eval (i : Issue) (ops : List Op) : Issue := ops.foldl step i

end HeartwoodModel.Issue
