/-!
# Model of the SSH agent client response parsers and the SSH wire encoding of keys (C27)

Sources modelled (as they are on `/repo` main, i.e. *with* `fix: ssh: don't panic on malformed agent
responses`):

* `crates/radicle-ssh/src/encoding.rs` — `Cursor::{read_u32, read_string, read_byte}`, `Reader::reader`,
  `Encoding::{extend_ssh_string, extend_u32}` for `Vec<u8>`;
* `crates/radicle-ssh/src/agent/client.rs` — the response halves of `request_identities`, `sign`
  (+ private `read_signature`) and `query_extension`;
* `crates/radicle-crypto/src/ssh.rs` — `Encodable` for `PublicKey`, `Signature`, `SecretKey`
  (with `ec25519`'s `from_slice` constructors they call).

Every place where the Rust indexes, slices, calls `BigEndian::read_u32` on a slice or
`copy_from_slice` is an explicit primitive below that returns `.panic site` when its Rust
precondition fails. The guards the Rust code puts in front of them are modelled as written; that no
input reaches a `.panic` is what `Props/C27.lean` proves.

`usize` is 64 bit: `position + len` (with `len < 2^32` and `position ≤ isize::MAX`) cannot overflow, so
offsets are unbounded `Nat`s. Keys and signatures are their raw bytes (`[u8; 32]`, `[u8; 64]`).
-/
namespace HeartwoodModel.Ssh

abbrev Bytes := List UInt8

/-- Error classes of the code (`encoding::Error::IndexOutOfBounds`, `Error::AgentProtocolError`,
`Error::AgentFailure`, `…::UnknownAlgorithm`, `ed25519::Error::Invalid…`, `SecretKeyError::Mismatch`). -/
inductive Err where
  | oob | protocol | failure | unknownAlg | invalid | mismatch
  deriving Repr, DecidableEq

/-- Outcome of running a piece of the Rust code. -/
inductive Res (α : Type) where
  | ok (a : α)
  | err (e : Err)
  | panic (site : String)
  deriving Repr, DecidableEq

def Res.bind {α β : Type} : Res α → (α → Res β) → Res β
  | .ok a, f => f a
  | .err e, _ => .err e
  | .panic s, _ => .panic s

instance : Monad Res where
  pure := .ok
  bind := Res.bind

/-! ## Primitives that panic in Rust when their precondition fails -/

/-- `&s[i..]` -/
def sliceFrom (s : Bytes) (i : Nat) : Res Bytes :=
  if i ≤ s.length then .ok (s.drop i) else .panic "slice-start-out-of-range"

/-- `&s[i..j]` -/
def slice (s : Bytes) (i j : Nat) : Res Bytes :=
  if j < i then .panic "slice-index-order"
  else if s.length < j then .panic "slice-end-out-of-range"
  else .ok ((s.drop i).take (j - i))

/-- `s[i]` -/
def index (s : Bytes) (i : Nat) : Res UInt8 :=
  match s[i]? with
  | some b => .ok b
  | none => .panic "index-out-of-bounds"

/-- `BigEndian::read_u32(buf)`: panics when `buf.len() < 4`. -/
def beU32 : Bytes → Res Nat
  | a :: b :: c :: d :: _ => .ok (a.toNat * 16777216 + b.toNat * 65536 + c.toNat * 256 + d.toNat)
  | _ => .panic "read_u32-short-slice"

/-- `dst.copy_from_slice(src)` for `dst : [u8; n]`: panics when the lengths differ. -/
def copyFromSlice (n : Nat) (src : Bytes) : Res Bytes :=
  if src.length = n then .ok src else .panic "copy_from_slice-length-mismatch"

/-! ## `Cursor` -/

structure Cursor where
  s : Bytes
  pos : Nat
  deriving Repr, DecidableEq

/-- `Reader::reader(starting_at)` -/
def reader (s : Bytes) (startingAt : Nat) : Cursor := ⟨s, startingAt⟩

/-- `Cursor::read_u32` -/
def Cursor.readU32 (c : Cursor) : Res (Nat × Cursor) :=
  if c.pos + 4 ≤ c.s.length then do
    let tail ← sliceFrom c.s c.pos
    let u ← beU32 tail
    pure (u, { c with pos := c.pos + 4 })
  else .err .oob

/-- `Cursor::read_string` -/
def Cursor.readString (c : Cursor) : Res (Bytes × Cursor) := do
  let (len, c) ← c.readU32
  if c.pos + len ≤ c.s.length then do
    let r ← slice c.s c.pos (c.pos + len)
    pure (r, { c with pos := c.pos + len })
  else .err .oob

/-- `Cursor::read_byte` -/
def Cursor.readByte (c : Cursor) : Res (UInt8 × Cursor) :=
  if c.pos < c.s.length then do
    let u ← index c.s c.pos
    pure (u, { c with pos := c.pos + 1 })
  else .err .oob

/-! ## Writers (`Encoding for Vec<u8>`) -/

/-- `write_u32::<BigEndian>(n as u32)`; the `as u32` cast truncates. -/
def u32be (n : Nat) : Bytes :=
  [UInt8.ofNat (n / 16777216 % 256), UInt8.ofNat (n / 65536 % 256), UInt8.ofNat (n / 256 % 256),
   UInt8.ofNat (n % 256)]

/-- `extend_ssh_string(s)` appended to an empty buffer. -/
def sshString (s : Bytes) : Bytes := u32be s.length ++ s

/-- `b"ssh-ed25519"` -/
def sshEd25519 : Bytes := [115, 115, 104, 45, 101, 100, 50, 53, 53, 49, 57]

/-- `b"radicle"` (comment written by `SecretKey::write`) -/
def radicleComment : Bytes := [114, 97, 100, 105, 99, 108, 101]

/-! ## `Encodable` for `PublicKey`, `Signature`, `SecretKey` -/

/-- `ec25519::{PublicKey, SecretKey, Signature}::from_slice`: length check, then `copy_from_slice`. -/
def fromSlice (n : Nat) (s : Bytes) : Res Bytes :=
  if s.length ≠ n then .err .invalid else copyFromSlice n s

/-- `<PublicKey as Encodable>::write` -/
def pkWrite (pk : Bytes) : Bytes := sshString (sshString sshEd25519 ++ sshString pk)

/-- `<PublicKey as Encodable>::read` -/
def pkRead (c : Cursor) : Res (Bytes × Cursor) := do
  let (t, c) ← c.readString
  if t = sshEd25519 then do
    let (s, c) ← c.readString
    let p ← fromSlice 32 s
    pure (p, c)
  else .err .unknownAlg

/-- `<Signature as Encodable>::write` -/
def sigWrite (sig : Bytes) : Bytes := sshString (sshString sshEd25519 ++ sshString sig)

/-- `<Signature as Encodable>::read` -/
def sigRead (c : Cursor) : Res (Bytes × Cursor) := do
  let (buf, c) ← c.readString
  let inner := reader buf 0
  let (t, inner) ← inner.readString
  if t ≠ sshEd25519 then .err .unknownAlg
  else do
    let (s, _) ← inner.readString
    let sig ← fromSlice 64 s
    pure (sig, c)

/-- `ed25519::SecretKey::public_key`: the last 32 of the 64 bytes. -/
def skPublic (sk : Bytes) : Bytes := sk.drop 32

/-- `<SecretKey as Encodable>::write` -/
def skWrite (sk : Bytes) : Bytes :=
  sshString sshEd25519 ++ sshString (skPublic sk) ++ sshString sk ++ sshString radicleComment

/-- `<SecretKey as Encodable>::read` -/
def skRead (c : Cursor) : Res (Bytes × Cursor) := do
  let (t, c) ← c.readString
  if t = sshEd25519 then do
    let (pub, c) ← c.readString
    let (pair, c) ← c.readString
    let (_, c) ← c.readString
    let key ← fromSlice 64 pair
    if pub ≠ skPublic key then .err .mismatch
    else pure (key, c)
  else .err .unknownAlg

/-! ## `AgentClient` response parsing -/

def msgFailure : UInt8 := 5
def msgSuccess : UInt8 := 6
def msgIdentitiesAnswer : UInt8 := 12
def msgSignResponse : UInt8 := 14

/-- The `for _ in 0..n` loop of `request_identities::<PublicKey>`. A key blob that does not parse is
skipped (`if let Ok(pk) = K::read(..)`); a framing error aborts (`?`). -/
def identLoop : Nat → Cursor → List Bytes → Res (List Bytes)
  | 0, _, keys => .ok keys
  | n + 1, r, keys => do
    let (key, r) ← r.readString
    let (_, r) ← r.readString
    match pkRead (reader key 0) with
    | .ok (pk, _) => identLoop n r (keys ++ [pk])
    | .err _ => identLoop n r keys
    | .panic s => .panic s

/-- `AgentClient::request_identities::<PublicKey>`, from the response buffer on. -/
def requestIdentities (resp : Bytes) : Res (List Bytes) :=
  if resp.head? = some msgIdentitiesAnswer then do
    let (n, r) ← (reader resp 1).readU32
    identLoop n r []
  else .ok []

/-- `AgentClient::read_signature` -/
def readSignature (resp : Bytes) : Res Bytes := do
  let r := reader resp 1
  let (body, _) ← r.readString
  let inner := reader body 0
  let (_, inner) ← inner.readString
  let (sig, _) ← inner.readString
  if sig.length ≠ 64 then .err .protocol
  else copyFromSlice 64 sig

/-- `AgentClient::sign`, from the response buffer on (`resp[0]` is an index expression). -/
def sign (resp : Bytes) : Res Bytes :=
  if resp.isEmpty then .err .protocol
  else do
    let b ← index resp 0
    if b = msgSignResponse then readSignature resp
    else do
      let b ← index resp 0
      if b = msgFailure then .err .failure else .err .protocol

/-- `AgentClient::query_extension`, from the response buffer on. -/
def queryExtension (resp : Bytes) : Res Bool := do
  let r := reader resp 1
  let (_, _) ← r.readString
  if resp.isEmpty then pure false
  else do
    let b ← index resp 0
    pure (b = msgSuccess)

/-- `SSH_AGENT_IDENTITIES_ANSWER` as an agent produces it for the given `(key, comment)` list, written
with the code's own writers (`extend_u32`, `PublicKey::write`, `extend_ssh_string`). -/
def identitiesAnswer (ids : List (Bytes × Bytes)) : Bytes :=
  msgIdentitiesAnswer :: u32be ids.length ++
    (ids.map fun (pk, comment) => pkWrite pk ++ sshString comment).flatten

end HeartwoodModel.Ssh
