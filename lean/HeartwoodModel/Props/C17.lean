import HeartwoodModel.Model.Limiter
/-!
# C17 — Rate limiting admits at most capacity plus refill

Property theorems about `Model/Limiter.lean`. Units: `den` units = 1 token; `num/den` = refill rate.
-/
namespace HeartwoodModel.Limiter

/-! ### single step -/

theorem take_spec {b b' : Bucket} {now : Nat} {a : Bool} (h : b.take now = some (b', a)) :
    b.refilledAt ≤ now ∧ b'.refilledAt = now ∧ b'.num = b.num ∧ b'.den = b.den ∧ b'.cap = b.cap ∧
    (if a then b.den else 0) + b'.tokens ≤ b.tokens + b.num * ((now - b.refilledAt) / 1000) ∧
    (if a then b.den else 0) + b'.tokens ≤ b.cap * b.den := by
  unfold Bucket.take at h
  split at h
  · simp at h
  · rename_i hlt
    simp only at h
    rw [Nat.mul_comm b.num]
    split at h <;> (
      simp only [Option.some.injEq, Prod.mk.injEq] at h
      obtain ⟨rfl, rfl⟩ := h
      simp only [if_true, Bool.false_eq_true, if_false]
      and_intros <;> first | rfl | trivial | omega)

/-- The clock going backwards is the only way `take` fails (the real code panics there). -/
theorem take_none_iff (b : Bucket) (now : Nat) : b.take now = none ↔ now < b.refilledAt := by
  unfold Bucket.take
  split
  · simp [*]
  · simp only [*, iff_false]; split <;> simp

/-! ### runs -/

theorem run_append {b : Bucket} {xs ys : List Nat} {bE : Bucket} {outs : List Bool}
    (h : b.run (xs ++ ys) = some (bE, outs)) :
    ∃ b1 o1 o2, b.run xs = some (b1, o1) ∧ b1.run ys = some (bE, o2) ∧ outs = o1 ++ o2 ∧
      o1.length = xs.length := by
  induction xs generalizing b outs with
  | nil => exact ⟨b, [], outs, rfl, h, rfl, rfl⟩
  | cons x xs ih =>
    simp only [List.cons_append, Bucket.run] at h
    cases ht : b.take x with
    | none => simp [ht] at h
    | some r =>
      obtain ⟨b', a⟩ := r
      simp only [ht] at h
      cases hr : b'.run (xs ++ ys) with
      | none => simp [hr] at h
      | some r2 =>
        obtain ⟨b2, as⟩ := r2
        simp only [hr, Option.some.injEq, Prod.mk.injEq] at h
        obtain ⟨rfl, rfl⟩ := h
        obtain ⟨b1, o1, o2, h1, h2, rfl, hl⟩ := ih hr
        refine ⟨b1, a :: o1, o2, ?_, h2, rfl, by simp [hl]⟩
        simp [Bucket.run, ht, h1]

/-- Potential argument: admitted tokens plus what is left is bounded by what was there plus the refill
for the whole seconds elapsed. Also: parameters are constant and the refill time is monotone. -/
theorem run_potential {b bE : Bucket} {ts : List Nat} {outs : List Bool}
    (h : b.run ts = some (bE, outs)) :
    b.refilledAt ≤ bE.refilledAt ∧ bE.num = b.num ∧ bE.den = b.den ∧ bE.cap = b.cap ∧
    admitted outs * b.den + bE.tokens ≤ b.tokens + b.num * ((bE.refilledAt - b.refilledAt) / 1000) := by
  induction ts generalizing b outs with
  | nil =>
    simp only [Bucket.run, Option.some.injEq, Prod.mk.injEq] at h
    obtain ⟨rfl, rfl⟩ := h
    simp [admitted]
  | cons t ts ih =>
    simp only [Bucket.run] at h
    cases ht : b.take t with
    | none => simp [ht] at h
    | some r =>
      obtain ⟨b', a⟩ := r
      simp only [ht] at h
      cases hr : b'.run ts with
      | none => simp [hr] at h
      | some r2 =>
        obtain ⟨b2, as⟩ := r2
        simp only [hr, Option.some.injEq, Prod.mk.injEq] at h
        obtain ⟨rfl, rfl⟩ := h
        obtain ⟨h1, h2, h3, h4, h5, h6, _⟩ := take_spec ht
        obtain ⟨i1, i2, i3, i4, i5⟩ := ih hr
        refine ⟨by omega, by omega, by omega, by omega, ?_⟩
        rw [h3, h4] at i5
        have hfloor : (b'.refilledAt - b.refilledAt) / 1000 + (b2.refilledAt - b'.refilledAt) / 1000
            ≤ (b2.refilledAt - b.refilledAt) / 1000 := by omega
        have hmul := Nat.mul_le_mul_left b.num hfloor
        rw [Nat.mul_add] at hmul
        rw [h2] at hmul i5
        have hadm : admitted (a :: as) * b.den = (if a then b.den else 0) + admitted as * b.den := by
          cases a <;> simp [admitted, Nat.add_mul, Nat.add_comm]
        rw [hadm]
        omega

/-- A successful run means the timeline was monotone (never before the last refill). -/
theorem run_some_monotone {b bE : Bucket} {ts : List Nat} {outs : List Bool}
    (h : b.run ts = some (bE, outs)) : (b.refilledAt :: ts).Pairwise (· ≤ ·) ∧
      bE.refilledAt = (b.refilledAt :: ts).getLast (by simp) := by
  induction ts generalizing b outs with
  | nil =>
    simp only [Bucket.run, Option.some.injEq, Prod.mk.injEq] at h
    obtain ⟨rfl, rfl⟩ := h
    simp
  | cons t ts ih =>
    simp only [Bucket.run] at h
    cases ht : b.take t with
    | none => simp [ht] at h
    | some r =>
      obtain ⟨b', a⟩ := r
      simp only [ht] at h
      cases hr : b'.run ts with
      | none => simp [hr] at h
      | some r2 =>
        obtain ⟨b2, as⟩ := r2
        simp only [hr, Option.some.injEq, Prod.mk.injEq] at h
        obtain ⟨rfl, rfl⟩ := h
        obtain ⟨h1, h2, _⟩ := take_spec ht
        obtain ⟨i1, i2⟩ := ih hr
        rw [h2] at i1 i2
        refine ⟨?_, ?_⟩
        · rw [List.pairwise_cons]
          refine ⟨?_, i1⟩
          intro x hx
          rw [List.pairwise_cons] at i1
          rcases List.mem_cons.mp hx with rfl | hx
          · exact h1
          · exact Nat.le_trans h1 (i1.1 x hx)
        · rw [i2]; simp [List.getLast_cons]

/-! ### the property -/

/-- **C17, window bound.** For every bucket state, every timeline `pre ++ t :: win ++ post` on which
the code does not panic, the requests admitted in the window that starts with the request at `t` and
ends with the last request of `win` number at most `cap + rate * ⌊(t_last - t)/1s⌋`; in units of
`1/den`: `admitted * den ≤ cap * den + num * ((t_last - t) / 1000)`. -/
theorem window_bound (b0 bE : Bucket) (pre : List Nat) (t : Nat) (win post : List Nat)
    (outs : List Bool) (h : b0.run (pre ++ (t :: win) ++ post) = some (bE, outs)) :
    admitted ((outs.drop pre.length).take (win.length + 1)) * b0.den
      ≤ b0.cap * b0.den + b0.num * (((t :: win).getLast (by simp) - t) / 1000) := by
  obtain ⟨b2, o12, o3, h12, _, rfl, hl12⟩ := run_append h
  obtain ⟨b1, o1, o2, h1, h2, rfl, hl1⟩ := run_append h12
  have hl2 : o2.length = win.length + 1 := by
    simp only [List.length_append, List.length_cons] at hl12; omega
  have hsel : ((o1 ++ o2 ++ o3).drop pre.length).take (win.length + 1) = o2 := by
    rw [List.append_assoc, ← hl1, List.drop_left, ← hl2, List.take_left]
  rw [hsel]
  obtain ⟨_, p2, p3, p4, _⟩ := run_potential h1
  -- first request of the window
  simp only [Bucket.run] at h2
  cases ht : b1.take t with
  | none => simp [ht] at h2
  | some r =>
    obtain ⟨b', a⟩ := r
    simp only [ht] at h2
    cases hr : b'.run win with
    | none => simp [hr] at h2
    | some r2 =>
      obtain ⟨bw, as⟩ := r2
      simp only [hr, Option.some.injEq, Prod.mk.injEq] at h2
      obtain ⟨rfl, rfl⟩ := h2
      obtain ⟨_, s2, s3, s4, s5, _, s7⟩ := take_spec ht
      obtain ⟨_, _, _, _, q5⟩ := run_potential hr
      obtain ⟨_, m2⟩ := run_some_monotone hr
      rw [s2] at m2
      rw [s2, s3, s4, m2] at q5
      rw [p3, p4] at s7
      rw [p2, p3] at q5
      have hadm : admitted (a :: as) * b0.den = (if a then b0.den else 0) + admitted as * b0.den := by
        cases a <;> simp [admitted, Nat.add_mul, Nat.add_comm]
      rw [hadm]
      omega

/-- Tokens never exceed the capacity once a request has been processed. -/
theorem tokens_le_capacity {b b' : Bucket} {now : Nat} {a : Bool} (h : b.take now = some (b', a)) :
    b'.tokens ≤ b'.cap * b'.den := by
  obtain ⟨_, _, _, h4, h5, _, h7⟩ := take_spec h
  rw [h4, h5]; omega

/-- Non-vacuity: capacity 3, rate 1/5 token per second (the repository's own test timeline). -/
example : (Bucket.new 3 1 5 0).run [0, 1000, 2000, 3000, 4000, 5000] =
    some ({ num := 1, den := 5, cap := 3, tokens := 0, refilledAt := 5000 },
      [true, true, true, false, false, true]) := by decide

/-! ### `RateLimiter::limit` -/

/-- **C17, bypass.** A node on the bypass list is never limited, and no state changes. -/
theorem bypass_never_limited (l : Limiter) (r : Req) (n : Nat) (hn : r.nid = some n)
    (hb : n ∈ l.bypass) : l.limit r = some (l, false) := by
  simp [Limiter.limit, Limiter.bypassed, hn, hb]

/-- **C17, non-routable.** A non-routable IP address is never limited, and no state changes. -/
theorem unroutable_never_limited (l : Limiter) (r : Req) (hip : r.isIp = true)
    (hr : r.routable = false) : l.limit r = some (l, false) := by
  unfold Limiter.limit
  split
  · rfl
  · simp [hip, hr]

theorem lookup_insert_self (h : Nat) (b : Bucket) (m : List (Nat × Bucket)) :
    lookup h (insert h b m) = some b := by
  induction m with
  | nil => simp [insert, lookup]
  | cons kv m ih =>
    obtain ⟨k, v⟩ := kv
    by_cases hk : k = h <;> simp [insert, lookup, hk, ih]

theorem lookup_insert_other (h h' : Nat) (b : Bucket) (m : List (Nat × Bucket)) (hne : h' ≠ h) :
    lookup h' (insert h b m) = lookup h' m := by
  induction m with
  | nil =>
    have : ¬ h = h' := fun e => hne e.symm
    simp [insert, lookup, this]
  | cons kv m ih =>
    obtain ⟨k, v⟩ := kv
    by_cases hk : k = h
    · subst hk
      have : ¬ k = h' := fun e => hne e.symm
      simp [insert, lookup, this]
    · by_cases hk' : k = h'
      · subst hk'
        simp [insert, lookup, hk]
      · simp [insert, lookup, hk, hk', ih]

/-- What one `limit` call does. -/
theorem limit_step {l l' : Limiter} {r : Req} {a : Bool} (h : l.limit r = some (l', a)) :
    l'.bypass = l.bypass ∧
    (l.metered r = false → l' = l ∧ a = false) ∧
    (l.metered r = true → ∃ b', (l.cur r).take r.now = some (b', !a) ∧
      lookup r.host l'.buckets = some b' ∧
      ∀ h', h' ≠ r.host → lookup h' l'.buckets = lookup h' l.buckets) := by
  unfold Limiter.limit at h
  by_cases h1 : l.bypassed r.nid = true
  · simp only [h1, if_true, Option.some.injEq, Prod.mk.injEq] at h
    obtain ⟨rfl, rfl⟩ := h
    simp [Limiter.metered, h1]
  · by_cases h2 : (r.isIp && !r.routable) = true
    · simp only [h1, h2, if_true, Option.some.injEq, Prod.mk.injEq] at h
      obtain ⟨rfl, rfl⟩ := h
      simp [Limiter.metered, h2]
    · simp only [h1, h2] at h
      cases ht : (l.cur r).take r.now with
      | none => simp [ht] at h
      | some p =>
        obtain ⟨b', took⟩ := p
        simp only [ht, Bool.false_eq_true, if_false, Option.some.injEq, Prod.mk.injEq] at h
        obtain ⟨rfl, rfl⟩ := h
        have hm : l.metered r = true := by
          simp only [Bool.not_eq_true] at h1 h2
          simp [Limiter.metered, h1, h2]
        refine ⟨rfl, by simp [hm], fun _ => ⟨b', by simp, lookup_insert_self _ _ _, ?_⟩⟩
        intro h' hne
        exact lookup_insert_other _ _ _ _ hne

/-- Is `r` a metered request of host `h`? -/
def Limiter.mine (l : Limiter) (h : Nat) (r : Req) : Bool := l.metered r && decide (r.host = h)

/-- The times of the metered requests for host `h`. -/
def hostTimeline (l : Limiter) (h : Nat) (rs : List Req) : List Nat :=
  (rs.filter (l.mine h)).map (·.now)

/-- The decisions for the metered requests of host `h`, as "admitted" flags. -/
def hostAdmitted (l : Limiter) (h : Nat) : List Req → List Bool → List Bool
  | r :: rs, a :: as =>
    if l.mine h r then (!a) :: hostAdmitted l h rs as else hostAdmitted l h rs as
  | _, _ => []

/-- The bucket that serves host `h` during `rs`: the stored one, else the one its first metered
request creates. -/
def startBucket (l : Limiter) (h : Nat) (rs : List Req) : Option Bucket :=
  match lookup h l.buckets with
  | some b => some b
  | none => (rs.find? (l.mine h)).map (fun r0 => Bucket.new r0.cap r0.num r0.den r0.now)

theorem mine_congr {l l' : Limiter} (hb : l'.bypass = l.bypass) (h : Nat) : l'.mine h = l.mine h := by
  funext r; simp [Limiter.mine, Limiter.metered, Limiter.bypassed, hb]

theorem hostAdmitted_congr {l l' : Limiter} (hb : l'.bypass = l.bypass) (h : Nat) (rs : List Req)
    (o : List Bool) : hostAdmitted l' h rs o = hostAdmitted l h rs o := by
  induction rs generalizing o with
  | nil => simp [hostAdmitted]
  | cons x xs ih =>
    cases o with
    | nil => simp [hostAdmitted]
    | cons y ys => simp [hostAdmitted, mine_congr hb, ih]

/-- **C17, refinement.** Running any sequence of `limit` calls (any mix of hosts, bypassed and
non-routable requests) treats host `h` exactly like a single token bucket fed with the timeline of
`h`'s metered requests: same admissions. Hence `window_bound` applies to every host. -/
theorem limiter_refines_bucket (l lE : Limiter) (rs : List Req) (outs : List Bool) (h : Nat)
    (hrun : l.run rs = some (lE, outs)) :
    match startBucket l h rs with
    | some b =>
      ∃ bE, b.run (hostTimeline l h rs) = some (bE, hostAdmitted l h rs outs) ∧
        lookup h lE.buckets = some bE
    | none => hostAdmitted l h rs outs = [] ∧ lookup h lE.buckets = none := by
  induction rs generalizing l outs with
  | nil =>
    simp only [Limiter.run, Option.some.injEq, Prod.mk.injEq] at hrun
    obtain ⟨rfl, rfl⟩ := hrun
    cases hl : lookup h l.buckets <;> simp [startBucket, hostTimeline, hostAdmitted, Bucket.run, hl]
  | cons r rs ih =>
    simp only [Limiter.run] at hrun
    cases hlim : l.limit r with
    | none => simp [hlim] at hrun
    | some p =>
      obtain ⟨l1, a⟩ := p
      simp only [hlim] at hrun
      cases hr : l1.run rs with
      | none => simp [hr] at hrun
      | some p2 =>
        obtain ⟨l2, as⟩ := p2
        simp only [hr, Option.some.injEq, Prod.mk.injEq] at hrun
        obtain ⟨rfl, rfl⟩ := hrun
        obtain ⟨hbyp, hnm, hm⟩ := limit_step hlim
        have ih' := ih l1 as hr
        have htl : hostTimeline l1 h rs = hostTimeline l h rs := by
          simp [hostTimeline, mine_congr hbyp]
        rw [htl, hostAdmitted_congr hbyp] at ih'
        by_cases hmine : l.mine h r = true
        · -- a metered request of `h`
          have hmet : l.metered r = true := by
            simp only [Limiter.mine, Bool.and_eq_true] at hmine; exact hmine.1
          have hhost : r.host = h := by
            simp only [Limiter.mine, Bool.and_eq_true, decide_eq_true_eq] at hmine; exact hmine.2
          obtain ⟨b', ht, hlk, _⟩ := hm hmet
          rw [hhost] at hlk
          have hs1 : startBucket l1 h rs = some b' := by simp [startBucket, hlk]
          have hs : startBucket l h (r :: rs) = some (l.cur r) := by
            unfold startBucket Limiter.cur
            rw [hhost]
            cases hl : lookup h l.buckets <;> simp [List.find?, hmine]
          rw [hs1] at ih'
          obtain ⟨bE, hbE, hlE⟩ := ih'
          rw [hs]
          refine ⟨bE, ?_, hlE⟩
          simp [hostTimeline, hostAdmitted, List.filter, hmine, Bucket.run, ht]
          simp [hostTimeline] at hbE
          simp [hbE]
        · -- any other request leaves `h`'s bucket alone
          have hmine' : l.mine h r = false := by simpa using hmine
          have hlk : lookup h l1.buckets = lookup h l.buckets := by
            cases hmr : l.metered r with
            | false => rw [(hnm hmr).1]
            | true =>
              obtain ⟨_, _, _, hoth⟩ := hm hmr
              apply hoth
              intro e
              simp [Limiter.mine, hmr, e] at hmine'
          have hs : startBucket l1 h rs = startBucket l h (r :: rs) := by
            simp [startBucket, hlk, mine_congr hbyp, List.find?, hmine']
          rw [hs] at ih'
          simpa [hostTimeline, hostAdmitted, List.filter, hmine'] using ih'

end HeartwoodModel.Limiter
