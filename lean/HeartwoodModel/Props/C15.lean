import HeartwoodModel.Lemmas.Wire
import HeartwoodModel.Props.C14
/-!
# C15 — Wire messages round-trip and have a unique encoding

Property theorems about `Model/Wire.lean` (`wire::serialize` / `wire::deserialize::<Message>`).

* `encode_size`      — every well-formed message (`Wire.Wf`: what the node can construct) encodes within
                       65 535 bytes and `wire::serialize` does not panic on it;
* `decode_encode`    — …and decodes to an equal message, with nothing left over;
* `encode_decode_canonical` — FALSE of the current code as a universal statement
  (`…_counterexample`: `ZeroBytes::decode` ignores the padding values of ping/pong — known finding
  `pingpong-nonzero-padding`; plus the documented exception, a node announcement without trailing user
  agent). Proved instead: `encode_decode_canonical_partial` (any bytes that decode CLEANLY re-encode to
  exactly the same bytes) and `encode_decode_canonical_exact` (clean is also necessary), where "clean"
  excludes exactly (p) a ping/pong padding byte ≠ 0 and (a) a node announcement with NOTHING after the
  nonce (`lossy_cases` spells both out on the bytes). A user agent that is cut short is rejected
  (`truncated_agent_rejected`, regression for `fix:` 7273931);
* `reencode_ok` / `reencode_oversize_counterexample` — a cleanly decoded message of at most 65 535 bytes
  re-serializes to its input; known finding `decoded-message-not-encodable`: ping/pong counts above
  `MAX_*_ZEROES` decode (inside a large gossip frame) to a message `wire::serialize` panics on;
* `stream_decode_encode` — on the production path (gossip frames through the stream `Deserializer`, any
  chunking of the transport reads) every well-formed message arrives as an equal message;
* `signed_bytes_are_sent_bytes` — for a cleanly decoded announcement, the bytes `Announcement::verify`
  re-serializes and checks the signature over are the bytes the sender sent after type, node id, signature.
-/
set_option linter.unusedVariables false
-- the `decide`s below evaluate the decoder on ~130-byte literals
set_option maxRecDepth 20000
namespace HeartwoodModel.C15
open HeartwoodModel.Codec HeartwoodModel.Wire

/-- **encode_size.** -/
theorem encode_size (env : Env) (m : Msg) (hm : Wf env m) :
    m.encode.length ≤ 65535 ∧ m.serialize? = some m.encode :=
  ⟨encode_length_le env m hm, serialize?_of_wf env m hm⟩

/-- **decode_encode.** `wire::deserialize(&wire::serialize(&m)) == Ok(m)` for every message the node can
construct (and no lossy step is involved). -/
theorem decode_encode (env : Env) (m : Msg) (hm : Wf env m) :
    deserializeG env m.encode = .ok (m, {}) [] ∧ deserialize env m.encode = .ok m [] := by
  have h := decodeMsgG_encode env m hm []
  rw [List.append_nil] at h
  simp [deserialize, deserializeG, h]

/-- Also inside a stream: whatever follows the encoding is left untouched. -/
theorem decode_encode_append (env : Env) (m : Msg) (hm : Wf env m) (r : Bytes) :
    decodeMsg env (m.encode ++ r) = .ok m r := decodeMsg_encode env m hm r

/-! ### unique encoding -/

/-- `wire::deserialize` succeeded on exactly these bytes. -/
theorem deserializeG_ok {env : Env} {b r : Bytes} {mg : Msg × Ghost} (h : deserializeG env b = .ok mg r) :
    decodeMsgG env b = .ok mg [] ∧ r = [] := by
  unfold deserializeG at h
  cases hd : decodeMsgG env b with
  | ok mg' r' =>
    rw [hd] at h
    cases r' with
    | nil => simp only [Res.ok.injEq] at h; obtain ⟨rfl, rfl⟩ := h; exact ⟨rfl, rfl⟩
    | cons x xs => cases h
  | incomplete => rw [hd] at h; cases h
  | invalid => rw [hd] at h; cases h
  | panic s => rw [hd] at h; cases h

/-- **encode_decode_canonical_partial.** Any bytes that decode successfully and cleanly — no ping/pong
padding byte ≠ 0, user agent of a node announcement present — re-encode to exactly the same bytes. -/
theorem encode_decode_canonical_partial (env : Env) (b : Bytes) (m : Msg) (g : Ghost)
    (h : deserializeG env b = .ok (m, g) []) (hclean : g.clean = true) : m.encode = b := by
  have := (decodeMsgG_canonical_iff env (deserializeG_ok h).1).mp hclean
  simpa using this.symm

/-- The excluded class is exact: a decode that is not clean never re-encodes to its input. -/
theorem encode_decode_canonical_exact (env : Env) (b : Bytes) (m : Msg) (g : Ghost)
    (h : deserializeG env b = .ok (m, g) []) : g.clean = true ↔ m.encode = b := by
  rw [decodeMsgG_canonical_iff env (deserializeG_ok h).1]
  simp [eq_comm]

/-- What the two excluded classes are, on the bytes: (p) a ping or pong whose padding `pad` contains a
non-zero byte; (a) a node announcement that ends right after the nonce — the documented exception. -/
theorem lossy_cases (env : Env) (b : Bytes) (m : Msg) (g : Ghost)
    (h : deserializeG env b = .ok (m, g) []) (hlossy : g.clean = false) :
    (∃ p, ∃ pad : Bytes, m = .ping p pad.length ∧ pad.any (· ≠ 0) = true ∧
      b = encU16 10 ++ (encU16 p ++ (encU16 pad.length ++ pad))) ∨
    (∃ pad : Bytes, m = .pong pad.length ∧ pad.any (· ≠ 0) = true ∧
      b = encU16 12 ++ (encU16 pad.length ++ pad)) ∨
    (∃ node sig v feat ts al addrs nonce,
      m = .nodeAnn node sig v feat ts al addrs nonce defaultAgent ∧
      b = encU16 2 ++ nodeAnnHead node sig v feat ts al addrs nonce) := by
  rcases decodeMsgG_cases env (deserializeG_ok h).1 with ⟨rfl, _⟩ | ⟨p, pad, _, rfl, rfl, hb⟩ |
    ⟨pad, _, rfl, rfl, hb⟩ | ⟨node, sig, v, feat, ts, al, addrs, nonce, rfl, rfl, _, hb⟩
  · simp [Ghost.clean] at hlossy
  · left
    refine ⟨p, pad, rfl, ?_, by simpa using hb⟩
    simpa [Ghost.clean] using hlossy
  · right; left
    refine ⟨pad, rfl, ?_, by simpa using hb⟩
    simpa [Ghost.clean] using hlossy
  · right; right
    exact ⟨node, sig, v, feat, ts, al, addrs, nonce, rfl, hb⟩

/-- The full statement `∀ b m, deserialize b = ok m → encode m = b` is FALSE of the current code.
**Known finding** (class `pingpong-nonzero-padding`): a ping with one padding byte `0xff`. -/
theorem encode_decode_canonical_counterexample :
    ∃ (b : Bytes) (m : Msg), deserialize ⟨fun _ => false⟩ b = .ok m [] ∧ m.encode ≠ b :=
  ⟨[0x00, 0x0a, 0x00, 0x07, 0x00, 0x01, 0xff], .ping 7 1, by decide, by decide⟩

/-- Same for pong. -/
theorem encode_decode_canonical_counterexample_pong :
    ∃ (b : Bytes) (m : Msg), deserialize ⟨fun _ => false⟩ b = .ok m [] ∧ m.encode ≠ b :=
  ⟨[0x00, 0x0c, 0x00, 0x02, 0x00, 0x01], .pong 2, by decide, by decide⟩

/-- A node announcement (alias `a`, no addresses) that stops right after the nonce. -/
def nodeAnnNoAgent : Bytes :=
  [0x00, 0x02] ++ List.replicate 32 0x11 ++ List.replicate 64 0x22 ++
  [0x01] ++ List.replicate 8 0x00 ++ List.replicate 8 0x00 ++ [0x01, 0x61] ++ [0x00, 0x00] ++
  List.replicate 8 0x00

/-- The documented exception: a node announcement without the optional trailing user agent decodes (the
agent becomes `/radicle/`) and re-encodes WITH it. -/
theorem encode_decode_canonical_counterexample_no_agent :
    ∃ m : Msg, deserialize ⟨fun _ => false⟩ nodeAnnNoAgent = .ok m [] ∧ m.encode ≠ nodeAnnNoAgent ∧
      m.encode = nodeAnnNoAgent ++ encStr defaultAgent :=
  ⟨.nodeAnn (List.replicate 32 0x11) (List.replicate 64 0x22) 1 0 0 [0x61] [] 0 defaultAgent,
    by decide, by decide, by decide⟩

/-- Regression for `fix:` 7273931 (oracle class `node-ann-truncated-agent`): a user agent that is CUT SHORT
(length byte 9, only `/rad` present) is no longer treated like an absent one: decoding fails with an EOF
error (`incomplete`; inside a complete gossip frame that is `invalid`). Before the fix these bytes decoded
to the announcement with the default agent. -/
theorem truncated_agent_rejected :
    deserialize ⟨fun _ => false⟩ (nodeAnnNoAgent ++ [0x09, 0x2f, 0x72, 0x61, 0x64]) = .incomplete ∧
    deserialize ⟨fun _ => false⟩ (nodeAnnNoAgent ++ [0x09]) = .incomplete := by decide

/-- A decoded message always re-encodes (no assertion of `&str::encode` can fire); if it was decoded
cleanly from at most 65 535 bytes, `wire::serialize` returns exactly those bytes. -/
theorem reencode_ok (env : Env) (b : Bytes) (m : Msg) (g : Ghost)
    (h : deserializeG env b = .ok (m, g) []) (hclean : g.clean = true) (hlen : b.length ≤ 65535) :
    m.serialize? = some b := by
  have he := encode_decode_canonical_partial env b m g h hclean
  have hs := decodeMsgG_strsOk env (deserializeG_ok h).1
  unfold Msg.serialize?
  rw [he, hs]
  simp [hlen]

/-- **Known finding** (class `decoded-message-not-encodable`): `ZeroBytes` accepts any `u16` count, but a ping
with more than `MAX_PING_ZEROES = 65 529` zeroes (it can arrive inside a gossip frame, whose payload may be
longer than 64 KiB) is a `Message` that `wire::serialize` panics on ("Message exceeds maximum size"). -/
theorem reencode_oversize_counterexample :
    ∃ (b : Bytes) (m : Msg), deserializeG ⟨fun _ => false⟩ b = .ok (m, {}) [] ∧ m.serialize? = none := by
  have key : ∀ n, n < 65536 → 65529 < n →
      deserializeG ⟨fun _ => false⟩ (encU16 10 ++ (encU16 0 ++ (encU16 n ++ (List.replicate n 0 ++ [])))) =
        .ok (.ping 0 n, {}) [] ∧ (Msg.ping 0 n).serialize? = none := by
    intro n hn hbig
    constructor
    · have hb : decodeMsgG ⟨fun _ => false⟩
          (encU16 10 ++ (encU16 0 ++ (encU16 n ++ (List.replicate n 0 ++ [])))) =
          .ok (.ping 0 n, {}) [] := by
        unfold decodeMsgG
        rw [u16_exact.bind_iff]
        refine ⟨10, by decide, _, rfl, ?_⟩
        have : bodyOf ⟨fun _ => false⟩ 10 = pingBody := rfl
        rw [this, pingBody_iff]
        refine ⟨0, by decide, List.replicate n 0, by rw [List.length_replicate]; exact hn, ?_, ?_⟩
        · rw [List.length_replicate, any_ne_zero_replicate]
        · rw [List.length_replicate]
      unfold deserializeG
      rw [hb]
    · unfold Msg.serialize?
      rw [if_neg]
      simp only [Msg.strsOk, Msg.encode, Msg.encodeBody, Msg.typeId, encZeroes, List.length_append,
        length_encU16, List.length_replicate, Bool.true_and, decide_eq_true_eq]
      omega
  exact ⟨_, _, key 65535 (by decide) (by decide)⟩

/-! ### the stream path -/

open HeartwoodModel.Frame in
/-- **stream_decode_encode.** The production path: well-formed messages `p.2.1`, each framed as a gossip
frame on stream `p.1` (`p.2.2` = what `Frame::encode` wrote), concatenated and delivered to the inbox
`Deserializer<B, Frame>` in ANY chunking of transport reads that respects the inbox bound, come out as
exactly the sent messages, in order, with nothing left over — at whatever byte a read happens to end (in
particular between the nonce and the user agent of a node announcement). Corollary of C14's
`chunking_independent_message` and `decode_encode`. -/
theorem stream_decode_encode (env : Env) (ms : List (Nat × Msg × Bytes))
    (h : ∀ p ∈ ms, kindOf p.1 = some .gossip ∧ Wf env p.2.1 ∧
      Frame.encode? Msg.serialize? ⟨p.1, .gossip p.2.1⟩ = some p.2.2)
    (chunks : List Bytes) (hc : chunks.flatten = (ms.map (·.2.2)).flatten)
    (B : Nat) (hB : FitsInbox B (ms.map (·.2.2.length)) 0 chunks) :
    ∃ groups, Deser.feed (Frame.decode (decodeMsg env)) B ⟨[]⟩ chunks = some (groups, ⟨[]⟩, .more) ∧
      groups.flatten = ms.map (fun p => (⟨p.1, .gossip p.2.1⟩ : Frame Msg)) ∧
      groups.length = chunks.length := by
  let f : Nat × Msg × Bytes → Frame Msg × Bytes := fun p => (⟨p.1, .gossip p.2.1⟩, p.2.2)
  have e1 : (ms.map f).map (·.2) = ms.map (·.2.2) := by rw [List.map_map]; rfl
  have e2 : (ms.map f).map (·.2.length) = ms.map (·.2.2.length) := by rw [List.map_map]; rfl
  have e3 : (ms.map f).map (·.1) = ms.map (fun p => (⟨p.1, .gossip p.2.1⟩ : Frame Msg)) := by
    rw [List.map_map]; rfl
  have := C14.chunking_independent_message env (ms.map f)
    (by
      intro q hq
      obtain ⟨p, hp, rfl⟩ := List.mem_map.mp hq
      obtain ⟨hk, hw, he⟩ := h p hp
      refine ⟨he, hk, ?_⟩
      intro m hm
      cases hm
      exact hw)
    chunks (by rw [e1]; exact hc) B (by rw [e2]; exact hB)
  rw [e3] at this
  exact this

/-! ### signatures -/

/-- **signed_bytes_are_sent_bytes.** For an announcement decoded cleanly from `b`, the bytes that
`Announcement::verify` re-serializes (`wire::serialize(&self.message)`) are literally the bytes the sender
sent after the type id (2), node id (32) and signature (64): a signature checked on the re-encoding is a
signature over what was sent. -/
theorem signed_bytes_are_sent_bytes (env : Env) (b : Bytes) (m : Msg) (g : Ghost) (s : Bytes)
    (h : deserializeG env b = .ok (m, g) []) (hclean : g.clean = true)
    (hs : m.signedPart = some s) (hwf : Wf env m) : s = b.drop 98 := by
  have he := encode_decode_canonical_partial env b m g h hclean
  obtain ⟨node, sig, henc, hl⟩ := encode_signedPart hs
  obtain ⟨h1, h2⟩ := hl env hwf
  rw [← he, henc]
  have e1 : (encU16 m.typeId).drop 98 = [] := List.drop_eq_nil_of_le (by rw [length_encU16]; decide)
  have e2 : node.drop 96 = [] := List.drop_eq_nil_of_le (by omega)
  have e3 : sig.drop 64 = [] := List.drop_eq_nil_of_le (by omega)
  have : (encU16 m.typeId ++ (node ++ (sig ++ s))).drop 98 = s := by
    rw [List.drop_append, List.drop_append, List.drop_append]
    simp [length_encU16, h1, h2, e1, e2, e3]
  rw [this]

/-- Inventory and refs announcements have no lossy step at all: they ALWAYS re-encode to what was sent. -/
theorem inventory_refs_always_canonical (env : Env) (b : Bytes) (m : Msg) (g : Ghost)
    (h : deserializeG env b = .ok (m, g) [])
    (hm : (∃ n s i t, m = .invAnn n s i t) ∨ (∃ n s rid refs t, m = .refsAnn n s rid refs t)) :
    m.encode = b := by
  apply encode_decode_canonical_partial env b m g h
  rcases decodeMsgG_cases env (deserializeG_ok h).1 with ⟨rfl, _⟩ | ⟨p, pad, _, rfl, _, _⟩ |
    ⟨pad, _, rfl, _, _⟩ | ⟨node, sig, v, feat, ts, al, addrs, nonce, rfl, _, _, _⟩
  · rfl
  · rcases hm with ⟨_, _, _, _, h'⟩ | ⟨_, _, _, _, _, h'⟩ <;> cases h'
  · rcases hm with ⟨_, _, _, _, h'⟩ | ⟨_, _, _, _, _, h'⟩ <;> cases h'
  · rcases hm with ⟨_, _, _, _, h'⟩ | ⟨_, _, _, _, _, h'⟩ <;> cases h'

/-! ### non-vacuity -/

/-- A well-formed node announcement with a DNS address and a user agent. -/
def exNodeAnn : Msg :=
  .nodeAnn (List.replicate 32 7) (List.replicate 64 9) 1 3 42 [0x61, 0x6c, 0x69] -- "ali"
    [⟨.dns [0x78, 0x2e, 0x79], 8776⟩, ⟨.ipv4 [127, 0, 0, 1], 1⟩] 5 defaultAgent

example : Wf ⟨fun _ => false⟩ exNodeAnn := by
  refine ⟨by decide, by decide, by decide, by decide, by decide, by decide, by decide, ?_, by decide, by decide⟩
  intro a ha
  simp only [List.mem_cons, List.mem_nil_iff, or_false] at ha
  rcases ha with rfl | rfl
  · exact ⟨⟨by decide, by decide⟩, by decide⟩
  · exact ⟨(by decide : ([127, 0, 0, 1] : Bytes).length = 4), by decide⟩

example : deserializeG ⟨fun _ => false⟩ exNodeAnn.encode = .ok (exNodeAnn, {}) [] := by decide

example : Wf ⟨fun _ => false⟩ (.ping 7 3) := ⟨by decide, by decide⟩

/-- Clean decode of non-trivial bytes: hypotheses of `encode_decode_canonical_partial` are satisfiable. -/
example : deserializeG ⟨fun _ => false⟩ [0x00, 0x0a, 0x00, 0x07, 0x00, 0x03, 0, 0, 0] =
    .ok (.ping 7 3, {}) [] ∧ ({} : Ghost).clean = true := by decide

end HeartwoodModel.C15
