import HeartwoodModel.Driver.Loop
import HeartwoodModel.Driver.C03
def main : IO Unit := HeartwoodModel.Driver.driverMain "C03" HeartwoodModel.Driver.C03.run
